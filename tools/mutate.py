#!/usr/bin/env python3
"""tools/mutate.py <out-root> : systematic one-token mutants of the library sources (not of test modules), one patch each:
<out-root>/<file-tag>/<nnnn>/patch.diff + meta.json.  Used to look for clauses no check covers: run tools/matrix.py over the
root, then the repository's test suite on the mutants no check alarms on, and read what survives both."""
import os, re, sys, json, subprocess, tempfile, shutil
OUT = sys.argv[1]
EQUIV2 = len(sys.argv) > 2 and sys.argv[2] == 'equiv2'
EQUIV = len(sys.argv) > 2 and sys.argv[2] in ('equiv', 'equiv2')      # behaviour-preserving one-line rewrites: every alarm on one of these is a false alarm
MODE2 = len(sys.argv) > 2 and sys.argv[2] == 'mode2'      # second operator set: conditions, `?`, argument order
FILES = ['cadence/src/builder.rs', 'cadence/src/client.rs', 'cadence/src/io.rs', 'cadence/src/types.rs', 'cadence/src/sinks/core.rs',
         'cadence/src/sinks/queuing.rs', 'cadence/src/sinks/udp.rs', 'cadence/src/sinks/unix.rs', 'cadence/src/sinks/spy.rs',
         'cadence-macros/src/state.rs', 'cadence-macros/src/macros.rs']
PAIRS = [(' < ', ' <= '), (' <= ', ' < '), (' > ', ' >= '), (' >= ', ' > '), (' == ', ' != '), (' != ', ' == '), (' && ', ' || '), (' || ', ' && '),
         (' + ', ' - '), (' - ', ' + '), (' += ', ' -= '), (' -= ', ' += '), ('true', 'false'), ('false', 'true'),
         ('Ordering::Acquire', 'Ordering::Relaxed'), ('Ordering::Release', 'Ordering::Relaxed'), ('Ordering::SeqCst', 'Ordering::Relaxed'),
         ('Ordering::AcqRel', 'Ordering::Relaxed'), ('.is_empty()', '.is_full()'), ('.is_ok()', '.is_err()'), ('.is_err()', '.is_ok()'),
         ('.is_some()', '.is_none()'), ('.is_none()', '.is_some()'), ('as_millis', 'as_micros'), ('as_nanos', 'as_micros'), ('as_millis', 'as_secs'),
         ('bytes_sent', 'bytes_dropped'), ('bytes_dropped', 'bytes_sent'), ('packets_sent', 'packets_dropped'), ('packets_dropped', 'packets_sent'),
         ('incr_submitted', 'incr_drained'), ('incr_drained', 'incr_submitted'), ('.submitted', '.drained'), ('.drained', '.submitted'),
         ('try_send(', 'send('), ('.iter()', '.iter().rev()'), ('.iter()', '.iter().skip(1)'), ('.push(', '.insert(0, '), ('Some(', 'None.or(Some('),
         ('MetricType::Counter', 'MetricType::Gauge'), ('MetricType::Timer', 'MetricType::Histogram'), ('MetricType::Set', 'MetricType::Meter'),
         ('Signed(', 'Unsigned('), ('Unsigned(', 'Float('), ('u64::MAX', 'u32::MAX'), (' as u64', ' as u32 as u64'), ('.len()', '.capacity()'),
         ('.write(', '.write_all('), ('.flush()', '.get_ref()'), ('stop_requested', 'stopped'), ('.clone()', '.clone().clone()'),
         ('unwrap_or(DEFAULT_BUFFER_SIZE)', 'unwrap_or(DEFAULT_BUFFER_SIZE + 1)'), ('.min(', '.max('), ('.next()', '.last()'), ('.next()', '.nth(1)')]
STRS = [('":"', '";"'), ("':'", "';'"), ('"|"', '"/"'), ("'|'", "'/'"), ('"|#"', '"|@"'), ("','", "';'"), ('"|c:"', '"|C:"'), ('"|T"', '"|t"'), ('"|@"', '"|#"'),
        ('"c"', '"g"'), ('"ms"', '"h"'), ('"g"', '"c"'), ('"m"', '"ms"'), ('"h"', '"d"'), ('"d"', '"h"'), ('"s"', '"g"'), ('"\\n"', '"\\r"'), ('"."', '"_"'), ("'.'", "'_'"),
        ('"{}{}:{}|{}"', '"{}{}:{}|{} "'), ('"|@{}"', '"|@{} "'), ('"|T{}"', '"|T{} "'), ('"|c:{}"', '"|c:{} "')]
NUM = re.compile(r'(?<![\w."])(\d+)(?![\w."\d])')


def code_lines(text):
    """indices of lines outside `#[cfg(test)] mod ...` blocks, outside comments/doc comments"""
    lines = text.split('\n')
    ok = []
    in_test = False
    depth = 0
    pending = False
    for i, l in enumerate(lines):
        s = l.strip()
        if not in_test and s.startswith('#[cfg(test)]'):
            pending = True
            continue
        if pending:
            if s.startswith('mod ') and s.endswith('{'):
                in_test = True
                depth = 1
                pending = False
                continue
            pending = False if s and not s.startswith('#[') else pending
            # a #[cfg(test)] item (fn / impl): skip until its block closes
            if '{' in s and not in_test:
                in_test = True
                depth = s.count('{') - s.count('}')
                if depth <= 0:
                    in_test = False
                continue
        if in_test:
            depth += l.count('{') - l.count('}')
            if depth <= 0:
                in_test = False
            continue
        if s.startswith('//') or s.startswith('#[') or s.startswith('use ') or not s:
            continue
        ok.append(i)
    return lines, ok


def main():
    n = 0
    for f in FILES:
        text = open('/repo/' + f).read()
        lines, ok = code_lines(text)
        tag = f.replace('cadence-macros/src/', 'mac_').replace('cadence/src/', '').replace('sinks/', 's_').replace('.rs', '')
        k = 0
        seen = set()
        for i in ok:
            l = lines[i]
            code = l.split(' //')[0]
            muts = []
            for a, b in PAIRS + STRS:
                start = 0
                while True:
                    j = code.find(a, start)
                    if j < 0:
                        break
                    muts.append((j, a, b))
                    start = j + len(a)
            for m in NUM.finditer(code):
                v = int(m.group(1))
                muts.append((m.start(), m.group(1), str(v + 1)))
                if v > 0:
                    muts.append((m.start(), m.group(1), str(v - 1)))
            s = code.strip()
            if EQUIV:
                muts = []
                flip = {'>': '<', '<': '>', '>=': '<=', '<=': '>=', '==': '==', '!=': '!='}
                OPND = r'[\w.:()&*]+(?: as \w+)?'
                for m2 in re.finditer(r'(?<![\w.:()&*])(' + OPND + r') (>=|<=|==|!=|>|<) (' + OPND + r')(?![\w.:(&*])', code):
                    a_, op_, b_ = m2.groups()
                    if a_ in ('if', 'while', 'let', 'return', '=') or b_ in ('{',):
                        continue
                    muts.append((code[:m2.start()] + '%s %s %s' % (b_, flip[op_], a_) + code[m2.end():], 'comparison written the other way round'))
                m_ = re.match(r'^(\s*)([\w.*]+) \+= (.+);\s*$', code)
                if m_:
                    muts.append(('%s%s = %s + %s;' % (m_.group(1), m_.group(2), m_.group(2).lstrip('*') if False else m_.group(2), m_.group(3)), '`x += y` as `x = x + y`'))
                for m2 in re.finditer(r'(?<![\w.:()&*])(' + OPND + r') \+ (' + OPND + r')(?![\w.:(&*])', code):
                    a_, b_ = m2.groups()
                    muts.append((code[:m2.start()] + '%s + %s' % (b_, a_) + code[m2.end():], 'operands of `+` swapped'))
                for a_, b_, w_ in (('.is_empty()', '.len() == 0', 'is_empty as len() == 0'), ('Ordering::Acquire', 'Ordering::SeqCst', 'stronger ordering'),
                                   ('Ordering::Release', 'Ordering::SeqCst', 'stronger ordering'), ('Ordering::AcqRel', 'Ordering::SeqCst', 'stronger ordering'),
                                   ('Ordering::Relaxed', 'Ordering::SeqCst', 'stronger ordering'), ('u64::MAX as u128', 'u128::from(u64::MAX)', 'lossless cast as From'),
                                   ('.to_string()', '.to_owned()', 'to_owned for to_string'), ('.is_ok()', '.ok().is_some()', 'is_ok via ok()'),
                                   ('.is_err()', '.err().is_some()', 'is_err via err()'), ('.is_some()', '.iter().next().is_some()', 'is_some via iter'),
                                   ('.clone()', '.clone().clone()', 'a clone of a clone'), ('let _ = ', 'drop(', None), ('.unwrap()', '.expect("checked above")', 'expect for unwrap'),
                                   ('.iter()', '.iter().take(usize::MAX)', 'iter().take(MAX)'), ('(len as u64)', '(u64::try_from(len).unwrap_or(u64::MAX))', 'checked cast that cannot fail')):
                    if w_ is None:
                        continue
                    st_ = 0
                    while True:
                        j_ = code.find(a_, st_)
                        if j_ < 0:
                            break
                        if a_ == '.is_empty()' and j_ > 0 and code[:j_].rstrip().endswith('!'):
                            st_ = j_ + 1
                            continue
                        muts.append((code[:j_] + b_ + code[j_ + len(a_):], w_))
                        st_ = j_ + len(a_)
                m_ = re.match(r'^(\s*)let _ = (.+);\s*$', code)
                if m_:
                    muts.append(('%sdrop(%s);' % (m_.group(1), m_.group(2)), '`let _ = x` as `drop(x)`'))
                if EQUIV2:
                    muts = []
                    neg = {'>': '<=', '<': '>=', '>=': '<', '<=': '>', '==': '!=', '!=': '=='}
                    m_ = re.match(r'^(\s*)((?:\} ?else )?if) (' + OPND + r') (>=|<=|==|!=|>|<) (' + OPND + r') \{\s*$', code)
                    if m_:
                        muts.append(('%s%s !(%s %s %s) {' % (m_.group(1), m_.group(2), m_.group(3), neg[m_.group(4)], m_.group(5)), 'comparison as negated opposite'))
                    for pat_, rep_, w_ in ((r'\.unwrap_or\(([^()|]+)\)', r'.unwrap_or_else(|| \1)', 'unwrap_or as unwrap_or_else'),
                                           (r'\.ok_or\(([^()|]+)\)', r'.ok_or_else(|| \1)', 'ok_or as ok_or_else'),
                                           (r'String::new\(\)', 'String::default()', 'String::default()'),
                                           (r'Vec::new\(\)', 'Vec::default()', 'Vec::default()'),
                                           (r'\.map_err\(([A-Za-z_:]+)\)', r'.map_err(|e| \1(e))', 'map_err(f) as closure'),
                                           (r'\.map\(([A-Za-z_:]+)\)', r'.map(|v| \1(v))', 'map(f) as closure'),
                                           (r'\(\*\*self\)\.', 'self.as_ref().', 'as_ref for deref'),
                                           (r'Ok\(\(\)\)', 'Ok(Default::default())', 'unit via Default')):
                        for m2 in re.finditer(pat_, code):
                            muts.append((code[:m2.start()] + m2.expand(rep_) + code[m2.end():], w_))
                for nl_, what_ in muts:
                    if nl_ == code:
                        continue
                    new = lines[:i] + [nl_] + lines[i + 1:]
                    desc = 'line %d: %s: %s' % (i + 1, what_, l.strip())
                    k += 1
                    d = os.path.join(OUT, tag, '%04d' % k)
                    os.makedirs(d, exist_ok=True)
                    tmp = tempfile.mkdtemp(prefix='mut_')
                    os.makedirs(os.path.join(tmp, 'a', os.path.dirname(f)))
                    os.makedirs(os.path.join(tmp, 'b', os.path.dirname(f)))
                    open(os.path.join(tmp, 'a', f), 'w').write(text)
                    open(os.path.join(tmp, 'b', f), 'w').write('\n'.join(new))
                    p = subprocess.run(['diff', '-u', os.path.join('a', f), os.path.join('b', f)], cwd=tmp, stdout=subprocess.PIPE)
                    open(os.path.join(d, 'patch.diff'), 'wb').write(p.stdout)
                    json.dump({'file': f, 'desc': desc}, open(os.path.join(d, 'meta.json'), 'w'))
                    shutil.rmtree(tmp)
                    n += 1
                continue
            if MODE2:
                muts = []
                ind = l[:len(l) - len(l.lstrip())]
                m_ = re.match(r'^(\s*)(\}? ?else )?if (?!let )(.+) \{\s*$', code)
                if m_:
                    pre, cond = (m_.group(1) + (m_.group(2) or '')), m_.group(3)
                    muts.append(('L', pre + 'if !(' + cond + ') {', 'condition negated'))
                    muts.append(('L', pre + 'if true {', 'condition -> true'))
                    muts.append(('L', pre + 'if false {', 'condition -> false'))
                    for op in (' && ', ' || '):
                        if op in cond and cond.count(op) == 1:
                            a_, b_ = cond.split(op)
                            muts.append(('L', pre + 'if ' + a_ + ' {', 'right conjunct dropped'))
                            muts.append(('L', pre + 'if ' + b_ + ' {', 'left conjunct dropped'))
                m_ = re.match(r'^(\s*)(.+)\?;\s*$', code)
                if m_ and not m_.group(2).lstrip().startswith('let '):
                    muts.append(('L', m_.group(1) + 'let _ = ' + m_.group(2) + ';', '`?` dropped (error ignored)'))
                m_ = re.match(r'^(\s*)let (\w+) = (.+)\?;\s*$', code)
                if m_:
                    muts.append(('L', m_.group(1) + 'let ' + m_.group(2) + ' = ' + m_.group(3) + '.unwrap_or_default();', '`?` replaced by unwrap_or_default'))
                for m2 in re.finditer(r'(\b[\w:.]+)\(([\w.&*]+), ([\w.&*]+)\)', code):
                    if m2.group(2) != m2.group(3):
                        muts.append(('L', code[:m2.start()] + '%s(%s, %s)' % (m2.group(1), m2.group(3), m2.group(2)) + code[m2.end():], 'two arguments swapped'))
                m_ = re.match(r'^(\s*)(Ok|Err|Some)\((.+)\)(,?)\s*$', code)
                if m_ and m_.group(2) == 'Ok':
                    muts.append(('L', m_.group(1) + 'Ok(Default::default())' + m_.group(4), 'Ok payload -> default'))
                m_ = re.match(r'^(\s*)(.+) => (.+),\s*$', code)
                if m_ and '=> {' not in code and m_.group(3).strip() not in ('()',):
                    pass
                for kind_, nl_, what_ in muts:
                    if nl_ == l:
                        continue
                    new = lines[:i] + [nl_] + lines[i + 1:]
                    desc = 'line %d: %s: %s' % (i + 1, what_, l.strip())
                    k += 1
                    d = os.path.join(OUT, tag, '%04d' % k)
                    os.makedirs(d, exist_ok=True)
                    tmp = tempfile.mkdtemp(prefix='mut_')
                    os.makedirs(os.path.join(tmp, 'a', os.path.dirname(f)))
                    os.makedirs(os.path.join(tmp, 'b', os.path.dirname(f)))
                    open(os.path.join(tmp, 'a', f), 'w').write(text)
                    open(os.path.join(tmp, 'b', f), 'w').write('\n'.join(new))
                    p = subprocess.run(['diff', '-u', os.path.join('a', f), os.path.join('b', f)], cwd=tmp, stdout=subprocess.PIPE)
                    open(os.path.join(d, 'patch.diff'), 'wb').write(p.stdout)
                    json.dump({'file': f, 'desc': desc}, open(os.path.join(d, 'meta.json'), 'w'))
                    shutil.rmtree(tmp)
                    n += 1
                continue
            # statement deletion: a call statement on its own line
            if s.endswith(';') and not s.startswith(('let ', 'return', 'use ', 'pub ', 'const ', 'static ', 'type ', 'break', 'continue')) and ('(' in s or ' += ' in s or ' -= ' in s or s.startswith(('self.', '*'))):
                muts.append((None, l, None))
            for j, a, b in muts:
                if j is None:
                    new = lines[:i] + lines[i + 1:]
                    desc = 'line %d deleted: %s' % (i + 1, l.strip())
                else:
                    nl = l[:j] + b + l[j + len(a):]
                    if nl == l:
                        continue
                    new = lines[:i] + [nl] + lines[i + 1:]
                    desc = 'line %d: `%s` -> `%s` in: %s' % (i + 1, a.strip(), b.strip(), l.strip())
                key = (i, j, a, b)
                if key in seen:
                    continue
                seen.add(key)
                k += 1
                d = os.path.join(OUT, tag, '%04d' % k)
                os.makedirs(d, exist_ok=True)
                tmp = tempfile.mkdtemp(prefix='mut_')
                os.makedirs(os.path.join(tmp, 'a', os.path.dirname(f)))
                os.makedirs(os.path.join(tmp, 'b', os.path.dirname(f)))
                open(os.path.join(tmp, 'a', f), 'w').write(text)
                open(os.path.join(tmp, 'b', f), 'w').write('\n'.join(new))
                p = subprocess.run(['diff', '-u', os.path.join('a', f), os.path.join('b', f)], cwd=tmp, stdout=subprocess.PIPE)
                open(os.path.join(d, 'patch.diff'), 'wb').write(p.stdout)
                json.dump({'file': f, 'desc': desc}, open(os.path.join(d, 'meta.json'), 'w'))
                shutil.rmtree(tmp)
                n += 1
        print(tag, k)
    print('total', n)


main()
