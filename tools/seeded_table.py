#!/usr/bin/env python3
"""tools/seeded_table.py : rewrite the table between the SEEDED-TABLE markers of DESIGN.md from seeded/*/meta.json"""
import glob, json, os, re
V = os.path.dirname(os.path.dirname(os.path.abspath(__file__)))
rows = []
for mp in sorted(glob.glob(os.path.join(V, 'seeded', '*', 'meta.json'))):
    m = json.load(open(mp))
    c = m.get('check_on_repo_with_change', {})
    keys = c.get('violated_keys', [])
    summ = re.sub(r'\s+', ' ', (m.get('summary') or '')).strip()
    if len(summ) > 150:
        summ = summ[:147] + '...'
    summ = summ.replace('|', '\\|')
    own = 'caught' if c.get('exit') == 1 else '**missed**'
    rows.append('| %s | %s | %s | %s | %s |' % (m['id'], summ, own, '<br>'.join('`%s`' % k for k in keys[:3]) + (' …' if len(keys) > 3 else ''),
                                               ' '.join(m.get('all_checks_alarming', []))))
head = ['| seeded change | what it does | own check | violated rule instances (first 3) | all checks that alarm |', '|---|---|---|---|---|']
p = os.path.join(V, 'DESIGN.md')
t = open(p).read()
a = t.index('<!-- SEEDED-TABLE-BEGIN -->') + len('<!-- SEEDED-TABLE-BEGIN -->')
b = t.index('<!-- SEEDED-TABLE-END -->')
t = t[:a] + '\n' + '\n'.join(head + rows) + '\n' + t[b:]
open(p, 'w').write(t)
print(len(rows), 'rows;', sum(1 for r in rows if '**missed**' in r), 'missed by own check')
