#!/bin/bash
# tools/try_patch.sh <patch.diff> <PID> [<PID>...] : run checks against a scratch copy of /repo with the patch applied
set -u
P="$1"; shift
D=$(mktemp -d /tmp/trypatch.XXXXXX)
trap 'rm -rf "$D"' EXIT
mkdir -p $D/src/cadence $D/src/cadence-macros
cp /repo/Cargo.toml /repo/Cargo.lock $D/src/
cp -r /repo/cadence/Cargo.toml /repo/cadence/src $D/src/cadence/
cp -r /repo/cadence-macros/Cargo.toml /repo/cadence-macros/src $D/src/cadence-macros/
( cd $D/src && patch -p1 -s --no-backup-if-mismatch -i "$P" ) || { echo "PATCH FAILED"; exit 9; }
cd /verif
for pid in "$@"; do
  ./check $pid --src $D/src --no-controls --no-evidence 2>&1 | grep -v "^  \[ok\]" | cut -c1-260 | tail -${TAILN:-6}
done
