#!/bin/bash
# tools/dbg_patch.sh <ABS patch> <outdir> : scratch copy of /repo + patch, facts extracted into <outdir>/facts (debug aid)
set -u
P="$1"; D="$2"
rm -rf "$D"; mkdir -p $D/src/cadence $D/src/cadence-macros
cp /repo/Cargo.toml /repo/Cargo.lock $D/src/
cp -r /repo/cadence/Cargo.toml /repo/cadence/src $D/src/cadence/
cp -r /repo/cadence-macros/Cargo.toml /repo/cadence-macros/src $D/src/cadence-macros/
( cd $D/src && patch -p1 -s --no-backup-if-mismatch -i "$P" ) || { echo "PATCH FAILED"; exit 9; }
bash /verif/extract.sh $D/src $D/facts --workspace
