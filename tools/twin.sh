#!/bin/bash
# tools/twin.sh <ABS patch> <file-relative-to-repo> <sed-expr> <PID...> : scratch copy of /repo + patch, then sed on one file
# (a broken twin of an accepted idiom), cargo check, then the given checks
set -u
P="$1"; F="$2"; S="$3"; shift 3
D=$(mktemp -d /tmp/twin.XXXXXX)
trap 'rm -rf "$D"' EXIT
mkdir -p $D/src/cadence $D/src/cadence-macros
cp /repo/Cargo.toml /repo/Cargo.lock $D/src/
cp -r /repo/cadence/Cargo.toml /repo/cadence/src $D/src/cadence/
cp -r /repo/cadence-macros/Cargo.toml /repo/cadence-macros/src $D/src/cadence-macros/
( cd $D/src && patch -p1 -s --no-backup-if-mismatch -i "$P" ) || { echo "PATCH FAILED"; exit 9; }
cp $D/src/$F $D/before; sed -i "$S" $D/src/$F
cmp -s $D/before $D/src/$F && { echo "SED CHANGED NOTHING"; exit 9; }
cd /verif
for pid in "$@"; do
  ./check $pid --src $D/src --no-controls --no-evidence 2>&1 | grep -v "^  \[ok\]" | cut -c1-260 | tail -${TAILN:-4}
done
