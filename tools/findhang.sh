#!/bin/bash
# tools/findhang.sh <patch> : run all 20 checks (90 s limit each, in parallel) on /repo + patch; print the ones that time out or break
P=$1
D=$(mktemp -d /tmp/fh.XXXXXX)
mkdir -p $D/src/cadence $D/src/cadence-macros
cp /repo/Cargo.toml /repo/Cargo.lock $D/src/
cp -r /repo/cadence/Cargo.toml /repo/cadence/src $D/src/cadence/
cp -r /repo/cadence-macros/Cargo.toml /repo/cadence-macros/src $D/src/cadence-macros/
( cd $D/src && patch -p1 -s --no-backup-if-mismatch -i "$P" ) || { echo "PATCH FAILED"; exit 9; }
cd /verif
for i in 01 02 03 04 05 06 07 08 09 10 11 12 13 14 15 16 17 18 19 20; do
  ( timeout -k 5 ${LIMIT:-90} python3 -B -m sa.driver C$i --src $D/src --no-controls --no-evidence > $D/out.$i 2>&1; rc=$?
    if [ $rc -ge 124 ]; then echo "TIMEOUT C$i on $P"; elif [ $rc -eq 2 ]; then echo "BROKEN C$i on $P: $(tail -1 $D/out.$i | cut -c1-200)"; fi ) &
done
wait
rm -rf $D
