#!/bin/bash
# every check against every behaviour-preserving refactoring: expect no alarm
set -e
cd "$(dirname "$0")/.."
T=$(mktemp -d); trap 'rm -rf $T' EXIT
for d in refactors/*/; do n=$(basename $d); g=${n%%-*}; r=${n#*-}; mkdir -p $T/$g/$r; cp $d/patch.diff $T/$g/$r/; done
tools/matrix.py $T | tee /tmp/refactor_suite.txt | tail -45
grep -c "alarms:0" /tmp/refactor_suite.txt
