#!/usr/bin/env python3
"""Debug aid: tools/dump.py <factsdir> <crate> <path-substring> [--noinline] : print events/terms of a body."""
import sys, os
sys.path.insert(0, os.path.dirname(os.path.dirname(os.path.abspath(__file__))))
from sa import facts, terms, inline
from sa.terms import norm, fmt
d, cr, sub = sys.argv[1:4]
c = facts.load(d, cr)
for b in c.all_bodies:
    if sub not in b.path:
        continue
    ib = b if '--noinline' in sys.argv else inline.inline(c, b, inline.local_picker(c))
    T = terms.Terms(ib)
    print('=====', b.path, b.where(), 'blocks', len(ib.blocks), 'inlined', getattr(ib, 'inlined', None))
    for bi, bl in enumerate(ib.blocks):
        if bl['cleanup'] and '--cleanup' not in sys.argv:
            continue
        for si, s in enumerate(bl['stmts']):
            if s['k'] == 'assign' and any(e[0] == 'deref' for e in s['place']['p']):
                print(bi, si, 'STORE', fmt(norm(T.place_loc(s['place'], bi, si))), ':=', fmt(norm(T.rvalue_term(s['rv'], bi, si))))
        t = bl['term']
        n = len(bl['stmts'])
        if t['k'] == 'call':
            print(bi, 'CALL', fmt(norm(T.call_term(bi))), '->', t['target'], 'unw', t['unwind'], '[%s]' % t.get('resolved_kind'))
        elif t['k'] == 'switch':
            dt, out = T.switch_facts(bi)
            print(bi, 'SWITCH', fmt(norm(dt)), out)
        elif t['k'] == 'assert':
            print(bi, 'ASSERT', t['msg'], fmt(norm(T.operand_term(t['cond'], bi, n))), '->', t['target'])
        elif t['k'] == 'return':
            print(bi, 'RETURN', fmt(norm(T.local_term(0, bi, n))))
        elif t['k'] == 'drop':
            print(bi, 'DROP', fmt(norm(T.place_loc(t['place'], bi, n))), t['ty'], '->', t['target'], 'unw', t['unwind'])
        else:
            print(bi, t['k'], t.get('target'), t.get('inl_call', ''))
