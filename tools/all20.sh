#!/bin/bash
# tools/all20.sh : all 20 checks on /repo (no controls, no evidence), prints only lines that are not OK
cd "$(dirname "$0")/.."
for i in 01 02 03 04 05 06 07 08 09 10 11 12 13 14 15 16 17 18 19 20; do
  ( ./check C$i --no-controls --no-evidence 2>&1 | tail -1 | grep -v "^OK " ) &
done 2>/dev/null
wait
echo "all20 done"
