#!/usr/bin/env python3
import sys, os, json, tempfile, shutil, concurrent.futures as cf
sys.path.insert(0, os.path.dirname(os.path.dirname(os.path.abspath(__file__))))
from sa import driver
ctl = json.load(open(os.path.join(driver.CONTROLS_DIR, 'controls.json')))
only = sys.argv[1:]
jobs = [(c, pid) for c in ctl for pid in c['expects'] if not only or c['id'] in only or pid in only]
root = tempfile.mkdtemp(prefix='tctl_')
def run(j):
    c, pid = j
    return c['id'], pid, driver.run_control(pid, c, root)
bad = 0
with cf.ThreadPoolExecutor(max_workers=12) as ex:
    for cid, pid, r in ex.map(run, jobs):
        if not r['fired']:
            bad += 1
            print('NOT FIRED %-28s %s applied=%s compiled=%s keys=%s err=%s' % (cid, pid, r['applied'], r['compiled'], r['keys'][:4], (r.get('error') or '')[-300:]))
shutil.rmtree(root, ignore_errors=True)
print('%d control runs, %d did not fire' % (len(jobs), bad))
