#!/bin/bash
# tools/confirm_seed.sh <PID> : confirm ${SEEDROOT:-/tmp/seed_out}/<PID>/m{1,2} in worktree /tmp/seed_wt_<PID>; writes ${SEEDROOT:-/tmp/seed_out}/<PID>/mK/confirm.json
PID=$1
WT=/tmp/seed_wt_$PID
cd $WT || exit 1
mkdir -p $WT/tmp; export TMPDIR=$WT/tmp
git checkout -q -- . ; git clean -fdq -e target -e tmp
export CARGO_NET_OFFLINE=true
suite() { cargo test --workspace --no-fail-fast --offline 2>&1 | grep -E "^test .* \.\.\. (ok|FAILED|ignored)" | sed -E 's/ - [^ ]+ \(line [0-9]+\)//; s/\(line [0-9]+\)//' | sort > $1; }
[ -f ${SEEDROOT:-/tmp/seed_out}/$PID/base_suite.txt ] || suite ${SEEDROOT:-/tmp/seed_out}/$PID/base_suite.txt
for M in m1 m2; do
  D=${SEEDROOT:-/tmp/seed_out}/$PID/$M
  [ -f $D/patch.diff ] || continue
  LOC=$(python3 -c "import json;print(json.load(open('$D/meta.json'))['demo_location'])")
  git checkout -q -- . ; git clean -fdq -e target -e tmp
  git apply $D/patch.diff || { echo "{\"applies\": false}" > $D/confirm.json; continue; }
  suite $D/mut_suite.txt
  SAME=$(diff -q ${SEEDROOT:-/tmp/seed_out}/$PID/base_suite.txt $D/mut_suite.txt >/dev/null && echo true || echo false)
  cp $D/demo.rs $LOC
  PKG=$(echo $LOC | cut -d/ -f1); T=$(basename $LOC .rs)
  USE_MIRI=$(python3 -c "import json;m=json.load(open('$D/meta.json'));print('yes' if 'miri' in json.dumps(m.get('demo_command') or m.get('ran') or '') else 'no')")
  if [ "$USE_MIRI" = "yes" ]; then
    MIRIFLAGS="-Zmiri-many-seeds=0..4" timeout 900 cargo +nightly miri test -p $PKG --test $T --offline > $D/demo_mut.log 2>&1; RM=$?
  else
    timeout 600 cargo test -p $PKG --test $T --offline > $D/demo_mut.log 2>&1; RM=$?
  fi
  git checkout -q -- . ; 
  if [ "$USE_MIRI" = "yes" ]; then
    MIRIFLAGS="-Zmiri-many-seeds=0..4" timeout 900 cargo +nightly miri test -p $PKG --test $T --offline > $D/demo_clean.log 2>&1; RC=$?
  else
    timeout 600 cargo test -p $PKG --test $T --offline > $D/demo_clean.log 2>&1; RC=$?
  fi
  rm -f $LOC
  NB=$(wc -l < ${SEEDROOT:-/tmp/seed_out}/$PID/base_suite.txt)
  echo "{\"applies\": true, \"suite_same_as_baseline\": $SAME, \"suite_tests\": $NB, \"demo_with_mutant_exit\": $RM, \"demo_on_clean_exit\": $RC}" > $D/confirm.json
done
git checkout -q -- . ; git clean -fdq -e target -e tmp
