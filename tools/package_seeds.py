#!/usr/bin/env python3
"""tools/package_seeds.py <seed-root> <tag> <matrix.json> : copy confirmed seeded changes <seed-root>/CXX/mK into
/verif/seeded/CXX-<tag>mK/ (patch.diff, demo.rs, meta.json) and record the official run against /repo itself:
  git -C /repo apply <patch> ; ./check CXX --no-controls --no-evidence ; git -C /repo checkout -- .
Nothing is ever committed in /repo; the working tree is restored straight after each run."""
import glob, json, os, shutil, subprocess, sys
root, tag, mx = sys.argv[1:4]
matrix = json.load(open(mx))
V = os.path.dirname(os.path.dirname(os.path.abspath(__file__)))
assert subprocess.run(['git', '-C', '/repo', 'status', '--porcelain'], stdout=subprocess.PIPE).stdout.strip() == b'', '/repo not clean'
for d in sorted(glob.glob(os.path.join(root, 'C*', 'm*'))):
    if not os.path.exists(os.path.join(d, 'patch.diff')):
        continue
    pid, m = d.split('/')[-2:]
    conf = json.load(open(os.path.join(d, 'confirm.json')))
    ok = conf.get('applies') and conf.get('suite_same_as_baseline') and conf.get('demo_with_mutant_exit') not in (0, None) and conf.get('demo_on_clean_exit') == 0
    if not ok:
        print('NOT CONFIRMED', pid, m, conf)
        continue
    sid = '%s-%s%s' % (pid, tag, m)
    out = os.path.join(V, 'seeded', sid)
    os.makedirs(out, exist_ok=True)
    shutil.copy(os.path.join(d, 'patch.diff'), out)
    shutil.copy(os.path.join(d, 'demo.rs'), out)
    am = json.load(open(os.path.join(d, 'meta.json')))
    patch = os.path.join(out, 'patch.diff')
    subprocess.run(['git', '-C', '/repo', 'apply', patch], check=True)
    try:
        p = subprocess.run(['./check', pid, '--no-controls', '--no-evidence'], cwd=V, stdout=subprocess.PIPE, stderr=subprocess.STDOUT)
    finally:
        subprocess.run(['git', '-C', '/repo', 'checkout', '--', '.'], check=True)
    txt = p.stdout.decode()
    keys = sorted(set(l.strip().split(' [')[0].split(' ', 1)[-1] for l in txt.splitlines() if l.startswith('  ') and '] ' in l and '[ok]' not in l))
    name = '%s/%s' % (pid, m)
    alarming = sorted(q for q, (rc, _) in matrix.get(name, {}).items() if rc == 1)
    meta = {
        'id': sid, 'property': pid,
        'origin': 'independent sub-agent given only the property text and a scratch worktree (round %s)' % (tag.strip('r') or '1'),
        'summary': am.get('summary'), 'needs_to_manifest': am.get('needs'), 'demo_location': am.get('demo_location'),
        'agent_ran': am.get('ran'),
        'confirmed_by_me': {
            'procedure': 'scratch worktree of /repo HEAD: git apply; cargo test --workspace --no-fail-fast --offline compared per test with the clean '
                         'tree; demo copied to demo_location and run with the change (must fail) and on the clean tree (must pass)',
            'suite_same_as_baseline': conf['suite_same_as_baseline'], 'suite_tests': conf['suite_tests'],
            'demo_exit_with_change': conf['demo_with_mutant_exit'], 'demo_exit_on_clean_tree': conf['demo_on_clean_exit']},
        'check_on_repo_with_change': {
            'cmd': 'git -C /repo apply seeded/%s/patch.diff && ./check %s --no-controls --no-evidence ; git -C /repo checkout -- .' % (sid, pid),
            'exit': p.returncode, 'violated_keys': keys},
        'all_checks_alarming': alarming,
    }
    json.dump(meta, open(os.path.join(out, 'meta.json'), 'w'), indent=1)
    print(sid, 'exit', p.returncode, keys[:3], 'alarming', alarming)
assert subprocess.run(['git', '-C', '/repo', 'status', '--porcelain'], stdout=subprocess.PIPE).stdout.strip() == b'', '/repo not clean afterwards'
