#!/usr/bin/env python3
"""tools/matrix.py <seed-root> [ids...] : run every check against every seeded mutant (scratch copies of /repo + patch).
Prints a matrix: which properties alarm on which mutant; writes /tmp/matrix.json."""
import concurrent.futures as cf, glob, json, os, shutil, subprocess, sys, tempfile
root = sys.argv[1]
only = sys.argv[2:]
PIDS = os.environ.get('PIDS', '').split() or ['C%02d' % i for i in range(1, 21)]      # PIDS="C08 C09" restricts the checks run
muts = []
for d in sorted(glob.glob(os.path.join(root, '*', '*'))):
    if os.path.exists(os.path.join(d, 'patch.diff')):
        name = '/'.join(d.split('/')[-2:])
        if not only or any(name.startswith(o) for o in only):
            muts.append((name, os.path.join(d, 'patch.diff')))

def prep(patch):
    d = tempfile.mkdtemp(prefix='mx_')
    s = os.path.join(d, 'src')
    os.makedirs(s + '/cadence'); os.makedirs(s + '/cadence-macros')
    for f in ('Cargo.toml', 'Cargo.lock'):
        shutil.copy('/repo/' + f, s)
    for c in ('cadence', 'cadence-macros'):
        shutil.copy('/repo/%s/Cargo.toml' % c, s + '/' + c)
        shutil.copytree('/repo/%s/src' % c, s + '/%s/src' % c)
    p = subprocess.run(['patch', '-p1', '-s', '--no-backup-if-mismatch', '-i', patch], cwd=s, stdout=subprocess.PIPE, stderr=subprocess.STDOUT)
    if p.returncode:
        raise RuntimeError('patch failed ' + patch + p.stdout.decode())
    return d, s

def run(args):
    name, s, pid = args
    try:
        p = subprocess.run(['./check', pid, '--src', s, '--no-controls', '--no-evidence'], cwd='/verif', stdout=subprocess.PIPE, stderr=subprocess.STDOUT, timeout=240)
    except subprocess.TimeoutExpired:
        return name, pid, 3, ['TIMEOUT']
    out = p.stdout.decode()
    keys = [l.strip().split(' [')[0].split(' ', 1)[-1] for l in out.splitlines() if '] ' in l and l.startswith('  ') and '[ok]' not in l]
    return name, pid, p.returncode, keys[:3]

res = {}
dirs = []
jobs = []
for name, patch in muts:
    d, s = prep(patch)
    dirs.append(d)
    for pid in PIDS:
        jobs.append((name, s, pid))
with cf.ThreadPoolExecutor(max_workers=14) as ex:
    for name, pid, rc, keys in ex.map(run, jobs):
        res.setdefault(name, {})[pid] = (rc, keys)
for d in dirs:
    shutil.rmtree(d, ignore_errors=True)
json.dump(res, open(os.environ.get('MATRIX_OUT', '/tmp/matrix.json'), 'w'), indent=1)
print('%-8s %s' % ('mutant', ' '.join(p[1:] for p in PIDS)))
for name in sorted(res):
    row = ''
    for pid in PIDS:
        rc = res[name][pid][0]
        row += ' %s ' % {0: '.', 1: 'X', 2: 'B', 3: 'T'}.get(rc, '?')
    own = name.split('/')[0]
    tail = ('own:%s' % {0: 'MISSED', 1: 'caught', 2: 'BROKEN'}.get(res[name][own][0])) if own in res[name] else ('alarms:%d' % sum(1 for q in PIDS if res[name][q][0] != 0))
    print('%-8s%s   %s' % (name, row, tail))
