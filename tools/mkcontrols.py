#!/usr/bin/env python3
"""Generate controls/*.patch + controls/controls.json from textual edits against controls/base (each must apply exactly once)."""
import json, os, shutil, subprocess, sys, tempfile
V = os.path.dirname(os.path.dirname(os.path.abspath(__file__)))
BASE = os.path.join(V, 'controls', 'base')
C = []
def ctl(cid, desc, edits, expects, quick=False):
    C.append(dict(id=cid, desc=desc, edits=edits, expects=expects, quick=quick))

B = 'cadence/src/builder.rs'; CL = 'cadence/src/client.rs'; IO = 'cadence/src/io.rs'; Q = 'cadence/src/sinks/queuing.rs'
UDP = 'cadence/src/sinks/udp.rs'; UNX = 'cadence/src/sinks/unix.rs'; CORE = 'cadence/src/sinks/core.rs'; SPY = 'cadence/src/sinks/spy.rs'
ST = 'cadence-macros/src/state.rs'; MAC = 'cadence-macros/src/macros.rs'

ctl('c01_swap_sections', 'container id written after the timestamp', [(B, "        self.write_container_id(&mut metric_string);\n        self.write_timestamp(&mut metric_string);", "        self.write_timestamp(&mut metric_string);\n        self.write_container_id(&mut metric_string);")], {'C01': ['R1/format/grammar']}, True)
ctl('c01_container_literal', '"|c" instead of "|c:"', [(B, 'write!(out, "|c:{}", container_id)', 'write!(out, "|c{}", container_id)')], {'C01': ['R1/format/grammar']})
ctl('c01_trim_matches', 'prefix trimmed on both ends', [(CL, "prefix.trim_end_matches('.')", "prefix.trim_matches('.')")], {'C01': ['R6/prefix-normalisation']}, True)
ctl('c01_wrong_ctor', 'distribution built with the histogram formatter', [(CL, "MetricFormatter::distribution(&self.prefix, key, v)", "MetricFormatter::histogram(&self.prefix, key, v)")], {'C01': ['R4/distribution_with_tags/kind-wiring']})
ctl('c01_sep_first', 'tag separator guard i > 1', [(B, "                if i > 0 {\n                    out.push(',');", "                if i > 1 {\n                    out.push(',');")], {'C01': ['R2/tags/separator-iff-not-first']})
ctl('c01_empty_list_accepted', 'emptiness guard removed (reverts fix c1fad31)', [(B, "        if formatter.val.count() == 0 {", "        if false {")], {'C01': ['R7/'], 'C03': ['R5b/']}, False)
ctl('c02_i32_unsigned', 'i32 sent as Unsigned(self as u64)', [(CL, "impl ToCounterValue for i32 {\n    fn try_to_value(self) -> MetricResult<MetricValue> {\n        Ok(MetricValue::Signed(self.into()))", "impl ToCounterValue for i32 {\n    fn try_to_value(self) -> MetricResult<MetricValue> {\n        Ok(MetricValue::Unsigned(self as u64))")], {'C02': ['R1/ToCounterValue for i32']}, True)
ctl('c02_ge_guard', '>= in the Duration guard', [(CL, "        let as_millis = self.as_millis();\n        if as_millis > u64::MAX as u128 {", "        let as_millis = self.as_millis();\n        if as_millis >= u64::MAX as u128 {")], {'C02': ['R3/ToTimerValue for Duration']}, True)
ctl('c02_micros', 'histogram Vec<Duration> converted with as_micros', [(CL, "self.iter().map(|x| x.as_nanos() as u64).collect()", "self.iter().map(|x| x.as_micros() as u64).collect()")], {'C02': ['R2/ToHistogramValue for Vec<Duration>']})
ctl('c02_rate_precision', 'sampling rate printed with {:.6}', [(B, 'write!(out, "|@{}", rate)', 'write!(out, "|@{:.6}", rate)')], {'C02': ['R4f/format/output-site'], 'C01': ['R1/format/grammar']})
ctl('c03_double_send', 'try_send sends twice', [(B, "                client.send_metric(&metric)?;\n", "                client.send_metric(&metric)?;\n                client.send_metric(&metric)?;\n")], {'C03': ['R1/try_send/one-format-one-send']}, True)
ctl('c03_swallow_emit_error', 'send_metric ignores the emit result', [(CL, "        self.sink.emit(metric_string)?;\n        Ok(())", "        let _ = self.sink.emit(metric_string);\n        Ok(())")], {'C03': ['R2/send_metric/result-tells-the-truth']}, True)
ctl('c03_handler_on_success', 'handler also invoked on success', [(B, "                if let Err(e) = self.try_send() {\n                    client.consume_error(e);\n                }", "                match self.try_send() {\n                    Err(e) => client.consume_error(e),\n                    Ok(_) => client.consume_error(MetricError::from((ErrorKind::InvalidInput, \"ok\"))),\n                }")], {'C03': ['R4/send/handler-exactly-once-on-failure']})
ctl('c04_gauge_no_container', 'gauge loses the default container id', [(CL, "MetricFormatter::gauge(&self.prefix, key, v), self)\n                .with_tags(self.tags())\n                .with_container_id_opt(self.container_id.as_deref()),", "MetricFormatter::gauge(&self.prefix, key, v), self)\n                .with_tags(self.tags()),")], {'C04': ['R1/gauge_with_tags/default-tags-and-container-id-applied']}, True)
ctl('c04_decr_plus', 'decr counts +1', [(CL, "        self.count_with_tags(key, -1)", "        self.count_with_tags(key, 1)")], {'C04': ['R4/decr_with_tags']}, True)
ctl('c04_tags_rev', 'default tags iterated in reverse', [(CL, "self.tags.iter().map(|(k, v)| (k.as_deref(), v.as_str()))", "self.tags.iter().rev().map(|(k, v)| (k.as_deref(), v.as_str()))")], {'C04': ['R2/']})
ctl('c05_bypass_ge', 'bypass guard required >= capacity', [(IO, "        if required > self.capacity {", "        if required >= self.capacity {")], {'C05': ['M1/'], 'C06': ['M1/'], 'C12': ['M1/']}, True)
ctl('c05_half_bufwriter', 'BufWriter half the capacity', [(IO, "inner: BufWriter::with_capacity(cap, inner),", "inner: BufWriter::with_capacity(cap / 2, inner),")], {'C05': ['M9/bufwriter-capacity-is-cap'], 'C06': ['M9/'], 'C13': ['M9/'], 'C19': ['M9/']}, True)
ctl('c05_adapter_half', 'UDP adapter sends half the buffer', [(UDP, "self.stats.update(self.socket.send_to(buf, self.addr), buf.len())", "self.stats.update(self.socket.send_to(&buf[..buf.len() / 2], self.addr), buf.len())")], {'C05': ['A1/UdpWriteAdapter/sends-whole-buffer'], 'C13': ['R3-A1/UdpWriteAdapter/sends-whole-buffer']})
ctl('c05_default_256', 'default buffer 256', [(UNX, "const DEFAULT_BUFFER_SIZE: usize = 512;", "const DEFAULT_BUFFER_SIZE: usize = 256;")], {'C05': ['A2/BufferedUnixMetricSink::from/capacity']})
ctl('c06_no_flush_override', 'BufferedUdpMetricSink loses its flush override', [(UDP, "    fn flush(&self) -> io::Result<()> {\n        let mut writer = self.buffer.lock().unwrap();\n        writer.flush()\n    }\n\n    fn stats(&self) -> SinkStats {\n        (&self.stats).into()\n    }\n}\n\n#[cfg(test)]", "    fn stats(&self) -> SinkStats {\n        (&self.stats).into()\n    }\n}\n\n#[cfg(test)]")], {'C06': ['D1/BufferedUdpMetricSink::flush/overrides-flush'], 'C12': ['R1/BufferedUdpMetricSink::flush/overrides-flush'], 'C13': ['R3-D1/BufferedUdpMetricSink::flush/overrides-flush']}, True)
ctl('c06_sum_returned', 'write returns write1 + write2', [(IO, "            Ok(write1)\n", "            Ok(write1 + write2)\n")], {'C06': ['M6/returns-metric-byte-count']}, True)
ctl('c07_reset_first', 'written = 0 before the inner flush', [(IO, "        self.inner.flush()?;\n        self.written = 0;\n        Ok(())", "        self.written = 0;\n        self.inner.flush()?;\n        Ok(())")], {'C07': ['M8/no-reset-before-or-on-failure'], 'C05': ['M8/'], 'C06': ['M8/'], 'C19': ['M8/'], 'C13': ['M8/']}, True)
ctl('c07_count_before', 'written counted before the write result is examined', [(IO, "            let write1 = self.inner.write(buf)?;\n            self.written += write1;", "            self.written += buf.len();\n            let write1 = self.inner.write(buf)?;")], {'C07': ['M5/'], 'C05': ['M5/']}, True)
ctl('c08_handle_drop_stops', 'Drop for QueuingMetricSink calls stop (reverts fix 80b00c6 in effect)', [(Q, "/// Guard shared by every clone of a `QueuingMetricSink`.", "impl Drop for QueuingMetricSink {\n    fn drop(&mut self) {\n        self.worker.stop();\n    }\n}\n\n/// Guard shared by every clone of a `QueuingMetricSink`.")], {'C08': ['R5/QueuingMetricSink'], 'C09': ['R5h/QueuingMetricSink']}, True)
ctl('c08_submit_twice', 'emit enqueues twice', [(Q, "        let res = self.sender.try_send(Some(v));\n", "        let _ = self.sender.try_send(Some(v.clone()));\n        let res = self.sender.try_send(Some(v));\n")], {'C08': ['R1/emit/enqueues-exactly-once']}, True)
ctl('c09_marker_ignored', 'let _ = try_send(None) (reverts fix 4d9e5da in effect)', [(Q, "        if self.sender.try_send(None).is_err() {\n            // The queue is full: make the request stick, then try again in\n            // case the queue was drained in the meantime.\n            self.stop_requested.store(true, Ordering::SeqCst);\n            let _ = self.sender.try_send(None);\n        }", "        let _ = self.sender.try_send(None);")], {'C09': ['R1/Worker::stop/try_send-result-ignored']}, True)
ctl('c09_flag_after_recv', 'flag tested after the receive', [(Q, "            if self.stop_requested.load(Ordering::SeqCst) && self.receiver.is_empty() {\n                break;\n            }\n\n            match self.receiver.recv() {\n                Ok(Some(v)) => {\n                    self.stats.incr_drained();\n                    (self.task)(v);\n                }\n                _ => break,\n            }", "            match self.receiver.recv() {\n                Ok(Some(v)) => {\n                    self.stats.incr_drained();\n                    (self.task)(v);\n                }\n                _ => break,\n            }\n            if self.stop_requested.load(Ordering::SeqCst) && self.receiver.is_empty() {\n                break;\n            }")], {'C09': ['R1b/run/flag-checked-before-blocking'], 'C11': ['R1b/run/flag-checked-before-blocking']}, True)
ctl('c09_flag_without_drain', 'flag ends the loop without is_empty', [(Q, "if self.stop_requested.load(Ordering::SeqCst) && self.receiver.is_empty() {", "if self.stop_requested.load(Ordering::SeqCst) {")], {'C09': ['R3/run/flag-exit-only-when-drained']})
ctl('c10_blocking_send', 'submit uses send()', [(Q, "        let res = self.sender.try_send(Some(v));\n        if res.is_ok() {\n            self.stats.incr_submitted();\n        }\n\n        res", "        let res = self.sender.send(Some(v)).map_err(|e| TrySendError::Disconnected(e.0));\n        if res.is_ok() {\n            self.stats.incr_submitted();\n        }\n\n        res")], {'C10': ['R1/emit-isolated', 'R2/emit/non-blocking-send']}, True)
ctl('c10_fallback_emit', 'emit falls back to the wrapped sink when full', [(Q, 'Err(TrySendError::Full(_)) => Err(io::Error::new(ErrorKind::Other, "channel full")),', "Err(TrySendError::Full(_)) => self.sink.emit(metric),")], {'C10': ['R1/emit-isolated']}, True)
ctl('c11_cancel_first', 'cancel() before run()', [(Q, "        worker.run();\n        sentinel.cancel();", "        sentinel.cancel();\n        worker.run();")], {'C11': ['R1/cancel-only-after-normal-return']}, True)
ctl('c11_no_count', 'respawn without counting the panic', [(Q, "            self.worker.stats.incr_panic();\n            spawn_worker_in_thread", "            spawn_worker_in_thread")], {'C11': ['R2/sentinel-drop/respawn-and-count-iff-armed']}, True)
ctl('c12_try_lock', 'buffered spy emit uses try_lock with Ok(0) fallback', [(SPY, "        let mut writer = self.writer.lock().unwrap();\n        writer.write(metric.as_bytes())", "        match self.writer.try_lock() {\n            Ok(mut writer) => writer.write(metric.as_bytes()),\n            Err(_) => Ok(0),\n        }")], {'C12': ['R1/BufferedSpyMetricSink::emit/one-blocking-lock']}, True)
ctl('c13_last_addr', 'get_addr takes the last address', [(UDP, "match addr.to_socket_addrs()?.next() {", "match addr.to_socket_addrs()?.last() {")], {'C13': ['R2/first-address']}, True)
ctl('c13_trim', 'UDP emit sends the trimmed metric', [(UDP, "            .update(self.socket.send_to(metric.as_bytes(), self.addr), metric.len())", "            .update(self.socket.send_to(metric.trim().as_bytes(), self.addr), metric.len())")], {'C13': ['R1/UdpMetricSink/payload-is-the-metric-bytes']}, True)
ctl('c14_len_zero', 'Unix emit reports size 0 to update', [(UNX, "            self.socket.send_to(metric.as_bytes(), self.path.as_path()),\n            metric.len(),", "            self.socket.send_to(metric.as_bytes(), self.path.as_path()),\n            0,")], {'C14': ['R1/<unix::UnixMetricSink as core::MetricSink>::emit/dropped-size-is-the-datagram-size']}, True)
ctl('c14_fresh_stats', 'UDP adapter gets fresh SocketStats', [(UDP, "UdpWriteAdapter::new(addr, socket, stats.clone()),", "UdpWriteAdapter::new(addr, socket, SocketStats::default()),")], {'C14': ['R3/BufferedUdpMetricSink::']}, True)
ctl('c14_swapped_incr', 'dropped bytes counted as sent', [(CORE, "                self.incr_bytes_dropped(len as u64);", "                self.incr_bytes_sent(len as u64);")], {'C14': ['R2/update/dropped-side']})
ctl('c15_always_submitted', 'submitted incremented unconditionally', [(Q, "        if res.is_ok() {\n            self.stats.incr_submitted();\n        }", "        self.stats.incr_submitted();")], {'C15': ['C15-R1/submitted-iff-accepted']}, True)
ctl('c15_unguarded_sub', 'queued = submitted - drained unguarded', [(Q, "        if submitted > drained {\n            submitted - drained\n        } else {\n            0\n        }", "        submitted - drained")], {'C15': ['C15-R4/queued-never-wraps'], 'C20': ['SITE/sinks::queuing::WorkerStats::queued']}, True)
ctl('c16_handler_on_ok', 'handler also on Ok', [(Q, "            if let Err(e) = sink_c.emit(&v) {\n                if let Some(error_handler) = &self.error_handler {\n                    error_handler(e);\n                }\n            }", "            let r = sink_c.emit(&v);\n            if let Some(error_handler) = &self.error_handler {\n                match r {\n                    Err(e) => error_handler(e),\n                    Ok(_) => error_handler(io::Error::new(ErrorKind::Other, \"ok\")),\n                }\n            }")], {'C16': ['C16-R1/handler-once-per-failure']}, True)
ctl('c16_handler_dropped', 'with_error_handler drops the handler', [(Q, "        self.error_handler = Some(Box::new(error_handler));\n        self", "        let _ = error_handler;\n        self")], {'C16': ['R2/QueuingMetricSinkBuilder::with_error_handler']}, True)
ctl('c17_try_send_unwrap', 'macro uses try_send().unwrap()', [(MAC, "        builder.send()", "        builder.try_send().unwrap();")], {'C17': ['W1/']}, True)
ctl('c17_val_twice', 'macro evaluates $val twice', [(MAC, "        let builder = client.$method($key, $val);", "        let _ = $val;\n        let builder = client.$method($key, $val);")], {'C17': ['W1/']}, True)
ctl('c18_relaxed_store', 'COMPLETE published with Relaxed', [(ST, "self.state.store(COMPLETE, Ordering::Release);", "self.state.store(COMPLETE, Ordering::Relaxed);")], {'C18': ['R2/set/release-publish-after-write']}, True)
ctl('c18_relaxed_load', 'is_set loads with Relaxed', [(ST, "COMPLETE == self.state.load(Ordering::Acquire)", "COMPLETE == self.state.load(Ordering::Relaxed)")], {'C18': ['R3/get/acquire-before-read']}, True)
ctl('c18_cas_complete', 'CAS goes UNSET -> COMPLETE', [(ST, ".compare_exchange(UNSET, LOADING, Ordering::AcqRel, Ordering::Relaxed)", ".compare_exchange(UNSET, COMPLETE, Ordering::AcqRel, Ordering::Relaxed)")], {'C18': ['R1/set/cas-from-initial-to-private-state']})
ctl('c18_sync_unbounded', 'unsafe impl Sync without T: Sync', [(ST, "unsafe impl<T: Sync> Sync for SingletonHolder<T> {}", "unsafe impl<T> Sync for SingletonHolder<T> {}")], {'C18': ['R5/']})
ctl('c19_le', 'left <= required', [(IO, "            if left < required {", "            if left <= required {")], {'C19': ['M2/flush-only-when-needed']}, True)
ctl('c19_always_flush', 'unconditional flush before buffering', [(IO, "            if left < required {\n                self.flush()?;\n            }", "            self.flush()?;")], {'C19': ['M2/flush-only-when-needed']}, True)
ctl('c20_unwrap_emit', 'send_metric unwraps the emit result', [(CL, "        self.sink.emit(metric_string)?;\n        Ok(())", "        self.sink.emit(metric_string).unwrap();\n        Ok(())")], {'C20': ['SITE/<client::StatsdClient as client::MetricBackend>::send_metric/call:core::result::Result::unwrap'], 'C03': ['R2/send_metric/result-tells-the-truth']}, True)
ctl('c20_index_tags', 'write_tags indexes tags[0]', [(B, "            out.push_str(Self::TAG_PREFIX);\n", "            out.push_str(Self::TAG_PREFIX);\n            let _first = self.tags[0];\n")], {'C20': ['SITE/builder::MetricFormatter::write_tags/call:']}, True)

os.makedirs(os.path.join(V, 'controls'), exist_ok=True)
out = []
bad = 0
for c in C:
    d = tempfile.mkdtemp(prefix='mkctl_')
    a, b = os.path.join(d, 'a'), os.path.join(d, 'b')
    shutil.copytree(BASE, a); shutil.copytree(BASE, b)
    okc = True
    for f, old, new in c['edits']:
        p = os.path.join(b, f)
        t = open(p).read()
        if t.count(old) != 1:
            print('!! %s: pattern occurs %d times in %s' % (c['id'], t.count(old), f)); okc = False; continue
        open(p, 'w').write(t.replace(old, new))
    if not okc:
        bad += 1
        shutil.rmtree(d); continue
    p = subprocess.run(['diff', '-ruN', 'a', 'b'], cwd=d, stdout=subprocess.PIPE)
    open(os.path.join(V, 'controls', c['id'] + '.patch'), 'wb').write(p.stdout)
    out.append({'id': c['id'], 'desc': c['desc'], 'patch': c['id'] + '.patch', 'expects': c['expects'], 'quick': c['quick']})
    shutil.rmtree(d)
json.dump(out, open(os.path.join(V, 'controls', 'controls.json'), 'w'), indent=1)
print('%d controls written, %d failed' % (len(out), bad))
