#!/usr/bin/env python3
"""tools/mut_survivors.py <mut-root> <matrix.json> <out.json> <worktree>... : run the repository's test suite on the mutants that no
check alarms on (and that compile); report the ones the suite does not kill either."""
import sys, os, json, subprocess, concurrent.futures as cf, re
root, mx, out = sys.argv[1:4]
wts = sys.argv[4:]
m = json.load(open(mx))
cands = sorted(k for k, v in m.items() if all(x[0] == 0 for x in v.values()))
broken = sorted(k for k, v in m.items() if any(x[0] not in (0, 1) for x in v.values()) and not any(x[0] == 1 for x in v.values()))
print('mutants', len(m), 'uncaught+compiling', len(cands), 'not compiling / broken', len(broken), flush=True)
FILT = re.compile(r'^test .* \.\.\. (ok|FAILED|ignored)')


def suite(wt):
    env = dict(os.environ, TMPDIR=wt + '/tmp', CARGO_NET_OFFLINE='true')
    os.makedirs(wt + '/tmp', exist_ok=True)
    import signal
    pr = subprocess.Popen(['cargo', 'test', '--workspace', '--no-fail-fast', '--offline'], cwd=wt, env=env, stdout=subprocess.PIPE, stderr=subprocess.STDOUT,
                          start_new_session=True)
    try:
        outb, _ = pr.communicate(timeout=900)
    except subprocess.TimeoutExpired:
        # a mutant can make a test spin forever: kill the whole process group, test binaries included
        os.killpg(pr.pid, signal.SIGKILL)
        pr.communicate()
        return None
    ls = []
    for l in outb.decode(errors='replace').splitlines():
        if FILT.match(l):
            l = re.sub(r' - [^ ]+ \(line [0-9]+\)', '', l)
            l = re.sub(r'\(line [0-9]+\)', '', l)
            ls.append(l)
    return sorted(ls)


def clean(wt):
    subprocess.run(['git', 'checkout', '-q', '--', '.'], cwd=wt)
    subprocess.run(['git', 'clean', '-fdq', '-e', 'target', '-e', 'tmp'], cwd=wt)


def worker(args):
    wt, items = args
    clean(wt)
    base = suite(wt)
    res = {}
    for k in items:
        clean(wt)
        patch = os.path.join(root, k, 'patch.diff')
        p = subprocess.run(['git', 'apply', '-p1', patch], cwd=wt, stdout=subprocess.PIPE, stderr=subprocess.STDOUT)
        if p.returncode:
            res[k] = 'apply-failed'
            continue
        s = suite(wt)
        if s is None:
            res[k] = 'timeout'
        elif s == base:
            res[k] = 'SURVIVES'
        else:
            diff = [x for x in s if x not in base][:3]
            res[k] = 'killed: ' + '; '.join(diff)[:200]
        print(k, res[k][:80], flush=True)
    clean(wt)
    return res

chunks = [(wts[i], cands[i::len(wts)]) for i in range(len(wts))]
allres = {}
with cf.ThreadPoolExecutor(max_workers=len(wts)) as ex:
    for r in ex.map(worker, chunks):
        allres.update(r)
json.dump({'results': allres, 'not_compiling': broken}, open(out, 'w'), indent=1)
print('survivors', sum(1 for v in allres.values() if v == 'SURVIVES'))
