import json,glob,os,re
P8=open('/tmp/seed_in/PROMPT8.txt').read()
i=P8.index('(this is the EIGHTH round')
j=P8.index('library source (files under cadence/src')
new_round = ("(this is the ELEVENTH round: twenty changes per property exist already, see the list at the end of PROPFILE - do not repeat their "
 "mechanisms or sites. This round is MUTATION-STYLE ONLY: BOTH m1 and m2 must be ONE-TOKEN or ONE-LINE edits (at most 3 changed lines each), the "
 "kind an automatic mutation tool or a slip of the hand produces: a comparison operator (`<`/`<=`/`>`/`>=`/`==`/`!=`), `&&` vs `||`, `+`/`-` 1, a "
 "constant or literal (a separator character, a type code, a size, an index, a capacity, a default), two same-typed arguments or fields swapped, the "
 "wrong one of two similarly named fields/variables/constants/functions/enum variants, a wrong atomic `Ordering`, `Ok`<->`Err` or `Some`<->`None` in "
 "one arm, a negated condition, a dropped or duplicated statement/call (`flush`, `incr_*`, `push`, `store`, `?`), `clone()` of the wrong handle, "
 "`iter()` vs `iter().rev()`/`skip(1)`, `take`/`replace` mixed up, `as u64` vs `as u32`, a removed `mut`/`&`/`*`. Go through the functions the property "
 "depends on LINE BY LINE and pick lines that none of the listed changes touched; prefer the less obvious functions (constructors, `From`/`Display`/`Debug`/"
 "`Drop` impls, trait default methods, helper fns, the macros, size hints, statistics getters). The mutant must survive the existing test suite) of the\n")
P10=P8[:i]+new_round+P8[j:]
P10=P10.replace("is small (a few lines), and","is at most 3 changed lines, and")
open('/tmp/seed_in/PROMPT11.txt','w').write(P10)
roots=['/tmp/seed_out']+['/tmp/seed%d_out'%n for n in range(2,11)]
for k in range(1,21):
    pid='C%02d'%k
    base=open('/tmp/seed_in/%s.txt'%pid).read()
    lst=[]
    for r in roots:
        for m in ('m1','m2'):
            f=os.path.join(r,pid,m,'meta.json')
            if os.path.exists(f):
                try: s=json.load(open(f))['summary']
                except Exception: continue
                lst.append('- '+' '.join(s.split())[:260])
    txt=base.rstrip()+"\n\nChanges already proposed by others for this property (do NOT repeat these or close variants of them; attack a different mechanism, code site or clause of the statement):\n"+'\n'.join(lst)+'\n'
    open('/tmp/seed_in/%s_r11.txt'%pid,'w').write(txt)
    pr=P10.replace('WORKTREE','/tmp/seed_wt_%s'%pid).replace('OUTDIR','/tmp/seed11_out/%s'%pid).replace('PROPFILE','/tmp/seed_in/%s_r11.txt'%pid)
    pr+="\nMake sure no test process of yours is left running when you finish (check with ps and kill leftovers). Do not write any file named base_suite.txt, confirm.json or mut_suite.txt into your output directory (those names are reserved). Keep your messages short.\n"
    open('/tmp/seed_in/R11_%s.txt'%pid,'w').write(pr)
    os.makedirs('/tmp/seed11_out/%s'%pid,exist_ok=True)
print('ok')
