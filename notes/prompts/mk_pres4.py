import json,glob
foci = [
"CLIPPY-STYLE CLEANUPS as a maintainer would do them in one sweep: needless borrows/returns/lifetimes, `map_or`/`is_some_and`, `if let Some(x) = opt { .. }` vs `opt.map(..)`, manual `impl Default` vs derive, redundant clones, `iter().any()` vs loops, `&*x`/`as_deref`, inline format args (`{x}`), `Self` instead of type names, field init shorthand, `matches!`, collapsing nested ifs, `unwrap_or_default`",
"IDIOM MODERNISATION to newer Rust: let-else, `if let ... else`, inline format arguments, `Option::zip`/`then_some`/`is_some_and`, `std::mem::take`, const fns / associated consts, `impl Trait` in argument position where generic parameters were used only once, `core::array`/slice patterns, `Iterator::try_for_each`, `OnceLock`-free changes only (do not replace the hand-written global holder)",
"CORRECT MICRO-OPTIMISATIONS that do not change behaviour: `String::with_capacity`/`reserve` using the existing size hints, avoiding an intermediate `Vec`/`String`/clone, borrowing instead of cloning, `extend` instead of repeated `push`, hoisting a `len()` or a field read into a local, `#[inline]`, passing `&str` instead of `String` internally, reusing an existing private helper - each one provably equivalent (same bytes, same number and order of sink/socket calls, same errors)",
"GENERIC-IFICATION AND SIGNATURE POLISH of PRIVATE/crate-private functions (public API unchanged): `&str` -> `impl AsRef<str>` on private helpers, `Into<String>` parameters, iterator-taking helpers instead of slice-taking ones, turning a private free function into an associated function or a method (and vice versa), adding/removing `&self` from private helpers that do not use it, reordering private function parameters, returning `impl Iterator` from a private helper",
"MODULE REORGANISATION with behaviour unchanged: move private items between files/modules (e.g. the Write adapters into their own private module, WriterMetrics out of io.rs, SocketStats helpers), split a long function into two private ones along a natural seam, merge two tiny private helpers, change `pub(crate)`/private visibility where nothing outside needs it, rename private modules keeping the public re-exports, reorder items/impl blocks in a file",
"DEFENSIVE BUT BEHAVIOUR-PRESERVING EDITS: replacing arithmetic by `saturating_*`/`checked_*` with an `unwrap_or` that can provably never be taken (explain), `min`/`max`/`clamp` no-ops, stronger atomic orderings, adding `#[must_use]`, explicit `drop(..)` at the point where the value died anyway, explicit type annotations/turbofish, exhaustive `match` instead of `_` arms, replacing `unwrap()` on a lock by `expect(\"..\")`, replacing wildcard `_ =>` by the listed remaining variants - do NOT add assert!/debug_assert!",
]
base=open('/tmp/seed_in/PROMPT_PRES.txt').read()
lst=[]
for f in sorted(glob.glob('/tmp/pres_out/P*/p*/meta.json'))+sorted(glob.glob('/tmp/pres2_out/Q*/p*/meta.json'))+sorted(glob.glob('/tmp/pres3_out/S*/p*/meta.json')):
    lst.append('- '+json.load(open(f))['summary'][:240])
base=base.replace("Produce FOUR independent changes p1..p4","Produce FOUR independent changes p1..p4 (this is the FOURTH round: 72 changes exist already, listed at the end - do not repeat them. Your focus is a KIND of maintenance commit, applied wherever in the code base it fits; spread your four changes over DIFFERENT files/components (formatter+client, line writer+buffered sinks, queuing sink, socket sinks+stats, macros+global holder) and make each one touch at least one function that the properties talk about; do NOT add `debug_assert!`/`assert!` statements)")
base=base.replace("/tmp/pres_out","/tmp/pres4_out")
base+="\n\nChanges already produced in earlier rounds (do NOT repeat them):\n"+'\n'.join(lst)+"\n"
for i,f in enumerate(foci):
    t=base.replace('WORKTREE','/tmp/refac_wt_%d'%(9+i)).replace('OUTDIR','/tmp/pres4_out/T%d'%(i+1)).replace('FOCUS',f)
    open('/tmp/seed_in/PRES4_%d.txt'%(i+1),'w').write(t)
print('ok')
