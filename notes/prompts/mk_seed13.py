import json,glob,os,re
P=open('/verif/notes/prompts/PROMPT11.txt').read()
i=P.index('(this is the ELEVENTH round')
j=P.index('library source (files under cadence/src')
new_round = ("(this is the THIRTEENTH round: twenty-four changes per property exist already, see the list at the end of PROPFILE - do not repeat their "
 "mechanisms or sites. This round is about DECLARATIONS AND THE LESS-TRAVELLED FILES. m1 must arrive through a changed DECLARATION rather than a changed "
 "statement: the type of a field, parameter, local or return value (width, signedness, the atomic type, `usize` vs `u64`, `Option<T>` vs `T`), the initial "
 "value in a constructor / `Default` / `static` initialiser, a `#[derive(..)]` added or removed (`Clone`, `Copy`, `Default`), a trait bound or generic "
 "parameter, which trait impl exists for a wrapper (`impl Trait for Arc<T>` / `Box<T>` / `&T` forwarding one method fewer so that the trait's default "
 "takes over), the kind of lock / channel / cell / smart pointer used (Mutex vs RwLock, bounded vs unbounded vs zero-capacity, Arc vs Box vs a fresh "
 "value), a `const` whose value or type changes, a closure changed from `move` to borrowing or capturing a clone instead of the original, a shadowed "
 "binding, an `impl Drop` added/removed, a lifetime of a guard (a temporary dropped at the end of the statement instead of the end of the block, `let _ =` "
 "vs `let _g =`). m2 is free in style but must sit in code the earlier changes hardly touched: cadence/src/types.rs (error kinds, `From` impls, `Display`), "
 "cadence/src/sinks/core.rs (SinkStats, the forwarding impls), cadence/src/sinks/spy.rs, cadence/src/sinks/mod.rs, cadence/src/ext.rs, cadence/src/lib.rs, "
 "cadence-macros/src/lib.rs and state.rs, the `Default`/`Debug`/`Clone`/`From` impls and constructors in the other files - or be an interaction between TWO "
 "types (one object's output feeding another) where each looks right alone. Both must survive the existing test suite) of the\n")
P12=P[:i]+new_round+P[j:]
P12=P12.replace("is at most 3 changed lines, and","is small (up to about 15 changed lines), and")
open('/verif/notes/prompts/PROMPT13.txt','w').write(P12)
props=[json.loads(l) for l in open('/verif/properties.jsonl')]
for d in props:
    pid=d['id']
    base="Property %s: %s\n\nStatement: %s\n\nQuantifier (%s): %s\n\nWhy the existing tests cannot settle it: %s\n\nAnchors (where the property lives in the code): %s\n" % (
        pid,d['title'],d['statement'],', '.join(d['quantifier']['over']),d['quantifier']['text'],d['why_tests_cant'],json.dumps(d['anchors'],indent=1))
    lst=[]
    for f in sorted(glob.glob('/verif/seeded/%s-*/meta.json'%pid)):
        try: s=json.load(open(f))['summary']
        except Exception: continue
        lst.append('- '+' '.join(s.split())[:260])
    txt=base.rstrip()+"\n\nChanges already proposed by others for this property (do NOT repeat these or close variants of them; attack a different mechanism, code site or clause of the statement):\n"+'\n'.join(lst)+'\n'
    open('/tmp/seed_in/%s_r13.txt'%pid,'w').write(txt)
    pr=P12.replace('WORKTREE','/tmp/seed_wt_%s'%pid).replace('OUTDIR','/tmp/seed13_out/%s'%pid).replace('PROPFILE','/tmp/seed_in/%s_r13.txt'%pid)
    pr+="\nMake sure no test process of yours is left running when you finish (check with ps and kill leftovers). Do not write any file named base_suite.txt, confirm.json or mut_suite.txt into your output directory (those names are reserved). Keep your messages short. You have about 12 minutes: deliver what you have confirmed by then.\n"
    open('/tmp/seed_in/R13_%s.txt'%pid,'w').write(pr)
    os.makedirs('/tmp/seed13_out/%s'%pid,exist_ok=True)
print('ok')
