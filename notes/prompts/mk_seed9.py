import json,glob,os,re
P8=open('/tmp/seed_in/PROMPT8.txt').read()
# replace the round-specific parenthesis
i=P8.index('(this is the EIGHTH round')
j=P8.index('library source (files under cadence/src')
# find the end of the parenthesis: text up to j belongs to the round-specific part
new_round = ("(this is the NINTH round: sixteen changes per property exist already, see the list at the end of PROPFILE - do not repeat their "
 "mechanisms or sites. This round is about MINIMAL edits in places nobody has looked at yet. m1 must be a ONE-TOKEN or ONE-LINE change of the kind "
 "mutation testing and tired maintainers produce: two same-typed arguments or struct fields swapped, the wrong one of two similarly named "
 "variables/constants/fields used, `<` vs `<=`, `&&` vs `||`, an off-by-one in an index/length/capacity, a wrong atomic ordering or a wrong "
 "counter, `Ok`/`Err` arms or `Some`/`None` arms with swapped bodies in a rarely taken branch, a dropped `?`/`!`/`mut`, a removed or duplicated call, "
 "`clone()` of the wrong handle, a constant changed - in a function or on a line that the earlier changes in the list did NOT touch. m2 must consist of "
 "TWO COOPERATING EDITS in two different functions (preferably different files/types), each of which looks harmless and is even correct on its own, "
 "that break the property only together (an assumption one site relies on is quietly weakened at the other: who resets/flushes/locks/counts/validates, "
 "which side owns a conversion or a terminator or an offset, which of two constructors/paths establishes an invariant the other path uses). Keep both small) of the\n")
P9=P8[:i]+new_round+P8[j:]
open('/tmp/seed_in/PROMPT9.txt','w').write(P9)
roots=['/tmp/seed_out']+['/tmp/seed%d_out'%n for n in range(2,9)]
for k in range(1,21):
    pid='C%02d'%k
    base=open('/tmp/seed_in/%s.txt'%pid).read()
    assert 'Changes already proposed' not in base
    lst=[]
    for r in roots:
        for m in ('m1','m2'):
            f=os.path.join(r,pid,m,'meta.json')
            if os.path.exists(f):
                try:
                    s=json.load(open(f))['summary']
                except Exception as e:
                    continue
                lst.append('- '+' '.join(s.split())[:300])
    txt=base.rstrip()+"\n\nChanges already proposed by others for this property (do NOT repeat these or close variants of them; attack a different mechanism, code site or clause of the statement):\n"+'\n'.join(lst)+'\n'
    open('/tmp/seed_in/%s_r9.txt'%pid,'w').write(txt)
    pr=P9.replace('WORKTREE','/tmp/seed_wt_%s'%pid).replace('OUTDIR','/tmp/seed9_out/%s'%pid).replace('PROPFILE','/tmp/seed_in/%s_r9.txt'%pid)
    pr+="\nMake sure no test process of yours is left running when you finish (check with ps and kill leftovers). Do not write any file named base_suite.txt, confirm.json or mut_suite.txt into your output directory (those names are reserved). Keep your messages short.\n"
    open('/tmp/seed_in/R9_%s.txt'%pid,'w').write(pr)
    os.makedirs('/tmp/seed9_out/%s'%pid,exist_ok=True)
    print(pid,len(lst))
