import json,glob
foci = [
"DECLARATION-LEVEL EDITS in the formatter / builder / client / metric types (builder.rs, client.rs, types.rs): change how things are DECLARED while every value stays what it was - a field's type (`String` <-> `Box<str>`, `Vec<(Option<String>, String)>` kept in a small private struct with two named fields, `Option<&str>` <-> `Option<Cow<str>>`), a private nested config struct that groups client fields, a literal hoisted into a named `const` (separators, type codes, the u64 limit written as `u64::MAX as u128` in ONE const), a shadowed binding that keeps the same value, a `#[derive(..)]` added to a private type, a generic bound moved into a where-clause, a closure turned into a private fn, an explicit lifetime named",
"DECLARATION-LEVEL EDITS in the line writer and the buffered sinks (io.rs, sinks/udp.rs, sinks/unix.rs, sinks/spy.rs): change how things are DECLARED while behaviour stays identical - the writer's private statistics counters `u64` <-> `usize`/`u128` (NOT narrower), `line_ending: Vec<u8>` <-> `Box<[u8]>`, the `Mutex<MultiLineWriter<..>>` wrapped in a private newtype with a `lock()` helper, a type alias for the long writer type, `DEFAULT_BUFFER_SIZE` moved/shared, a private struct split into two nested structs, `written`/`capacity` grouped in a private `Fill { used, limit }` struct, hand-written `Debug` instead of derive, a shadowed binding that keeps the same value",
"DECLARATION-LEVEL EDITS in the queuing sink (sinks/queuing.rs): change how things are DECLARED while behaviour stays identical - `AtomicU64` counters <-> `AtomicUsize` with lossless `as u64` in the getters (this target is 64-bit) , `Box<dyn Fn(String) ..>` task <-> `Arc<dyn Fn(String) ..>`, the two `AtomicBool`s grouped into a private `Flags` struct, the builder's `capacity: Option<usize>` kept but built through a private enum `QueueKind { Bounded(usize), Unbounded }`, `Sender`/`Receiver` grouped in a private `Channel` struct, `Sentinel` holding an owned `Arc<Worker>` clone instead of a reference, a type alias for the boxed handler type, `#[derive(Debug)]` added/removed on private types",
"DECLARATION-LEVEL EDITS in the socket sinks and statistics (sinks/core.rs, sinks/udp.rs, sinks/unix.rs): change how things are DECLARED while behaviour stays identical - the four `Arc<AtomicU64>` of SocketStats replaced by ONE `Arc<Counters>` with four `AtomicU64` inside (clones still share), `AtomicU64` <-> `AtomicUsize` with lossless casts, hand-written `Clone` that clones every Arc, `SinkStats` built through a private constructor fn, `PathBuf` <-> `Box<Path>`, `SocketAddr` kept in a private newtype, a type alias, a `const` for a literal, `impl From<&SocketStats>` delegating to an inherent `snapshot()` method",
"DECLARATION-LEVEL EDITS in cadence-macros (state.rs, macros.rs, lib.rs): change how things are DECLARED while behaviour stays identical - the state constants as a private `#[repr(usize)] enum` cast with `as usize`, `AtomicUsize` <-> `AtomicU8` for the three-valued state, the `static HOLDER` wrapped in a private struct with one field, `GlobalDefaultNotSet` given extra derives, macro-internal local names changed, a hidden helper fn extracted for `get_global_default().unwrap()` style lookups ONLY if the panic condition stays identical, `const fn new` kept const",
"TRAIT-PLUMBING AND IMPL-BLOCK EDITS anywhere: ADD complete, correct forwarding impls (`impl<T: MetricSink + ?Sized> MetricSink for Box<T>` / `Arc<T>` forwarding emit, flush AND stats), `Default` impls equal to the existing constructors, `From` impls that delegate to existing constructors, a `Drop` impl on a private type that does nothing observable (e.g. only drops a field explicitly), `AsRef`/`Borrow` impls, split one impl block into two, move a private fn from an impl into a free fn (or back), make a private method `pub(crate)`, reorder items in a file, move a private type into a private submodule of the same file",
]
base=open('/verif/notes/prompts/PROMPT_PRES3.txt').read()
base=base[:base.index('Changes already produced in rounds one and two')]
lst=[]
for f in sorted(glob.glob('/verif/refactors/P[P-W]-*/meta.json')):
    try:
        sm=json.load(open(f)).get('summary')
        if isinstance(sm,list): sm='; '.join(sm)
        lst.append('- '+str(sm)[:140])
    except Exception: pass
i=base.index('(this is the THIRD round'); j=base.index('of library source files')
base=base[:i]+"(this is the EIGHTH round: about 170 changes exist already, some listed at the end - do not repeat them. Your focus is a KIND of edit - changes of DECLARATIONS and impl plumbing rather than of statements - applied wherever in your focus area it fits; spread your four changes over DIFFERENT types/functions and make each one touch at least one type or function that the properties talk about; do NOT add `debug_assert!`/`assert!` statements; do NOT narrow any integer/atomic width) "+base[j:]
base+="\nFile names you must NOT create in OUTDIR: base_suite.txt, confirm.json, mut_suite.txt, tests.txt. Keep your messages short; write the files, then reply with a 5-line summary. You have about 15 minutes: deliver what you have confirmed by then (fewer than four is fine).\n"
base+="\n\nChanges already produced in earlier rounds (do NOT repeat them):\n"+'\n'.join(lst[-60:])+"\n"
open('/verif/notes/prompts/PROMPT_PRES8.txt','w').write(base)
props=[json.loads(l) for l in open('/verif/properties.jsonl')]
open('/tmp/seed_in/ALLPROPS.txt','w').write('\n\n'.join('%s: %s\n%s\n(quantifier: %s)'%(d['id'],d['title'],d['statement'],d['quantifier']['text']) for d in props))
import os
for i,f in enumerate(foci):
    t=base.replace('WORKTREE','/tmp/seed_wt_C%02d'%(i+1)).replace('OUTDIR','/tmp/pres8_out/X%d'%(i+1)).replace('FOCUS',f)
    os.makedirs('/tmp/pres8_out/X%d'%(i+1),exist_ok=True)
    open('/tmp/seed_in/PRES8_%d.txt'%(i+1),'w').write(t)
print('ok', len(base), len(lst))
