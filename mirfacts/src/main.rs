// mirfacts: rustc_private driver that dumps type-checked MIR + item tables as JSON.
//
// Used as RUSTC_WORKSPACE_WRAPPER / RUSTC_WRAPPER:  mirfacts <rustc> <args...>
// Output: $MIRFACTS_OUT/<crate_name>.json  (one write per process)
//
// Nothing is decided here; this is only the extractor.  The Python side (sa/) decides.
#![feature(rustc_private)]
#![allow(clippy::all)]

extern crate rustc_abi;
extern crate rustc_driver;
extern crate rustc_hir;
extern crate rustc_interface;
extern crate rustc_middle;
extern crate rustc_span;

use rustc_driver::{Callbacks, Compilation};
use rustc_hir::def::DefKind;
use rustc_hir::def_id::{DefId, LocalDefId};
use rustc_middle::mir::{
    self, AggregateKind, BasicBlock, BinOp, BorrowKind, CastKind, Const, ConstValue, Operand, Place, ProjectionElem,
    Rvalue, StatementKind, TerminatorKind, UnwindAction,
};
use rustc_middle::ty::{self, GenericArgsRef, Instance, InstanceKind, Ty, TyCtxt, TypingEnv};
use rustc_span::Span;
use std::fmt::Write as _;
use rustc_middle::ty::print::PrintTraitRefExt as _;

// ---------------------------------------------------------------- tiny JSON tree
enum J {
    Null,
    Bool(bool),
    Int(i128),
    Str(String),
    Arr(Vec<J>),
    Obj(Vec<(&'static str, J)>),
}

fn s<T: Into<String>>(x: T) -> J {
    J::Str(x.into())
}

fn esc(out: &mut String, st: &str) {
    out.push('"');
    for c in st.chars() {
        match c {
            '"' => out.push_str("\\\""),
            '\\' => out.push_str("\\\\"),
            '\n' => out.push_str("\\n"),
            '\r' => out.push_str("\\r"),
            '\t' => out.push_str("\\t"),
            c if (c as u32) < 0x20 => {
                let _ = write!(out, "\\u{:04x}", c as u32);
            }
            c => out.push(c),
        }
    }
    out.push('"');
}

impl J {
    fn write(&self, out: &mut String) {
        match self {
            J::Null => out.push_str("null"),
            J::Bool(b) => out.push_str(if *b { "true" } else { "false" }),
            J::Int(i) => {
                let _ = write!(out, "{}", i);
            }
            J::Str(st) => esc(out, st),
            J::Arr(v) => {
                out.push('[');
                for (i, x) in v.iter().enumerate() {
                    if i > 0 {
                        out.push(',');
                    }
                    x.write(out);
                }
                out.push(']');
            }
            J::Obj(v) => {
                out.push('{');
                for (i, (k, x)) in v.iter().enumerate() {
                    if i > 0 {
                        out.push(',');
                    }
                    esc(out, k);
                    out.push(':');
                    x.write(out);
                }
                out.push('}');
            }
        }
    }
}

// ---------------------------------------------------------------- helpers
struct Cx<'tcx> {
    tcx: TyCtxt<'tcx>,
}

impl<'tcx> Cx<'tcx> {
    fn path(&self, did: DefId) -> String {
        self.tcx.def_path_str(did)
    }

    fn path_args(&self, did: DefId, args: GenericArgsRef<'tcx>) -> String {
        self.tcx.def_path_str_with_args(did, args)
    }

    fn ty(&self, t: Ty<'tcx>) -> J {
        s(format!("{}", t))
    }

    fn line(&self, sp: Span) -> J {
        let sm = self.tcx.sess.source_map();
        let lo = sm.lookup_char_pos(sp.lo());
        J::Obj(vec![
            ("file", s(format!("{}", lo.file.name.prefer_local_unconditionally()))),
            ("line", J::Int(lo.line as i128)),
            ("exp", J::Bool(sp.from_expansion())),
        ])
    }

    // source position of the outermost (user written) call site for spans from expansions
    fn line_root(&self, sp: Span) -> J {
        let root = sp.source_callsite();
        let sm = self.tcx.sess.source_map();
        let lo = sm.lookup_char_pos(root.lo());
        J::Obj(vec![
            ("file", s(format!("{}", lo.file.name.prefer_local_unconditionally()))),
            ("line", J::Int(lo.line as i128)),
            ("exp", J::Bool(sp.from_expansion())),
        ])
    }

    fn generic_args(&self, args: GenericArgsRef<'tcx>) -> J {
        J::Arr(args.iter().map(|a| s(format!("{}", a))).collect())
    }

    fn place(&self, body: &mir::Body<'tcx>, p: &Place<'tcx>) -> J {
        let mut proj = Vec::new();
        let mut cur_ty = mir::PlaceTy::from_ty(body.local_decls[p.local].ty);
        for elem in p.projection.iter() {
            let j = match elem {
                ProjectionElem::Deref => J::Arr(vec![s("deref")]),
                ProjectionElem::Field(f, fty) => {
                    // field name when the base is an ADT
                    let mut name = J::Null;
                    if let ty::Adt(adt, _) = cur_ty.ty.kind() {
                        let vidx = cur_ty.variant_index.unwrap_or(rustc_abi::FIRST_VARIANT);
                        if adt.is_enum() || adt.is_struct() || adt.is_union() {
                            if let Some(v) = adt.variants().get(vidx) {
                                if let Some(fd) = v.fields.get(f) {
                                    name = s(fd.name.as_str());
                                }
                            }
                        }
                    } else if let ty::Closure(cdid, _) = cur_ty.ty.kind() {
                        let caps = self.tcx.closure_saved_names_of_captured_variables(*cdid);
                        if let Some(n) = caps.get(f) {
                            name = s(n.as_str());
                        }
                    }
                    J::Arr(vec![s("field"), J::Int(f.as_usize() as i128), name, self.ty(fty)])
                }
                ProjectionElem::Index(l) => J::Arr(vec![s("index"), J::Int(l.as_usize() as i128)]),
                ProjectionElem::ConstantIndex { offset, min_length, from_end } => J::Arr(vec![
                    s("constindex"),
                    J::Int(offset as i128),
                    J::Int(min_length as i128),
                    J::Bool(from_end),
                ]),
                ProjectionElem::Subslice { from, to, from_end } => {
                    J::Arr(vec![s("subslice"), J::Int(from as i128), J::Int(to as i128), J::Bool(from_end)])
                }
                ProjectionElem::Downcast(name, vidx) => J::Arr(vec![
                    s("downcast"),
                    match name {
                        Some(n) => s(n.as_str()),
                        None => J::Null,
                    },
                    J::Int(vidx.as_usize() as i128),
                ]),
                ProjectionElem::OpaqueCast(t) => J::Arr(vec![s("opaquecast"), self.ty(t)]),
                ProjectionElem::UnwrapUnsafeBinder(t) => J::Arr(vec![s("unwrapbinder"), self.ty(t)]),
            };
            proj.push(j);
            cur_ty = cur_ty.projection_ty(self.tcx, elem);
        }
        J::Obj(vec![("l", J::Int(p.local.as_usize() as i128)), ("p", J::Arr(proj))])
    }

    fn bytes_of_alloc(&self, alloc_id: mir::interpret::AllocId, start: u64, len: u64) -> Option<Vec<u8>> {
        let ga = self.tcx.try_get_global_alloc(alloc_id)?;
        let mem = match ga {
            mir::interpret::GlobalAlloc::Memory(m) => m,
            _ => return None,
        };
        let a = mem.inner();
        let end = start.checked_add(len)?;
        if end > a.size().bytes() {
            return None;
        }
        Some(a.inspect_with_uninit_and_ptr_outside_interpreter(start as usize..end as usize).to_vec())
    }

    fn bytes_json(&self, b: &[u8]) -> J {
        J::Arr(b.iter().map(|x| J::Int(*x as i128)).collect())
    }

    fn const_operand(&self, body_did: DefId, c: &mir::ConstOperand<'tcx>) -> J {
        let tcx = self.tcx;
        let ty = c.const_.ty();
        let mut o: Vec<(&'static str, J)> = vec![("k", s("const")), ("ty", self.ty(ty))];
        // named constant / fn item
        match c.const_ {
            Const::Unevaluated(uv, _) => {
                o.push(("path", s(self.path(uv.def))));
                if uv.promoted.is_some() {
                    o.push(("promoted", J::Int(uv.promoted.unwrap().as_usize() as i128)));
                }
            }
            _ => {}
        }
        if let ty::FnDef(did, args) = ty.kind() {
            o.push(("fn", s(self.path(*did))));
            o.push(("fn_full", s(self.path_args(*did, args))));
            o.push(("fn_args", self.generic_args(args)));
        }
        let tenv = TypingEnv::post_analysis(tcx, body_did);
        let val = match c.const_ {
            Const::Val(v, _) => Some(v),
            _ => c.const_.eval(tcx, tenv, c.span).ok(),
        };
        if let Some(v) = val {
            match v {
                ConstValue::Scalar(mir::interpret::Scalar::Int(i)) => {
                    let sz = i.size();
                    let bits = i.to_bits(sz);
                    let vj = match ty.kind() {
                        ty::Int(_) => {
                            let sh = 128 - sz.bits();
                            let sv = if sz.bits() == 0 { 0 } else { ((bits << sh) as i128) >> sh };
                            s(format!("{}", sv))
                        }
                        ty::Bool => J::Bool(bits != 0),
                        ty::Char => s(format!("{}", bits)),
                        ty::Float(fty) => {
                            o.push(("float_bits", s(format!("{}", bits))));
                            match fty.bit_width() {
                                64 => s(format!("{:?}", f64::from_bits(bits as u64))),
                                32 => s(format!("{:?}", f32::from_bits(bits as u32))),
                                _ => J::Null,
                            }
                        }
                        _ => s(format!("{}", bits)),
                    };
                    o.push(("val", vj));
                    o.push(("bits", J::Int(sz.bits() as i128)));
                }
                ConstValue::Scalar(mir::interpret::Scalar::Ptr(ptr, _)) => {
                    // reference to a sized allocation, e.g. &[u8; N]
                    let (prov, off) = ptr.prov_and_relative_offset();
                    let alloc_id = prov.alloc_id();
                    if let Some(inner) = ty.builtin_deref(true) {
                        if let ty::Array(elem, len) = inner.kind() {
                            if elem.is_integral() && *elem == tcx.types.u8 {
                                if let Some(n) = len.try_to_target_usize(tcx) {
                                    if let Some(b) = self.bytes_of_alloc(alloc_id, off.bytes(), n) {
                                        o.push(("bytes", self.bytes_json(&b)));
                                    }
                                }
                            }
                        }
                    }
                    if let Some(ga) = tcx.try_get_global_alloc(alloc_id) {
                        match ga {
                            mir::interpret::GlobalAlloc::Static(did) => o.push(("static", s(self.path(did)))),
                            mir::interpret::GlobalAlloc::Function { instance } => {
                                o.push(("fnptr", s(self.path(instance.def_id()))))
                            }
                            _ => {}
                        }
                    }
                }
                ConstValue::Slice { alloc_id, meta } => {
                    if let Some(b) = self.bytes_of_alloc(alloc_id, 0, meta) {
                        if let Some(inner) = ty.builtin_deref(true) {
                            if inner.is_str() {
                                o.push(("str", s(String::from_utf8_lossy(&b).to_string())));
                            }
                        }
                        o.push(("bytes", self.bytes_json(&b)));
                    }
                }
                ConstValue::ZeroSized => {
                    o.push(("zst", J::Bool(true)));
                }
                ConstValue::Indirect { .. } => {
                    if let Some(b) = v.try_get_slice_bytes_for_diagnostics(tcx) {
                        if ty.builtin_deref(true).map(|t| t.is_str() || t.is_slice()).unwrap_or(false) {
                            o.push(("bytes", self.bytes_json(b)));
                        }
                    }
                    o.push(("indirect", J::Bool(true)));
                }
            }
        }
        o.push(("repr", s(format!("{}", c.const_))));
        J::Obj(o)
    }

    fn operand(&self, body: &mir::Body<'tcx>, body_did: DefId, op: &Operand<'tcx>) -> J {
        match op {
            Operand::Copy(p) => J::Obj(vec![("k", s("copy")), ("place", self.place(body, p))]),
            Operand::Move(p) => J::Obj(vec![("k", s("move")), ("place", self.place(body, p))]),
            Operand::Constant(c) => self.const_operand(body_did, c),
            #[allow(unreachable_patterns)]
            _ => J::Obj(vec![("k", s("other")), ("repr", s(format!("{:?}", op)))]),
        }
    }

    fn rvalue(&self, body: &mir::Body<'tcx>, body_did: DefId, rv: &Rvalue<'tcx>) -> J {
        let tcx = self.tcx;
        match rv {
            Rvalue::Use(op, _) => J::Obj(vec![("k", s("use")), ("op", self.operand(body, body_did, op))]),
            Rvalue::Repeat(op, n) => J::Obj(vec![
                ("k", s("repeat")),
                ("op", self.operand(body, body_did, op)),
                ("n", s(format!("{}", n))),
            ]),
            Rvalue::Ref(_, bk, p) => J::Obj(vec![
                ("k", s("ref")),
                (
                    "bk",
                    s(match bk {
                        BorrowKind::Shared => "shared",
                        BorrowKind::Fake(_) => "fake",
                        BorrowKind::Mut { .. } => "mut",
                    }),
                ),
                ("place", self.place(body, p)),
            ]),
            Rvalue::ThreadLocalRef(d) => J::Obj(vec![("k", s("tlsref")), ("path", s(self.path(*d)))]),
            Rvalue::RawPtr(kind, p) => J::Obj(vec![
                ("k", s("rawptr")),
                ("bk", s(format!("{:?}", kind))),
                ("place", self.place(body, p)),
            ]),
            Rvalue::Cast(ck, op, to) => {
                let from = op.ty(&body.local_decls, tcx);
                let ckn = match ck {
                    CastKind::PointerCoercion(pc, _) => format!("PointerCoercion({:?})", pc),
                    other => format!("{:?}", other),
                };
                J::Obj(vec![
                    ("k", s("cast")),
                    ("ck", s(ckn)),
                    ("op", self.operand(body, body_did, op)),
                    ("from", self.ty(from)),
                    ("to", self.ty(*to)),
                ])
            }
            Rvalue::BinaryOp(bop, ops) => {
                let (a, b) = &**ops;
                J::Obj(vec![
                    ("k", s("bin")),
                    ("op", s(format!("{:?}", bop))),
                    ("a", self.operand(body, body_did, a)),
                    ("b", self.operand(body, body_did, b)),
                    ("ty", self.ty(a.ty(&body.local_decls, tcx))),
                ])
            }
            Rvalue::UnaryOp(uop, a) => J::Obj(vec![
                ("k", s("un")),
                ("op", s(format!("{:?}", uop))),
                ("a", self.operand(body, body_did, a)),
                ("ty", self.ty(a.ty(&body.local_decls, tcx))),
            ]),
            Rvalue::Discriminant(p) => {
                let pty = p.ty(&body.local_decls, tcx).ty;
                J::Obj(vec![("k", s("discr")), ("place", self.place(body, p)), ("ty", self.ty(pty))])
            }
            Rvalue::Aggregate(ak, ops) => {
                let mut o: Vec<(&'static str, J)> = vec![("k", s("agg"))];
                match &**ak {
                    AggregateKind::Array(t) => {
                        o.push(("ak", s("array")));
                        o.push(("elem", self.ty(*t)));
                    }
                    AggregateKind::Tuple => o.push(("ak", s("tuple"))),
                    AggregateKind::Adt(did, vidx, args, _, active) => {
                        o.push(("ak", s("adt")));
                        o.push(("path", s(self.path(*did))));
                        o.push(("args", self.generic_args(args)));
                        let adt = tcx.adt_def(*did);
                        let v = adt.variant(*vidx);
                        o.push(("variant", s(v.name.as_str())));
                        o.push(("vidx", J::Int(vidx.as_usize() as i128)));
                        let names: Vec<J> = match active {
                            Some(f) => vec![s(v.fields[*f].name.as_str())],
                            None => v.fields.iter().map(|f| s(f.name.as_str())).collect(),
                        };
                        o.push(("fields", J::Arr(names)));
                    }
                    AggregateKind::Closure(did, args) => {
                        o.push(("ak", s("closure")));
                        o.push(("path", s(self.path(*did))));
                        o.push(("args", self.generic_args(args)));
                        let caps = tcx.closure_saved_names_of_captured_variables(*did);
                        o.push(("fields", J::Arr(caps.iter().map(|n| s(n.as_str())).collect())));
                    }
                    AggregateKind::Coroutine(did, _) | AggregateKind::CoroutineClosure(did, _) => {
                        o.push(("ak", s("coroutine")));
                        o.push(("path", s(self.path(*did))));
                    }
                    AggregateKind::RawPtr(t, m) => {
                        o.push(("ak", s("rawptr")));
                        o.push(("pointee", self.ty(*t)));
                        o.push(("mut", J::Bool(m.is_mut())));
                    }
                }
                o.push(("ops", J::Arr(ops.iter().map(|x| self.operand(body, body_did, x)).collect())));
                J::Obj(o)
            }
            Rvalue::CopyForDeref(p) => J::Obj(vec![("k", s("copy_for_deref")), ("place", self.place(body, p))]),
            Rvalue::WrapUnsafeBinder(op, t) => J::Obj(vec![
                ("k", s("wrapbinder")),
                ("op", self.operand(body, body_did, op)),
                ("to", self.ty(*t)),
            ]),
            #[allow(unreachable_patterns)]
            _ => J::Obj(vec![("k", s("other")), ("repr", s(format!("{:?}", rv)))]),
        }
    }

    fn unwind(&self, u: &UnwindAction) -> J {
        match u {
            UnwindAction::Continue => s("continue"),
            UnwindAction::Unreachable => s("unreachable"),
            UnwindAction::Terminate(_) => s("terminate"),
            UnwindAction::Cleanup(bb) => J::Int(bb.as_usize() as i128),
        }
    }

    fn bb(&self, b: BasicBlock) -> J {
        J::Int(b.as_usize() as i128)
    }

    fn opt_bb(&self, b: &Option<BasicBlock>) -> J {
        match b {
            Some(b) => self.bb(*b),
            None => J::Null,
        }
    }

    fn body(&self, ldid: LocalDefId, body: &mir::Body<'tcx>, extra: Vec<(&'static str, J)>) -> J {
        let tcx = self.tcx;
        let did = ldid.to_def_id();
        let mut o: Vec<(&'static str, J)> = vec![("path", s(self.path(did)))];
        o.extend(extra);
        o.push(("def_kind", s(format!("{:?}", tcx.def_kind(did)))));
        o.push(("span", self.line(body.span)));
        o.push(("arg_count", J::Int(body.arg_count as i128)));
        // names of all generic parameters (parents' first), in the order of the callee's generic arguments at a call site
        {
            let g = tcx.generics_of(did);
            let mut names: Vec<J> = Vec::new();
            for i in 0..g.count() {
                names.push(s(g.param_at(i, tcx).name.to_string()));
            }
            o.push(("generic_names", J::Arr(names)));
        }
        // parent impl / trait
        let parent = tcx.opt_parent(did);
        if let Some(p) = parent {
            match tcx.def_kind(p) {
                DefKind::Impl { of_trait } => {
                    o.push(("impl_path", s(self.path(p))));
                    let self_ty = tcx.type_of(p).instantiate_identity().skip_norm_wip();
                    o.push(("impl_self", self.ty(self_ty)));
                    if of_trait {
                        let tr = tcx.impl_trait_ref(p).instantiate_identity().skip_norm_wip();
                        o.push(("impl_trait", s(self.path(tr.def_id))));
                        o.push(("impl_trait_full", s(format!("{}", tr.print_only_trait_path()))));
                    }
                    o.push(("name", s(tcx.item_name(did).as_str())));
                }
                DefKind::Trait => {
                    o.push(("trait_path", s(self.path(p))));
                    o.push(("name", s(tcx.item_name(did).as_str())));
                }
                _ => {
                    if let Some(n) = tcx.opt_item_name(did) {
                        o.push(("name", s(n.as_str())));
                    }
                }
            }
        }
        if matches!(tcx.def_kind(did), DefKind::Fn | DefKind::AssocFn) {
            o.push(("vis", s(format!("{:?}", tcx.visibility(did)))));
            let eff = tcx.effective_visibilities(());
            o.push(("reachable", J::Bool(eff.is_reachable(ldid))));
        }
        if matches!(tcx.def_kind(did), DefKind::Closure) {
            o.push(("closure_parent", s(self.path(tcx.typeck_root_def_id(did)))));
        }
        // locals
        let mut locals = Vec::new();
        for (_l, decl) in body.local_decls.iter_enumerated() {
            locals.push(self.ty(decl.ty));
        }
        o.push(("locals", J::Arr(locals)));
        // debug names
        let mut dbg = Vec::new();
        for vdi in body.var_debug_info.iter() {
            if let mir::VarDebugInfoContents::Place(p) = &vdi.value {
                dbg.push(J::Obj(vec![("name", s(vdi.name.as_str())), ("place", self.place(body, p))]));
            }
        }
        o.push(("debug", J::Arr(dbg)));
        // blocks
        let mut blocks = Vec::new();
        for (_bb, data) in body.basic_blocks.iter_enumerated() {
            let mut stmts = Vec::new();
            for st in data.statements.iter() {
                let sj = match &st.kind {
                    StatementKind::Assign(b) => {
                        let (p, rv) = &**b;
                        Some(J::Obj(vec![
                            ("k", s("assign")),
                            ("place", self.place(body, p)),
                            ("rv", self.rvalue(body, did, rv)),
                            ("at", self.line(st.source_info.span)),
                        ]))
                    }
                    StatementKind::SetDiscriminant { place, variant_index } => Some(J::Obj(vec![
                        ("k", s("setdiscr")),
                        ("place", self.place(body, place)),
                        ("vidx", J::Int(variant_index.as_usize() as i128)),
                        ("at", self.line(st.source_info.span)),
                    ])),
                    StatementKind::Intrinsic(i) => Some(J::Obj(vec![
                        ("k", s("intrinsic")),
                        ("repr", s(format!("{:?}", i))),
                        ("at", self.line(st.source_info.span)),
                    ])),
                    StatementKind::StorageDead(l) => {
                        Some(J::Obj(vec![("k", s("dead")), ("l", J::Int(l.as_usize() as i128))]))
                    }
                    _ => None,
                };
                if let Some(j) = sj {
                    stmts.push(j);
                }
            }
            let term = data.terminator();
            let at = self.line(term.source_info.span);
            let tj = match &term.kind {
                TerminatorKind::Goto { target } => J::Obj(vec![("k", s("goto")), ("target", self.bb(*target))]),
                TerminatorKind::SwitchInt { discr, targets } => {
                    let mut ts = Vec::new();
                    for (v, t) in targets.iter() {
                        ts.push(J::Arr(vec![s(format!("{}", v)), self.bb(t)]));
                    }
                    J::Obj(vec![
                        ("k", s("switch")),
                        ("discr", self.operand(body, did, discr)),
                        ("discr_ty", self.ty(discr.ty(&body.local_decls, tcx))),
                        ("targets", J::Arr(ts)),
                        ("otherwise", self.bb(targets.otherwise())),
                        ("at", at),
                    ])
                }
                TerminatorKind::UnwindResume => J::Obj(vec![("k", s("resume"))]),
                TerminatorKind::UnwindTerminate(_) => J::Obj(vec![("k", s("terminate"))]),
                TerminatorKind::Return => J::Obj(vec![("k", s("return")), ("at", at)]),
                TerminatorKind::Unreachable => J::Obj(vec![("k", s("unreachable"))]),
                TerminatorKind::Drop { place, target, unwind, .. } => {
                    let pty = place.ty(&body.local_decls, tcx).ty;
                    J::Obj(vec![
                        ("k", s("drop")),
                        ("place", self.place(body, place)),
                        ("ty", self.ty(pty)),
                        ("target", self.bb(*target)),
                        ("unwind", self.unwind(unwind)),
                        ("at", at),
                    ])
                }
                TerminatorKind::Call { func, args, destination, target, unwind, fn_span, .. } => {
                    let mut c: Vec<(&'static str, J)> = vec![("k", s("call"))];
                    c.push(("func", self.operand(body, did, func)));
                    if let Some((cdid, cargs)) = func.const_fn_def() {
                        c.push(("callee", s(self.path(cdid))));
                        c.push(("callee_full", s(self.path_args(cdid, cargs))));
                        c.push(("callee_args", self.generic_args(cargs)));
                        c.push(("callee_local", J::Bool(cdid.is_local())));
                        if let Some(n) = tcx.opt_item_name(cdid) {
                            c.push(("callee_name", s(n.as_str())));
                        }
                        // trait of the callee, if it is a trait method
                        if let Some(tr) = tcx.trait_of_assoc(cdid) {
                            c.push(("callee_trait", s(self.path(tr))));
                        }
                        if let Some(im) = tcx.impl_of_assoc(cdid) {
                            let self_ty = tcx.type_of(im).instantiate_identity().skip_norm_wip();
                            c.push(("callee_impl_self", self.ty(self_ty)));
                        }
                        let tenv = TypingEnv::post_analysis(tcx, did);
                        match Instance::try_resolve(tcx, tenv, cdid, cargs) {
                            Ok(Some(inst)) => {
                                let kind = match inst.def {
                                    InstanceKind::Item(_) => "item",
                                    InstanceKind::Virtual(..) => "virtual",
                                    InstanceKind::Intrinsic(_) => "intrinsic",
                                    InstanceKind::ClosureOnceShim { .. } => "closure_once_shim",
                                    InstanceKind::FnPtrShim(..) => "fnptr_shim",
                                    InstanceKind::DropGlue(..) => "drop_glue",
                                    InstanceKind::CloneShim(..) => "clone_shim",
                                    InstanceKind::ReifyShim(..) => "reify_shim",
                                    InstanceKind::VTableShim(..) => "vtable_shim",
                                    _ => "other",
                                };
                                c.push(("resolved_kind", s(kind)));
                                let rd = inst.def_id();
                                c.push(("resolved", s(self.path(rd))));
                                c.push(("resolved_full", s(self.path_args(rd, inst.args))));
                                c.push(("resolved_local", J::Bool(rd.is_local())));
                            }
                            _ => {
                                c.push(("resolved_kind", s("unresolved")));
                            }
                        }
                    }
                    c.push((
                        "args",
                        J::Arr(args.iter().map(|a| self.operand(body, did, &a.node)).collect()),
                    ));
                    c.push(("dest", self.place(body, destination)));
                    c.push(("dest_ty", self.ty(destination.ty(&body.local_decls, tcx).ty)));
                    c.push(("target", self.opt_bb(target)));
                    c.push(("unwind", self.unwind(unwind)));
                    c.push(("at", self.line(*fn_span)));
                    c.push(("at_root", self.line_root(*fn_span)));
                    J::Obj(c)
                }
                TerminatorKind::TailCall { .. } => J::Obj(vec![("k", s("tailcall"))]),
                TerminatorKind::Assert { cond, expected, msg, target, unwind } => {
                    let (mk, mops): (String, Vec<J>) = match &**msg {
                        mir::AssertKind::BoundsCheck { len, index } => (
                            "BoundsCheck".into(),
                            vec![self.operand(body, did, len), self.operand(body, did, index)],
                        ),
                        mir::AssertKind::Overflow(op, a, b) => (
                            format!("Overflow({:?})", op),
                            vec![self.operand(body, did, a), self.operand(body, did, b)],
                        ),
                        mir::AssertKind::OverflowNeg(a) => ("OverflowNeg".into(), vec![self.operand(body, did, a)]),
                        mir::AssertKind::DivisionByZero(a) => {
                            ("DivisionByZero".into(), vec![self.operand(body, did, a)])
                        }
                        mir::AssertKind::RemainderByZero(a) => {
                            ("RemainderByZero".into(), vec![self.operand(body, did, a)])
                        }
                        mir::AssertKind::MisalignedPointerDereference { .. } => ("MisalignedPointer".into(), vec![]),
                        mir::AssertKind::NullPointerDereference => ("NullPointer".into(), vec![]),
                        other => (format!("{:?}", other), vec![]),
                    };
                    J::Obj(vec![
                        ("k", s("assert")),
                        ("cond", self.operand(body, did, cond)),
                        ("expected", J::Bool(*expected)),
                        ("msg", s(mk)),
                        ("msg_ops", J::Arr(mops)),
                        ("target", self.bb(*target)),
                        ("unwind", self.unwind(unwind)),
                        ("at", at),
                    ])
                }
                other => J::Obj(vec![("k", s("other")), ("repr", s(format!("{:?}", other)))]),
            };
            blocks.push(J::Obj(vec![
                ("cleanup", J::Bool(data.is_cleanup)),
                ("stmts", J::Arr(stmts)),
                ("term", tj),
            ]));
        }
        o.push(("blocks", J::Arr(blocks)));
        // suppress unused warning for BinOp import
        let _ = BinOp::Add;
        J::Obj(o)
    }

    fn adts(&self) -> J {
        let tcx = self.tcx;
        let mut out = Vec::new();
        for id in tcx.hir_free_items() {
            let did = id.owner_id.to_def_id();
            match tcx.def_kind(did) {
                DefKind::Struct | DefKind::Enum | DefKind::Union => {}
                _ => continue,
            }
            let adt = tcx.adt_def(did);
            let mut variants = Vec::new();
            for (vidx, v) in adt.variants().iter_enumerated() {
                let mut fields = Vec::new();
                for f in v.fields.iter() {
                    let fty = tcx.type_of(f.did).instantiate_identity().skip_norm_wip();
                    fields.push(J::Obj(vec![
                        ("name", s(f.name.as_str())),
                        ("ty", self.ty(fty)),
                        ("vis", s(format!("{:?}", f.vis))),
                    ]));
                }
                let discr = if adt.is_enum() {
                    s(format!("{}", adt.discriminant_for_variant(tcx, vidx).val))
                } else {
                    J::Null
                };
                variants.push(J::Obj(vec![
                    ("name", s(v.name.as_str())),
                    ("discr", discr),
                    ("fields", J::Arr(fields)),
                ]));
            }
            let dtor = match tcx.adt_destructor(did) {
                Some(d) => s(self.path(d.did)),
                None => J::Null,
            };
            out.push(J::Obj(vec![
                ("path", s(self.path(did))),
                ("kind", s(format!("{:?}", tcx.def_kind(did)))),
                ("vis", s(format!("{:?}", tcx.visibility(did)))),
                ("reachable", J::Bool(tcx.effective_visibilities(()).is_reachable(id.owner_id.def_id))),
                ("generics", J::Int(tcx.generics_of(did).own_params.len() as i128)),
                ("variants", J::Arr(variants)),
                ("destructor", dtor),
                ("span", self.line(tcx.def_span(did))),
            ]));
        }
        J::Arr(out)
    }

    fn impls_and_traits(&self) -> (J, J) {
        let tcx = self.tcx;
        let mut impls = Vec::new();
        let mut traits = Vec::new();
        for id in tcx.hir_free_items() {
            let did = id.owner_id.to_def_id();
            match tcx.def_kind(did) {
                DefKind::Impl { of_trait } => {
                    let self_ty = tcx.type_of(did).instantiate_identity().skip_norm_wip();
                    let mut o: Vec<(&'static str, J)> =
                        vec![("path", s(self.path(did))), ("self_ty", self.ty(self_ty))];
                    if let ty::Adt(a, _) = self_ty.kind() {
                        o.push(("self_adt", s(self.path(a.did()))));
                    }
                    if of_trait {
                        let tr = tcx.impl_trait_ref(did).instantiate_identity().skip_norm_wip();
                        o.push(("trait", s(self.path(tr.def_id))));
                        o.push(("trait_full", s(format!("{}", tr.print_only_trait_path()))));
                        o.push(("trait_args", self.generic_args(tr.args)));
                        let hdr = tcx.impl_trait_header(did);
                        o.push(("unsafe", J::Bool(hdr.safety.is_unsafe())));
                        o.push(("negative", J::Bool(matches!(hdr.polarity, ty::ImplPolarity::Negative))));
                    }
                    o.push(("derived", J::Bool(tcx.is_automatically_derived(did))));
                    let preds = tcx.predicates_of(did).instantiate_identity(tcx);
                    o.push((
                        "predicates",
                        J::Arr(preds.predicates.iter().map(|p| s(format!("{}", p.skip_norm_wip()))).collect()),
                    ));
                    let mut items = Vec::new();
                    for it in tcx.associated_items(did).in_definition_order() {
                        items.push(J::Obj(vec![
                            ("name", s(it.name().as_str())),
                            ("path", s(self.path(it.def_id))),
                            ("kind", s(format!("{:?}", it.tag()))),
                        ]));
                    }
                    o.push(("items", J::Arr(items)));
                    o.push(("span", self.line(tcx.def_span(did))));
                    impls.push(J::Obj(o));
                }
                DefKind::Trait => {
                    let mut items = Vec::new();
                    for it in tcx.associated_items(did).in_definition_order() {
                        items.push(J::Obj(vec![
                            ("name", s(it.name().as_str())),
                            ("path", s(self.path(it.def_id))),
                            ("has_default", J::Bool(it.defaultness(tcx).has_value())),
                        ]));
                    }
                    traits.push(J::Obj(vec![
                        ("path", s(self.path(did))),
                        ("reachable", J::Bool(tcx.effective_visibilities(()).is_reachable(id.owner_id.def_id))),
                        ("items", J::Arr(items)),
                    ]));
                }
                _ => {}
            }
        }
        (J::Arr(impls), J::Arr(traits))
    }

    fn consts(&self) -> J {
        let tcx = self.tcx;
        let mut out = Vec::new();
        for ldid in tcx.hir_body_owners() {
            let did = ldid.to_def_id();
            let k = tcx.def_kind(did);
            if !matches!(k, DefKind::Const { .. } | DefKind::AssocConst { .. } | DefKind::Static { .. }) {
                continue;
            }
            let ty = tcx.type_of(did).instantiate_identity().skip_norm_wip();
            let mut o: Vec<(&'static str, J)> = vec![
                ("path", s(self.path(did))),
                ("kind", s(format!("{:?}", k))),
                ("ty", self.ty(ty)),
            ];
            if !matches!(k, DefKind::Static { .. }) && tcx.generics_of(did).is_empty() {
                if let Ok(v) = tcx.const_eval_poly(did) {
                    match v {
                        ConstValue::Scalar(mir::interpret::Scalar::Int(i)) => {
                            o.push(("val", s(format!("{}", i.to_bits(i.size())))));
                        }
                        ConstValue::Slice { alloc_id, meta } => {
                            if let Some(b) = self.bytes_of_alloc(alloc_id, 0, meta) {
                                o.push(("str", s(String::from_utf8_lossy(&b).to_string())));
                            }
                        }
                        _ => {}
                    }
                }
            }
            out.push(J::Obj(o));
        }
        J::Arr(out)
    }
}

struct Cb;

impl Callbacks for Cb {
    fn after_analysis<'tcx>(&mut self, _c: &rustc_interface::interface::Compiler, tcx: TyCtxt<'tcx>) -> Compilation {
        let out_dir = match std::env::var("MIRFACTS_OUT") {
            Ok(d) => d,
            Err(_) => return Compilation::Continue,
        };
        let crate_name = tcx.crate_name(rustc_hir::def_id::LOCAL_CRATE).to_string();
        if crate_name == "___" || crate_name.starts_with("build_script") {
            return Compilation::Continue;
        }
        if let Ok(only) = std::env::var("MIRFACTS_ONLY") {
            if !only.split(',').any(|x| x == crate_name) {
                return Compilation::Continue;
            }
        }
        let cx = Cx { tcx };
        let json = rustc_middle::ty::print::with_resolve_crate_name!(rustc_middle::ty::print::with_no_visible_paths!(rustc_middle::ty::print::with_no_trimmed_paths!({
            let mut bodies = Vec::new();
            for ldid in tcx.hir_body_owners() {
                let did = ldid.to_def_id();
                match tcx.def_kind(did) {
                    DefKind::Fn | DefKind::AssocFn | DefKind::Closure => {
                        if tcx.is_constructor(did) {
                            continue;
                        }
                        let body = tcx.optimized_mir(did);
                        bodies.push(cx.body(ldid, body, vec![]));
                    }
                    DefKind::Const { .. } | DefKind::AssocConst { .. } | DefKind::Static { .. } => {
                        let body = tcx.mir_for_ctfe(did);
                        bodies.push(cx.body(ldid, body, vec![("ctfe", J::Bool(true))]));
                    }
                    _ => {}
                }
                // promoted constants of fn-like bodies
                if matches!(tcx.def_kind(did), DefKind::Fn | DefKind::AssocFn | DefKind::Closure) {
                    let proms = tcx.promoted_mir(did);
                    for (pi, pb) in proms.iter_enumerated() {
                        bodies.push(cx.body(
                            ldid,
                            pb,
                            vec![("promoted_of", s(cx.path(did))), ("promoted_idx", J::Int(pi.as_usize() as i128))],
                        ));
                    }
                }
            }
            let (impls, traits) = cx.impls_and_traits();
            // crate-level attributes (lint levels etc.), printed from HIR
            let mut attrs = Vec::new();
            for a in tcx.hir_krate_attrs() {
                let d = format!("{:?}", a);
                if !d.contains("DocComment") {
                    attrs.push(s(d));
                }
            }
            let crate_types: Vec<J> = tcx.crate_types().iter().map(|t| s(format!("{:?}", t))).collect();
            J::Obj(vec![
                ("crate", s(crate_name.clone())),
                ("crate_types", J::Arr(crate_types)),
                ("overflow_checks", J::Bool(tcx.sess.overflow_checks())),
                ("debug_assertions", J::Bool(tcx.sess.opts.debug_assertions)),
                ("crate_attrs", J::Arr(attrs)),
                ("adts", cx.adts()),
                ("impls", impls),
                ("traits", traits),
                ("consts", cx.consts()),
                ("bodies", J::Arr(bodies)),
            ])
        })));
        let mut out = String::with_capacity(1 << 22);
        json.write(&mut out);
        let fname = format!("{}/{}.json", out_dir, crate_name);
        let tmp = format!("{}.{}.tmp", fname, std::process::id());
        std::fs::write(&tmp, out).expect("mirfacts: cannot write facts");
        std::fs::rename(&tmp, &fname).expect("mirfacts: cannot rename facts");
        Compilation::Continue
    }
}

fn main() {
    let mut args: Vec<String> = std::env::args().collect();
    // invoked as wrapper: argv[1] is the real rustc path
    if args.len() > 1 && (args[1].ends_with("rustc") || args[1].contains("/rustc")) {
        args.remove(1);
    }
    let mut cb = Cb;
    rustc_driver::run_compiler(&args, &mut cb);
}
