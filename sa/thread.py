"""Jump threading on (inlined) MIR bodies: when a path reaches a switch with its scrutinee already determined by an
assignment on that very path (an inlined helper returning `None`/`Err(..)`/`true` on one branch, a drop flag), the path
is redirected to the matching target through copies of the intermediate blocks.  This makes dominance / must-pass
queries path-sensitive for the common shapes without changing what any feasible path does."""
import copy

from .facts import Body
from .terms import STD_DISCR

MAX_ROUNDS = 80
MAX_CHAIN = 6
import threading as _threading


class _FoldEq(_threading.local):
    """per-thread switch (the positive controls run the same rules in worker threads of the same process: a module-wide
    flag toggled by one thread changed what another thread's `thread_jumps` folded)"""
    v = True

    def __getitem__(self, i):
        return self.v

    def __setitem__(self, i, x):
        self.v = x


FOLD_EQ = _FoldEq()      # thread_jumps(.., fold_eq=False): do not decide `a == b` of two known scalars (rules that look for that very guard)
MAX_CHAIN_DECISION = 14     # switches on a private fieldless "decision" enum returned by an inlined helper


def _pure(blk):
    """only assignments to plain locals (no stores through pointers, no set_discriminant)"""
    for s in blk['stmts']:
        if s['k'] == 'setdiscr' or s['k'] == 'intrinsic':
            return False
        if s['k'] == 'assign' and any(e[0] == 'deref' for e in s['place']['p']):
            return False
    return True


def _single_succ(blk):
    t = blk['term']
    if t['k'] == 'goto':
        return t['target']
    return None


def _promoted_variant(body, o):
    """constant operand `&Enum::Variant` promoted out of the function -> ('refvariant', adt, variant)"""
    if 'promoted' not in o or not o.get('path'):
        return None
    pb = getattr(body.crate, 'promoted', {}).get((o['path'], o['promoted']))
    if pb is None or len(pb.blocks) != 1:
        return None
    st = [s for s in pb.blocks[0]['stmts'] if s['k'] == 'assign']
    if len(st) == 2 and st[0]['rv']['k'] == 'agg' and st[0]['rv'].get('ak') == 'adt' and not st[0]['place']['p'] and \
            st[1]['rv']['k'] == 'ref' and st[1]['place'] == {'l': 0, 'p': []} and st[1]['rv']['place'] == {'l': st[0]['place']['l'], 'p': []}:
        return ('refvariant', st[0]['rv']['path'], st[0]['rv']['variant'])
    return None


def _extra_rv(body, rv, known, op_val, adts):
    """values the two propagators share beyond use/agg/discr/not: references to a local whose variant is known (and promoted
    `&Enum::Variant` constants), the discriminant read through such a reference, comparisons of two known scalars"""
    k = rv['k']
    if k == 'ref' and rv.get('bk') not in ('mut',) and not rv['place']['p']:
        kv = known.get(rv['place']['l'])
        if kv and kv[0] == 'variant':
            return ('refvariant', kv[1], kv[2])
    if k == 'ref' and rv.get('bk') not in ('mut',) and len(rv['place']['p']) == 1 and rv['place']['p'][0][0] == 'deref':
        kv = known.get(rv['place']['l'])
        if kv and kv[0] == 'refvariant':
            return kv           # reborrow `&*r`
    if k == 'discr' and len(rv['place']['p']) == 1 and rv['place']['p'][0][0] == 'deref':
        kv = known.get(rv['place']['l'])
        if kv and kv[0] == 'refvariant':
            d = _discr_of(kv[1], kv[2], adts)
            if d is not None:
                return ('int', d)
    if k == 'bin' and rv.get('op') in ('Eq', 'Ne') and FOLD_EQ[0]:
        a, b = op_val(rv['a']), op_val(rv['b'])
        if a and b and a[0] == b[0] and a[0] in ('int', 'bool'):
            return ('bool', (a[1] == b[1]) == (rv['op'] == 'Eq'))
    return None


def _resolve(body, chain_blocks, s_block, adts, seed=None):
    """Walk statements of chain (first block .. switch block) forward, tracking known values of plain locals:
    returns the switch value (int as str / bool) if determined, else None.
    seed = (local, ('discr', v)): the chain is entered over the edge of an earlier switch that found discriminant v in `local`."""
    known = {}      # local -> ('variant', adt_path, name) | ('int', v) | ('bool', b) | ('discr', v)
    if seed is not None:
        known[seed[0]] = seed[1]

    def op_val(o):
        if o.get('k') == 'const':
            pv = _promoted_variant(body, o)
            if pv is not None:
                return pv
            v = o.get('val')
            if isinstance(v, bool):
                return ('bool', v)
            if v is not None and o.get('ty') in ('isize', 'usize', 'u8', 'u16', 'u32', 'u64', 'i8', 'i16', 'i32', 'i64', 'u128', 'i128', 'char'):
                try:
                    return ('int', int(v))
                except ValueError:
                    return None
            return None
        if o.get('k') in ('copy', 'move') and not o['place']['p']:
            return known.get(o['place']['l'])
        return None

    for bi in chain_blocks:
        blk = body.blocks[bi]
        for s in blk['stmts']:
            if s['k'] == 'dead':
                continue
            if s['k'] == 'setdiscr':
                known.pop(s['place']['l'], None)
                continue
            if s['k'] != 'assign':
                continue
            pl = s['place']
            if pl['p']:
                # partial write into a local: forget what we knew unless it only fills payload fields after the variant
                # was fixed by a downcast projection of the same variant
                k = known.get(pl['l'])
                if not (k and k[0] == 'variant' and pl['p'][0][0] == 'downcast' and pl['p'][0][1] == k[2]):
                    known.pop(pl['l'], None)
                continue
            rv = s['rv']
            val = None
            if rv['k'] == 'use':
                val = op_val(rv['op'])
            elif rv['k'] == 'agg' and rv.get('ak') == 'adt':
                val = ('variant', rv['path'], rv['variant'])
            elif rv['k'] == 'discr' and not rv['place']['p']:
                k = known.get(rv['place']['l'])
                if k and k[0] == 'variant':
                    d = _discr_of(k[1], k[2], adts)
                    if d is not None:
                        val = ('int', d)
                elif k and k[0] == 'discr':
                    val = ('int', k[1])
            elif rv['k'] == 'un' and rv['op'] == 'Not':
                k = op_val(rv['a'])
                if k and k[0] == 'bool':
                    val = ('bool', not k[1])
            if val is None:
                val = _extra_rv(body, rv, known, op_val, adts)
            if val is None:
                known.pop(pl['l'], None)
            else:
                known[pl['l']] = val
        # a call terminator in the first block defines its destination: unknown
        if bi != s_block:
            t = blk['term']
            if t['k'] == 'call' and not t['dest']['p']:
                known.pop(t['dest']['l'], None)
    t = body.blocks[s_block]['term']
    v = op_val(t['discr'])
    if v is None:
        return None
    if v[0] == 'bool':
        return '1' if v[1] else '0'
    if v[0] == 'int':
        return str(v[1])
    return None


def _discr_of(adt_path, variant, adts):
    if adt_path in STD_DISCR:
        return STD_DISCR[adt_path].get(variant)
    a = adts.get(adt_path)
    if a and a['kind'] == 'Enum':
        for v in a['variants']:
            if v['name'] == variant:
                return int(v['discr'])
    return None


def _target_for(term, val):
    for v, tb in term['targets']:
        if v == val:
            return tb
    return term['otherwise']


def _mut_borrowed(body):
    """locals whose address is taken mutably / raw somewhere: their value may change behind our back"""
    out = set()
    for blk in body.blocks:
        for s in blk['stmts']:
            if s['k'] == 'assign' and s['rv']['k'] in ('ref', 'addr', 'rawptr', 'address_of'):
                rv = s['rv']
                pl = rv.get('place')
                if pl is None:
                    continue
                if rv['k'] != 'ref' or rv.get('mut') or rv.get('bk') not in (None, 'shared', 'Shared', 'fake'):
                    if not any(e[0] == 'deref' for e in pl['p']):
                        out.add(pl['l'])
    return out


def fold_constants(body, adts):
    """Forward constant propagation of plain locals holding a bool / integer / enum variant (optimistic, SCCP-like):
    a switch whose scrutinee is the same known value on every feasible way into its block becomes a goto."""
    blocks = body.blocks
    n = len(blocks)
    noprop = _mut_borrowed(body)
    TOP = None
    instate = [TOP] * n
    instate[0] = {}
    decided = {}
    work = [0]

    def op_val(o, known):
        if o.get('k') == 'const':
            pv = _promoted_variant(body, o)
            if pv is not None:
                return pv
            v = o.get('val')
            if isinstance(v, bool):
                return ('bool', v)
            if v is not None and o.get('ty') in ('isize', 'usize', 'u8', 'u16', 'u32', 'u64', 'i8', 'i16', 'i32', 'i64', 'u128', 'i128', 'char'):
                try:
                    return ('int', int(v))
                except ValueError:
                    return None
            return None
        if o.get('k') in ('copy', 'move') and not o['place']['p']:
            return known.get(o['place']['l'])
        return None

    def transfer(bi, known):
        known = dict(known)
        blk = blocks[bi]
        for s in blk['stmts']:
            if s['k'] == 'dead':
                continue
            if s['k'] == 'setdiscr':
                known.pop(s['place']['l'], None)
                continue
            if s['k'] != 'assign':
                continue
            pl = s['place']
            if pl['p']:
                k = known.get(pl['l'])
                if not (k and k[0] == 'variant' and pl['p'][0][0] == 'downcast' and pl['p'][0][1] == k[2]):
                    if not any(e[0] == 'deref' for e in pl['p']):
                        known.pop(pl['l'], None)
                continue
            rv = s['rv']
            val = None
            if rv['k'] == 'use':
                val = op_val(rv['op'], known)
            elif rv['k'] == 'agg' and rv.get('ak') == 'adt':
                val = ('variant', rv['path'], rv['variant'])
            elif rv['k'] == 'discr' and not rv['place']['p']:
                k = known.get(rv['place']['l'])
                if k and k[0] == 'variant':
                    d = _discr_of(k[1], k[2], adts)
                    if d is not None:
                        val = ('int', d)
            elif rv['k'] == 'un' and rv['op'] == 'Not':
                k = op_val(rv['a'], known)
                if k and k[0] == 'bool':
                    val = ('bool', not k[1])
            if val is None:
                val = _extra_rv(body, rv, known, lambda o_: op_val(o_, known), adts)
            if val is None or pl['l'] in noprop:
                known.pop(pl['l'], None)
            else:
                known[pl['l']] = val
        return known

    def meet(a, b):
        return {k: v for k, v in a.items() if b.get(k) == v}

    while work:
        bi = work.pop()
        known = transfer(bi, instate[bi])
        t = blocks[bi]['term']
        succs = None
        if t['k'] == 'switch':
            v = op_val(t['discr'], known)
            if v is not None and v[0] in ('bool', 'int'):
                val = ('1' if v[1] else '0') if v[0] == 'bool' else str(v[1])
                tgt = _target_for(t, val)
                decided[bi] = tgt
                succs = [tgt]
            else:
                decided.pop(bi, None)
        if t['k'] in ('call', 'drop') or t['k'] == 'assert':
            if t['k'] == 'call' and not t['dest']['p']:
                known.pop(t['dest']['l'], None)
            elif t['k'] == 'call':
                known.pop(t['dest']['l'], None)
            if t['k'] == 'drop' and not t['place']['p']:
                known.pop(t['place']['l'], None)
        if succs is None:
            succs = body.succs(bi, True)
        for s in succs:
            if instate[s] is TOP:
                instate[s] = dict(known)
                work.append(s)
            else:
                m = meet(instate[s], known)
                if m != instate[s]:
                    instate[s] = m
                    work.append(s)
    # a decision is final only if it still holds with the fixpoint states
    final = {}
    for bi, tgt in decided.items():
        if instate[bi] is TOP:
            continue
        known = transfer(bi, instate[bi])
        v = op_val(blocks[bi]['term']['discr'], known)
        if v is not None and v[0] in ('bool', 'int'):
            val = ('1' if v[1] else '0') if v[0] == 'bool' else str(v[1])
            final[bi] = _target_for(blocks[bi]['term'], val)
    if not final:
        return body
    j = copy.deepcopy(body.j)
    for bi, tgt in final.items():
        old = j['blocks'][bi]['term']
        j['blocks'][bi]['term'] = {'k': 'goto', 'target': tgt, 'threaded': True, 'at': old.get('at'), 'folded_switch': True}
    nb = Body(j, body.crate)
    nb.inlined = getattr(body, 'inlined', None)
    return nb


VIEW_CALLS = ('core::option::Option::as_ref', 'core::option::Option::as_deref', 'core::result::Result::as_ref')


def _view_call(t):
    from .facts import strip_generics
    return strip_generics(t.get('callee_full', '') or t.get('callee', '')) in VIEW_CALLS


def _decision_switch(body, s_bi, adts):
    """does the switch in s_bi test the variant of a local whose type is a fieldless enum of this workspace?"""
    blk = body.blocks[s_bi]
    d = blk['term'].get('discr') or {}
    if d.get('k') not in ('copy', 'move') or d['place']['p']:
        return False
    l = d['place']['l']
    for s in blk['stmts']:
        if s['k'] == 'assign' and not s['place']['p'] and s['place']['l'] == l and s['rv']['k'] == 'discr' and not s['rv']['place']['p']:
            ty = body.locals[s['rv']['place']['l']]
            a = adts.get(ty.split('<', 1)[0].strip())
            return bool(a) and a['kind'] == 'Enum' and all(not v['fields'] for v in a['variants'])
    return False


def thread_jumps(body, adts=None, fold_eq=True):
    """Returns a new Body with determinable switch edges threaded (or the same body if nothing changed)."""
    old = FOLD_EQ[0]
    FOLD_EQ[0] = fold_eq
    try:
        return _thread_jumps(body, adts)
    finally:
        FOLD_EQ[0] = old


def _thread_jumps(body, adts=None):
    if adts is None:
        adts = {}
        cr = body.crate
        for c in [cr] + list(getattr(cr, 'siblings', []) or []):
            if c is not None:
                adts.update(c.adts)
    j = None
    cur = fold_constants(body, adts)
    changed_any = cur is not body
    for _ in range(MAX_ROUNDS):
        blocks = cur.blocks
        n = len(blocks)
        preds = {i: [] for i in range(n)}
        for i in range(n):
            for s in cur.succs(i, True):
                preds[s].append(i)
        plan = None
        for s_bi in range(n):
            if blocks[s_bi]['term']['k'] != 'switch' or blocks[s_bi]['cleanup'] or not _pure(blocks[s_bi]):
                continue
            # chains ending in s_bi: [d, g1.., s_bi] where g* are goto-only blocks (may have statements)
            stack = [[s_bi]]
            while stack and plan is None:
                ch = stack.pop()
                head = ch[0]
                for p in preds[head]:
                    if p in ch or blocks[p]['cleanup']:
                        continue
                    tp = blocks[p]['term']
                    # p must reach head on a plain edge
                    if tp['k'] == 'goto' and _pure(blocks[p]):
                        chain = [p] + ch
                        val = _resolve(cur, chain, s_bi, adts)
                        if val is not None:
                            tgt = _target_for(blocks[s_bi]['term'], val)
                            # threading is useful only if the chain's tail is shared (head has other preds) or S has
                            # several targets
                            plan = (p, ch, tgt)
                            break
                        if len(chain) <= MAX_CHAIN or (len(chain) <= MAX_CHAIN_DECISION and _decision_switch(cur, s_bi, adts)):
                            stack.append(chain)
                    elif tp['k'] == 'call' and tp.get('target') == head and _view_call(tp) and _pure(blocks[p]) and len(ch) < MAX_CHAIN:
                        # a block ending in a side-effect-free view call of std (`opt.as_ref()`): may sit in the middle of a
                        # chain; its copy keeps the call
                        chain = [p] + ch
                        val = _resolve(cur, chain, s_bi, adts)
                        if val is not None:
                            plan = (p, ch, _target_for(blocks[s_bi]['term'], val))
                            break
                        stack.append(chain)
                    elif tp['k'] == 'switch' and p != s_bi and _pure(blocks[p]) and len(ch) <= MAX_CHAIN and len(preds[head]) > 1:
                        # correlated switches: the chain is entered over the one edge of an earlier switch on discr(L); on
                        # that edge L's variant is known, so a later switch on (a moved copy of) L is decided
                        hits = [v_ for v_, tb_ in tp['targets'] if tb_ == head]
                        if len(hits) == 1 and tp['otherwise'] != head:
                            dl = tp['discr']['place']['l'] if tp['discr'].get('k') in ('copy', 'move') and not tp['discr']['place']['p'] else None
                            src = None
                            for s_ in blocks[p]['stmts']:
                                if s_['k'] == 'assign' and not s_['place']['p'] and s_['place']['l'] == dl and s_['rv']['k'] == 'discr' and not s_['rv']['place']['p']:
                                    src = s_['rv']['place']['l']
                            if src is not None:
                                try:
                                    val = _resolve(cur, ch, s_bi, adts, seed=(src, ('discr', int(hits[0]))))
                                except ValueError:
                                    val = None
                                if val is not None:
                                    tgt = _target_for(blocks[s_bi]['term'], val)
                                    plan = (p, ch, tgt, head)
                                    break
                    elif tp['k'] in ('call', 'drop', 'assert') and tp.get('target') == head and len(ch) <= MAX_CHAIN and len(preds[head]) > 1:
                        # value may be determined by statements of the chain blocks only (e.g. drop flags set in head)
                        val = _resolve(cur, ch, s_bi, adts) if len(ch) > 1 else None
                        if val is not None and len(preds[ch[0]]) >= 1:
                            tgt = _target_for(blocks[s_bi]['term'], val)
                            plan = (p, ch, tgt)
                            break
            if plan is not None:
                break
        if plan is None:
            break
        sw_head = plan[3] if len(plan) == 4 else None
        p, ch, tgt = plan[:3]
        # does threading change anything? if ch[0] has a single pred and S's resolved target equals its only feasible
        # edge we still simplify: rewrite
        if j is None:
            j = copy.deepcopy(cur.j)
        else:
            j = copy.deepcopy(cur.j)
        nb = j['blocks']
        new_ids = []
        for k, bi in enumerate(ch):
            c = copy.deepcopy(nb[bi])
            new_ids.append(len(nb))
            nb.append(c)
        for k, bi in enumerate(ch):
            c = nb[new_ids[k]]
            if k + 1 < len(ch) and c['term']['k'] == 'call':
                c['term']['target'] = new_ids[k + 1]
            elif k + 1 < len(ch):
                c['term'] = {'k': 'goto', 'target': new_ids[k + 1]}
            else:
                c['term'] = {'k': 'goto', 'target': tgt, 'threaded': True, 'from_switch': ch[-1]}
        # redirect p's edge ch[0] -> new_ids[0]
        tp = nb[p]['term']
        if tp['k'] == 'switch':
            tp['targets'] = [[v_, (new_ids[0] if tb_ == sw_head else tb_)] for v_, tb_ in tp['targets']]
        elif tp['k'] == 'goto':
            tp['target'] = new_ids[0]
        else:
            tp['target'] = new_ids[0]
        nbody = Body(j, cur.crate)
        nbody.inlined = getattr(cur, 'inlined', None)
        cur = nbody
        changed_any = True
        if len(nb) > 4000:
            break
    if changed_any:
        # threading changed who reaches what: a switch that now has only ways in on which its scrutinee is one known value
        # (the other ways were redirected) is decided as well
        try:
            cur2 = fold_constants(cur, adts)
            if cur2 is not cur:
                cur = cur2
        except Exception:
            pass
    if changed_any:
        # blocks that became unreachable must not be seen by rules that enumerate call sites / stores
        seen = set()
        st = [0]
        while st:
            b = st.pop()
            if b in seen:
                continue
            seen.add(b)
            st.extend(cur.succs(b, True))
        j = copy.deepcopy(cur.j)
        for i, blk in enumerate(j['blocks']):
            if i not in seen:
                blk['stmts'] = []
                blk['term'] = {'k': 'unreachable'}
                blk['cleanup'] = True
                blk['dead'] = True
        nbody = Body(j, cur.crate)
        nbody.inlined = getattr(cur, 'inlined', None)
        cur = nbody
    return cur
