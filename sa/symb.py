"""Symbolic model of the std Result/Option combinators and of closure / local-function application on terms.

split_cases(t) -> [(assumptions, leaf)] : expands combinator calls (`map`, `map_err`, `ok_or_else`, `and_then`, ...) whose
subject's variant is not known into one case per variant, recording the assumption (subject, variant).  Leaves are
combinator-free terms (adt Ok/Err/Some/None aggregates, payload projections, opaque calls).
"""
from .terms import norm, field_of, payload_of, walk, KINDS, Terms
from .facts import strip_generics

import threading


class _Reg(threading.local):
    crates = ()


_REG = _Reg()


class _RegView(dict):
    def __getitem__(self, k):
        return list(_REG.crates)


REG = _RegView()


def set_crates(crates):
    _REG.crates = tuple(crates)
    _REG.ret_memo = {}

KINDS.update({'apply'})

RES = 'core::result::Result'
OPT = 'core::option::Option'


def _ok(v):
    return ('adt', RES, 'Ok', (('0', v),))


def _err(v):
    return ('adt', RES, 'Err', (('0', v),))


def _some(v):
    return ('adt', OPT, 'Some', (('0', v),))


_NONE = ('adt', OPT, 'None', ())

# combinator -> (subject kind, handler(variant, payload, extra args) -> term)
COMB = {
    RES + '::map': ('R', lambda v, p, a: _ok(apply(a[0], (p,))) if v == 'Ok' else _err(p)),
    RES + '::map_err': ('R', lambda v, p, a: _ok(p) if v == 'Ok' else _err(apply(a[0], (p,)))),
    RES + '::and_then': ('R', lambda v, p, a: apply(a[0], (p,)) if v == 'Ok' else _err(p)),
    RES + '::or_else': ('R', lambda v, p, a: _ok(p) if v == 'Ok' else apply(a[0], (p,))),
    RES + '::ok': ('R', lambda v, p, a: _some(p) if v == 'Ok' else _NONE),
    RES + '::err': ('R', lambda v, p, a: _NONE if v == 'Ok' else _some(p)),
    RES + '::unwrap_or': ('R', lambda v, p, a: p if v == 'Ok' else a[0]),
    RES + '::unwrap_or_else': ('R', lambda v, p, a: p if v == 'Ok' else apply(a[0], (p,))),
    RES + '::unwrap_or_default': ('R', lambda v, p, a: p if v == 'Ok' else ('default',)),
    OPT + '::ok_or': ('O', lambda v, p, a: _ok(p) if v == 'Some' else _err(a[0])),
    OPT + '::ok_or_else': ('O', lambda v, p, a: _ok(p) if v == 'Some' else _err(apply(a[0], ()))),
    OPT + '::map': ('O', lambda v, p, a: _some(apply(a[0], (p,))) if v == 'Some' else _NONE),
    OPT + '::map_or': ('O', lambda v, p, a: apply(a[1], (p,)) if v == 'Some' else a[0]),
    OPT + '::map_or_else': ('O', lambda v, p, a: apply(a[1], (p,)) if v == 'Some' else apply(a[0], ())),
    OPT + '::and_then': ('O', lambda v, p, a: apply(a[0], (p,)) if v == 'Some' else _NONE),
    OPT + '::flatten': ('O', lambda v, p, a: p if v == 'Some' else _NONE),
    OPT + '::unwrap_or': ('O', lambda v, p, a: p if v == 'Some' else a[0]),
    OPT + '::unwrap_or_else': ('O', lambda v, p, a: p if v == 'Some' else apply(a[0], ())),
    OPT + '::or': ('O', lambda v, p, a: _some(p) if v == 'Some' else a[0]),
    OPT + '::filter': None,
}
VARIANTS = {'R': ('Ok', 'Err'), 'O': ('Some', 'None')}
KINDS.add('default')


def _body(path):
    for c in REG['crates']:
        b = c.bodies.get(path)
        if b is not None:
            return b
        for b in c.all_bodies:
            if strip_generics(b.path) == path:
                return b
    return None


def _variant_ctor(path):
    """'cadence::builder::MetricValue::Unsigned' -> (adt path, variant) if it names an enum variant / tuple struct"""
    if path in (RES + '::Ok', RES + '::Err'):
        return RES, path.rsplit('::', 1)[1]
    if path == OPT + '::Some':
        return OPT, 'Some'
    head, _, last = path.rpartition('::')
    for c in REG['crates']:
        a = c.adts.get(head)
        if a and any(v['name'] == last for v in a['variants']):
            return head, last
        a = c.adts.get(path)
        if a and a['kind'] == 'Struct':
            return path, a['variants'][0]['name']
    return None


def subst(t, mapping):
    """replace sub-terms by mapping (dict term->term); bottom-up"""
    if not isinstance(t, tuple) or not t:
        return t
    if t in mapping:
        return mapping[t]
    return tuple(subst(x, mapping) if isinstance(x, tuple) else x for x in t)




def body_ret(body):
    """normalised return term of a body in terms of its params (phi over returns)"""
    key_body = body
    memo = getattr(_REG, 'ret_memo', None)
    if memo is None:
        memo = _REG.ret_memo = {}
    if body.path in memo and memo[body.path][0] is body:
        return memo[body.path][1]
    from .inline import inline, local_picker
    if body.crate is not None and not getattr(body, 'inlined', None):
        try:
            body = inline(body.crate, body, local_picker(body.crate))
        except Exception:
            pass
    T = Terms(body)
    outs = []
    for bi, blk in enumerate(body.blocks):
        if blk['term']['k'] == 'return' and not blk['cleanup']:
            t = norm(T.local_term(0, bi, len(blk['stmts'])))
            if t not in outs:
                outs.append(t)
    r = outs[0] if len(outs) == 1 else ('phi', tuple(outs))
    memo[key_body.path] = (key_body, r)
    return r


def apply(f, args):
    """application of a function-valued term to argument terms"""
    f0 = f
    while f[0] in ('ref', 'unsize', 'autoderef'):
        f = f[1]
    if f[0] == 'fn':
        vc = _variant_ctor(f[1])
        if vc is not None:
            return ('adt', vc[0], vc[1], tuple((str(i), a) for i, a in enumerate(args)))
        b = _body(f[1])
        if b is not None and len(b.blocks) <= 40:
            r = body_ret(b)
            m = {('param', i + 1): a for i, a in enumerate(args)}
            return norm(subst(r, m))
        if f[1].endswith('as core::convert::From>::from') or f[1].endswith('as core::convert::Into>::into'):
            return ('conv', args[0]) if len(args) == 1 else ('call', f[1], tuple(args), None)
        return ('call', f[1], tuple(args), None)
    if f[0] == 'closure':
        b = _body(f[1])
        if b is not None and len(b.blocks) <= 60:
            r = body_ret(b)
            m = {}
            for i, a in enumerate(args):
                m[('param', i + 2)] = a
            caps = dict(f[2])
            env_by_ref = ('deref', ('param', 1))
            for name, val in caps.items():
                m[('field', env_by_ref, name)] = val
                m[('field', ('param', 1), name)] = val
            return norm(subst(r, m))
    return ('apply', f0, tuple(args))


def _variant_of(s):
    if s[0] == 'adt' and s[1] in (RES, OPT):
        return s[2]
    return None


def split_cases(t, depth=0):
    """[(assumptions: tuple of (subject, variant), leaf term)]"""
    t = norm(t)
    if depth > 12:
        return [((), t)]
    if t[0] == 'phi':
        out = []
        for x in t[1]:
            for c in split_cases(x, depth + 1):
                if c not in out:
                    out.append(c)
        return out
    if t[0] == 'call' and isinstance(t[1], str) and t[1] in COMB and COMB[t[1]] is not None and t[2]:
        kind, fn = COMB[t[1]]
        out = []
        for asm, s in split_cases(t[2][0], depth + 1):
            v = _variant_of(s)
            if v is not None:
                if v not in VARIANTS[kind]:
                    out.append((asm, ('call', t[1], (s,) + tuple(t[2][1:]), t[3])))
                    continue
                p = dict(s[3]).get('0') if s[3] else None
                r = fn(v, p, t[2][1:])
                for asm2, leaf in split_cases(r, depth + 1):
                    out.append((asm + asm2, leaf))
            else:
                for v in VARIANTS[kind]:
                    if any(a_[0] == s and a_[1] != v for a_ in asm):
                        continue
                    p = field_of(payload_of(s, v), '0', 0)
                    r = fn(v, p, t[2][1:])
                    for asm2, leaf in split_cases(r, depth + 1):
                        out.append((asm + ((s, v),) + asm2, leaf))
        return out
    if t[0] == 'call' and isinstance(t[1], str) and t[1] == 'core::hint::must_use' and len(t[2]) == 1:
        return split_cases(t[2][0], depth + 1)
    return [((), t)]


def cases_by(t, subject):
    """{variant: [leaf terms]} for cases that assume something about `subject`; key None for unconditional leaves"""
    out = {}
    for asm, leaf in split_cases(t):
        v = None
        for s, var in asm:
            if s == subject:
                v = var
        out.setdefault(v, []).append(leaf)
    return out


def has_combinators(t):
    return any(x[0] == 'call' and isinstance(x[1], str) and x[1] in COMB for x in walk(t))
