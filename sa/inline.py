"""CFG-level inlining of crate-local callees, so that rules see events where a helper is *called*.

inline(crate, body, pick) returns a synthetic Body (same JSON shape).  `pick(call_term, depth, stack)` returns the
Body to splice for that call, or None.  Recursion is cut by a stack check and a depth bound.
"""
import copy
from .facts import Body
from .facts import strip_generics as _sg


def _shift_place(p, loff):
    q = {'l': p['l'] + loff, 'p': []}
    for e in p['p']:
        if e[0] == 'index':
            q['p'].append(['index', e[1] + loff])
        else:
            q['p'].append(e)
    return q


def _shift_operand(o, loff):
    if o is None:
        return o
    if o['k'] in ('copy', 'move'):
        n = dict(o)
        n['place'] = _shift_place(o['place'], loff)
        return n
    return o


def _shift_rv(rv, loff):
    n = dict(rv)
    for key in ('op', 'a', 'b'):
        if key in n and isinstance(n[key], dict) and 'k' in n[key]:
            n[key] = _shift_operand(n[key], loff)
    if 'place' in n:
        n['place'] = _shift_place(n['place'], loff)
    if 'ops' in n:
        n['ops'] = [_shift_operand(x, loff) for x in n['ops']]
    return n


def _shift_block(b, loff, boff, unwind_to, frame):
    nb = {'cleanup': b['cleanup'], 'stmts': [], 'frame': frame}
    for s in b['stmts']:
        ns = dict(s)
        if s['k'] == 'assign':
            ns['place'] = _shift_place(s['place'], loff)
            ns['rv'] = _shift_rv(s['rv'], loff)
        elif s['k'] == 'setdiscr':
            ns['place'] = _shift_place(s['place'], loff)
        elif s['k'] == 'dead':
            ns['l'] = s['l'] + loff
        nb['stmts'].append(ns)
    t = dict(b['term'])
    k = t['k']

    def uw(u):
        if isinstance(u, int):
            return u + boff
        if u == 'continue' and isinstance(unwind_to, int):
            return unwind_to
        return u

    if k == 'goto':
        t['target'] = t['target'] + boff
    elif k == 'switch':
        t['discr'] = _shift_operand(t['discr'], loff)
        t['targets'] = [[v, tb + boff] for v, tb in t['targets']]
        t['otherwise'] = t['otherwise'] + boff
    elif k == 'call':
        t['func'] = _shift_operand(t['func'], loff)
        t['args'] = [_shift_operand(a, loff) for a in t['args']]
        t['dest'] = _shift_place(t['dest'], loff)
        if t['target'] is not None:
            t['target'] = t['target'] + boff
        t['unwind'] = uw(t['unwind'])
    elif k == 'drop':
        t['place'] = _shift_place(t['place'], loff)
        t['target'] = t['target'] + boff
        t['unwind'] = uw(t['unwind'])
    elif k == 'assert':
        t['cond'] = _shift_operand(t['cond'], loff)
        t['msg_ops'] = [_shift_operand(a, loff) for a in t['msg_ops']]
        t['target'] = t['target'] + boff
        t['unwind'] = uw(t['unwind'])
    nb['term'] = t
    return nb


def inline(crate, body, pick, max_depth=8, _closure_round=0):
    root = copy.deepcopy(body.j)
    blocks = root['blocks']
    locals_ = list(root['locals'])
    for b in blocks:
        b.setdefault('frame', ())
    work = [(i, 0, (body.path,)) for i in range(len(blocks))]
    inlined = []
    while work:
        bi, depth, stack = work.pop()
        t = blocks[bi]['term']
        if t['k'] != 'call' or depth >= max_depth:
            continue
        callee = pick(t, depth, stack)
        if callee is None or callee.path in stack:
            continue
        cj = callee.j
        loff = len(locals_)
        boff = len(blocks)
        locals_.extend(cj['locals'])
        frame = blocks[bi].get('frame', ()) + ((callee.path, bi),)
        unwind_to = t['unwind']
        new = [_shift_block(b, loff, boff, unwind_to, frame) for b in cj['blocks']]
        # a default method of a local trait, called for a known Self: remember Self for the trait calls inside it
        if cj.get('impl_self') is None and callee.def_kind == 'AssocFn':
            self_ty = None
            cf0 = t.get('callee_full', '')
            if cf0.startswith('<Self as ') and t.get('self_ty'):
                self_ty = t['self_ty']
            elif cf0.startswith('<') and t.get('callee_args'):
                self_ty = t['callee_args'][0]
            if self_ty and self_ty != 'Self':
                for nb_ in new:
                    tt_ = nb_['term']
                    if tt_['k'] == 'call' and tt_.get('callee_full', '').startswith('<Self as '):
                        tt_['self_ty'] = self_ty
        # a generic callee inlined at a call site that names its type arguments: trait calls on a type parameter inside it
        # (`T::from(..)` in `fn rendered<T: From<String>>(..) -> T`) are calls of the argument type's impl
        gn = cj.get('generic_names') or []
        ca = t.get('callee_args') or []
        if gn and len(gn) == len(ca):
            sub = {n_: a_ for n_, a_ in zip(gn, ca) if _TYPARAM.match(n_) and n_ != a_ and not _TYPARAM.match(a_)}
            if sub:
                for nb_ in new:
                    if nb_['term']['k'] == 'call':
                        _subst_call(crate, nb_['term'], sub)
        # rewrite returns / resumes
        for nb in new:
            tk = nb['term']['k']
            if tk == 'return':
                nb['stmts'].append({'k': 'assign', 'place': t['dest'],
                                    'rv': {'k': 'use', 'op': {'k': 'move', 'place': {'l': loff, 'p': []}}},
                                    'at': nb['term'].get('at'), 'synthetic': 'ret'})
                if t['target'] is None:
                    nb['term'] = {'k': 'unreachable'}
                else:
                    nb['term'] = {'k': 'goto', 'target': t['target'], 'inl_ret': callee.path}
            elif tk == 'resume':
                if isinstance(unwind_to, int):
                    nb['term'] = {'k': 'goto', 'target': unwind_to, 'inl_unwind': callee.path}
        # bind parameters
        args = t['args']
        binds = []
        is_closure_call = callee.def_kind == 'Closure' and len(args) == 2 and cj['arg_count'] != 2
        if callee.def_kind == 'Closure' and len(args) == 2:
            # rust-call ABI: (closure, (a, b, ..)) -> _1 = closure, _2.. = tuple fields
            binds.append((loff + 1, args[0]))
            tup = args[1]
            for i in range(cj['arg_count'] - 1):
                if tup['k'] in ('copy', 'move'):
                    fp = {'l': tup['place']['l'], 'p': tup['place']['p'] + [['field', i, None, '?']]}
                    binds.append((loff + 2 + i, {'k': tup['k'], 'place': fp}))
                else:
                    binds.append((loff + 2 + i, tup))
        else:
            for i, a in enumerate(args):
                binds.append((loff + 1 + i, a))
        for l, a in binds:
            blocks[bi]['stmts'].append({'k': 'assign', 'place': {'l': l, 'p': []},
                                        'rv': {'k': 'use', 'op': a}, 'at': t.get('at'), 'synthetic': 'arg'})
        blocks[bi]['term'] = {'k': 'goto', 'target': boff, 'inl_call': callee.path, 'at': t.get('at'),
                              'orig_call': t}
        blocks.extend(new)
        inlined.append((callee.path, bi, depth))
        for i in range(boff, len(blocks)):
            work.append((i, depth + 1, stack + (callee.path,)))
    root['locals'] = locals_
    nb = Body(root, crate)
    nb.inlined = list(getattr(body, 'inlined', None) or []) + inlined
    if _closure_round < 3:
        nb2 = _inline_closure_calls(crate, nb, pick, max_depth, _closure_round)
        if nb2 is not None:
            return nb2
    return nb


def _inline_closure_calls(crate, body, pick, max_depth, rnd):
    """Calls `<F as FnOnce/FnMut/Fn>::call*(f, (args,))` where f is (a reference to) a closure literal visible in the
    already inlined body: splice the closure body (closures handed to private helpers, e.g. `self.update(|f| ..)`)."""
    from .terms import Terms, norm
    T = None
    targets = {}
    devirt = {}
    ptr_calls = {}
    for bi, blk in enumerate(body.blocks):
        t = blk['term']
        if t['k'] != 'call' or blk['cleanup']:
            continue
        cf = t.get('callee', '')
        if not cf and isinstance(t.get('func'), dict) and t['func'].get('k') in ('copy', 'move'):
            # a call through a function pointer: devirtualise when the pointer is an element of a constant table
            if T is None:
                T = Terms(body)
            fp = norm(T.operand_term(t['func'], bi, len(blk['stmts'])))
            while fp[0] in ('ref', 'deref', 'load'):
                fp = fp[1]
            el = None
            if fp[0] == 'index' and fp[1][0] == 'const' and fp[1][3] and fp[2][0] == 'const':
                from .desugar import const_array_ops
                ops = const_array_ops(crate, fp[1][3])
                try:
                    el = ops[int(fp[2][2])] if ops is not None else None
                except (ValueError, IndexError, TypeError):
                    el = None
            elif fp[0] in ('cast', 'fn'):
                # a function item handed to an inlined helper as a plain `fn(..) -> ..` pointer (pack(&self, Duration::as_millis))
                el = fp
            while el is not None and el[0] == 'cast':
                el = el[4]
            if el is not None and el[0] == 'fn':
                ptr_calls[bi] = el[1]
            continue
        if not (cf.startswith('core::ops::function::Fn') and t.get('callee_name') in ('call', 'call_mut', 'call_once')):
            continue
        if t.get('resolved_kind') == 'item' and t.get('resolved') in crate.bodies and crate.bodies[t['resolved']].def_kind == 'Closure':
            targets[bi] = crate.bodies[t['resolved']]
            continue
        if T is None:
            T = Terms(body)
        f = norm(T.operand_term(t['args'][0], bi, len(blk['stmts'])))
        while f[0] in ('ref', 'deref', 'unsize', 'mutated'):
            f = f[1]
        if f[0] == 'closure' and f[1] in crate.bodies:
            targets[bi] = crate.bodies[f[1]]
        elif f[0] == 'fn' and len(t['args']) == 2:
            # a function item passed as a value (`unit: impl Fn(&Duration) -> u128` called with Duration::as_millis):
            # the indirect call is a direct call of that function
            tup = norm(T.operand_term(t['args'][1], bi, len(blk['stmts'])))
            devirt[bi] = (f[1], tup)
    if ptr_calls:
        j2 = copy.deepcopy(body.j)
        for bi, path in ptr_calls.items():
            tt = j2['blocks'][bi]['term']
            local = [b for b in crate.all_bodies if _sg(b.path) == path and b.def_kind in ('Fn', 'AssocFn')]
            tt['callee'] = path
            tt['callee_full'] = path
            tt['callee_name'] = path.rsplit('::', 1)[-1]
            tt['callee_args'] = []
            tt['devirtualised'] = True
            tt['func'] = {'k': 'const', 'ty': '?', 'fn': path, 'fn_full': path, 'fn_args': [], 'zst': True, 'repr': path}
            tt['resolved'] = local[0].path if len(local) == 1 else path
            tt['resolved_full'] = tt['resolved']
            tt['resolved_local'] = len(local) == 1
            tt['resolved_kind'] = 'item'
        nb0 = Body(j2, crate)
        nb0.inlined = getattr(body, 'inlined', None)
        return inline(crate, nb0, pick, max_depth, _closure_round=rnd + 1)
    if devirt:
        j2 = copy.deepcopy(body.j)
        changed = False
        for bi, (path, tup) in devirt.items():
            tt = j2['blocks'][bi]['term']
            targ = tt['args'][1]
            n_args = len(tup[1]) if tup[0] == 'tuple' else None
            if n_args is None or targ.get('k') not in ('copy', 'move'):
                continue
            new_args = [{'k': targ['k'], 'place': {'l': targ['place']['l'], 'p': targ['place']['p'] + [['field', i, None, '?']]}} for i in range(n_args)]
            local = [b for b in crate.all_bodies if _sg(b.path) == path and b.def_kind in ('Fn', 'AssocFn')]
            tt['args'] = new_args
            tt['callee'] = path
            tt['callee_full'] = path
            tt['callee_name'] = path.rsplit('::', 1)[-1]
            tt['callee_args'] = []
            tt['devirtualised'] = True
            if len(local) == 1:
                tt['resolved'] = local[0].path
                tt['resolved_full'] = local[0].path
                tt['resolved_local'] = True
                tt['resolved_kind'] = 'item'
            else:
                tt['resolved'] = path
                tt['resolved_local'] = False
                tt['resolved_kind'] = 'item'
            changed = True
        if changed:
            nb0 = Body(j2, crate)
            nb0.inlined = getattr(body, 'inlined', None)
            if not targets:
                return inline(crate, nb0, pick, max_depth, _closure_round=rnd + 1)
            body = nb0
    if not targets:
        return None

    def pick2(t, depth, stack):
        for bi, cb in targets.items():
            if body.blocks[bi]['term'] is t or (t.get('at') == body.blocks[bi]['term'].get('at') and t.get('dest') == body.blocks[bi]['term'].get('dest')
                                                 and t.get('callee_full') == body.blocks[bi]['term'].get('callee_full')):
                return cb
        return pick(t, depth, stack)
    return inline(crate, body, pick2, max_depth, _closure_round=rnd + 1)


import re as _re
_TYPARAM = _re.compile(r'^[A-Z][A-Za-z0-9_]*$')
_QCALL = _re.compile(r'^<([A-Z][A-Za-z0-9_]*) as (.+)>::([A-Za-z0-9_]+)$')


def _subst_call(crate, tt, sub):
    """tt: a call terminator copied from a generic callee; sub: type parameter name -> type argument at the call site"""
    ca = tt.get('callee_args')
    if ca:
        tt['callee_args'] = [sub.get(a, a) for a in ca]
    m = _QCALL.match(tt.get('callee_full', '') or '')
    if not m or m.group(1) not in sub or tt.get('resolved_local'):
        return
    self_ty = sub[m.group(1)]
    trait, meth = m.group(2), m.group(3)
    cands = [b for b in crate.all_bodies if b.name == meth and b.impl_trait and _sg(b.impl_trait) == _sg(trait) and
             (b.impl_self or '').replace(' ', '') == self_ty.replace(' ', '') and b.def_kind == 'AssocFn']
    if len(cands) != 1:
        return
    b = cands[0]
    tt['callee_full'] = '<%s as %s>::%s' % (self_ty, trait, meth)
    tt['resolved'] = b.path
    tt['resolved_full'] = b.path
    tt['resolved_local'] = True
    tt['resolved_kind'] = 'item'
    tt['devirtualised'] = True


def local_picker(crate, only=None, never=None):
    """pick(): inline every call that statically resolves to a body of this crate (optionally filtered)."""
    def pick(t, depth, stack):
        r = t.get('resolved')
        if (not r) and t.get('self_ty') and t.get('callee_full', '').startswith('<Self as '):
            # `<Self as Trait>::m` inside an inlined default method, Self known from the call site
            from .facts import strip_generics, type_head
            cf = strip_generics(t['callee_full'])
            trait, _, name = cf[len('<Self as '):].partition('>::')
            hits = [b for b in crate.all_bodies if b.name == name and b.impl_trait == trait and b.impl_self and
                    type_head(b.impl_self) == type_head(t['self_ty'])]
            if not hits:
                hits = [b for b in crate.all_bodies if b.impl_self is None and strip_generics(b.path) == trait + '::' + name]
            if len(hits) == 1:
                b = hits[0]
                if (only is None or only(b)) and (never is None or not never(b)):
                    return b
            return None
        if (not r or t.get('resolved_kind') != 'item') and t.get('callee_trait') in getattr(crate, 'traits', {}):
            # a call through a *private* trait of this crate that has exactly one impl (a blanket impl for closures, a helper
            # trait with one implementor): dynamic or generic, it can only run that impl's method
            tr = crate.traits[t['callee_trait']]
            if tr.get('reachable') is False:
                ims = [i for i in crate.impls_of(t['callee_trait']) if not i.get('negative')]
                if len(ims) == 1:
                    its = [it for it in ims[0]['items'] if it['name'] == t.get('callee_name')]
                    b = crate.bodies.get(its[0]['path']) if len(its) == 1 else None
                    if b is not None and (only is None or only(b)) and (never is None or not never(b)):
                        return b
        if not r or not t.get('resolved_local'):
            return None
        if t.get('resolved_kind') != 'item':
            return None
        b = crate.bodies.get(r)
        if b is None:
            return None
        if only is not None and not only(b):
            return None
        if never is not None and never(b):
            return None
        return b
    return pick
