"""Decoder for the format_args! template byte code of this toolchain (core/src/fmt/mod.rs, 'Internal representation')."""


class BadTemplate(Exception):
    pass


def decode(bs):
    """bytes -> list of pieces: ('lit', str) | ('ph', default: bool, detail)"""
    bs = list(bs)
    out = []
    i = 0
    n = len(bs)
    implicit = 0
    while i < n:
        c = bs[i]
        if c == 0:
            if i != n - 1:
                raise BadTemplate('terminator before the end')
            return out
        if c < 0x80:
            lit = bytes(bs[i + 1:i + 1 + c])
            if len(lit) != c:
                raise BadTemplate('short literal')
            out.append(('lit', lit.decode('utf-8', 'replace')))
            i += 1 + c
        elif c == 0x80:
            ln = bs[i + 1] | (bs[i + 2] << 8)
            lit = bytes(bs[i + 3:i + 3 + ln])
            out.append(('lit', lit.decode('utf-8', 'replace')))
            i += 3 + ln
        elif c == 0xC0:
            out.append(('ph', True, {'arg': implicit}))
            implicit += 1
            i += 1
        elif c > 0xC0:
            flags = c & 0x3F
            j = i + 1
            d = {}
            if flags & 1:
                d['flags'] = bs[j] | (bs[j + 1] << 8) | (bs[j + 2] << 16) | (bs[j + 3] << 24)
                j += 4
            if flags & 2:
                d['width'] = bs[j] | (bs[j + 1] << 8)
                j += 2
            if flags & 4:
                d['precision'] = bs[j] | (bs[j + 1] << 8)
                j += 2
            if flags & 8:
                d['arg'] = bs[j] | (bs[j + 1] << 8)
                j += 2
                implicit = d['arg'] + 1
            else:
                d['arg'] = implicit
                implicit += 1
            default = not (flags & (1 | 2 | 4 | 16 | 32))
            out.append(('ph', default, d))
            i = j
        else:
            raise BadTemplate('byte 0x%02x' % c)
    raise BadTemplate('missing terminator')


def skeleton(pieces):
    """'{}{}:{}|{}' style rendering; non-default placeholders as {!}"""
    s = ''
    for p in pieces:
        if p[0] == 'lit':
            s += p[1].replace('{', '{{').replace('}', '}}')
        else:
            s += '{}' if p[1] else '{!}'
    return s
