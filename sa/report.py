"""Collects obligations (rule instances) and their verdicts for one property run."""


class Report:
    def __init__(self, pid):
        self.pid = pid
        self.obligations = []       # dicts: rule, instance, ok, where, msg, kind
        self.notes = []
        self.functions = set()
        self.call_sites = 0
        self.trusted = []
        self.floors = []

    # -- coverage bookkeeping
    def analysed(self, body):
        self.functions.add(body.path if hasattr(body, 'path') else str(body))

    def sites(self, n=1):
        self.call_sites += n

    # -- verdicts
    def ob(self, rule, instance, ok, where='', msg='', kind='violated'):
        self.obligations.append({'rule': rule, 'instance': instance, 'ok': bool(ok), 'where': where, 'msg': msg,
                                 'kind': None if ok else kind})
        return ok

    def good(self, rule, instance, where='', msg=''):
        return self.ob(rule, instance, True, where, msg)

    def bad(self, rule, instance, where='', msg='', kind='violated'):
        return self.ob(rule, instance, False, where, msg, kind)

    def anchor_lost(self, rule, what, where=''):
        return self.ob(rule, 'anchor:' + what, False, where, 'anchor not found: ' + what, kind='anchor-lost')

    def unknown(self, rule, instance, where='', msg=''):
        return self.ob(rule, instance, False, where, 'shape not recognised: ' + msg, kind='shape-unknown')

    def floor(self, rule, what, found, minimum):
        """Instance floor: a matcher that finds fewer instances than counted by hand is broken -> fail closed."""
        self.floors.append({'rule': rule, 'what': what, 'found': found, 'min': minimum})
        if found < minimum:
            self.ob(rule, 'floor:' + what, False, '', '%s: found %d instance(s), floor is %d' % (what, found, minimum),
                    kind='anchor-lost')
            return False
        return True

    def note(self, text):
        self.notes.append(text)

    def trust(self, text):
        if text not in self.trusted:
            self.trusted.append(text)

    # -- results
    def violations(self):
        return [o for o in self.obligations if not o['ok']]

    def key(self, o):
        return '%s/%s' % (o['rule'], o['instance'])
