"""CFG-level desugaring of std combinators that take a function: `Result::map(x, f)`, `map_err`, `and_then`, `Option::map`,
`map_or[_else]`, `ok_or_else`, `unwrap_or_else`, `bool::then` ... become an explicit switch on the subject's variant with a
call of `f` on the payload, exactly as their std definitions read.  After that the closure/function can be inlined like any
other callee, so effects inside such closures (a counter increment in `.map(|()| self.stats.incr())`, a cell read in
`flag.then(|| ..)`) are visible to the rules, and `match`/`?`/combinator forms of the same code look alike."""
import copy

from .facts import Body, strip_generics

RES = 'core::result::Result'
OPT = 'core::option::Option'

# name -> (subject kind, variant handled by f, how)   how: see _rewrite
TABLE = {
    RES + '::map': ('R', 'Ok', 'wrap_same'),            # Ok(v) -> Ok(f(v)) ; Err(e) -> Err(e)
    RES + '::map_err': ('R', 'Err', 'wrap_same'),        # Err(e) -> Err(f(e)) ; Ok(v) -> Ok(v)
    RES + '::and_then': ('R', 'Ok', 'flat'),             # Ok(v) -> f(v) ; Err(e) -> Err(e)
    RES + '::or_else': ('R', 'Err', 'flat'),
    RES + '::unwrap_or_else': ('R', 'Err', 'unwrap'),    # Ok(v) -> v ; Err(e) -> f(e)
    RES + '::inspect': ('R', 'Ok', 'inspect'),           # Ok(v) -> { f(&v); Ok(v) } ; Err(e) -> Err(e)
    RES + '::inspect_err': ('R', 'Err', 'inspect'),      # Err(e) -> { f(&e); Err(e) } ; Ok(v) -> Ok(v)
    OPT + '::inspect': ('O', 'Some', 'inspect'),
    OPT + '::map': ('O', 'Some', 'wrap_same'),
    OPT + '::and_then': ('O', 'Some', 'flat'),
    OPT + '::or_else': ('O', 'None', 'flat0'),           # Some(v) -> Some(v) ; None -> f()
    OPT + '::unwrap_or_else': ('O', 'None', 'unwrap0'),  # Some(v) -> v ; None -> f()
    OPT + '::ok_or_else': ('O', 'None', 'okor'),         # Some(v) -> Ok(v) ; None -> Err(f())
    OPT + '::map_or': ('O', 'Some', 'mapor'),            # (x, default, f): Some(v) -> f(v) ; None -> default
    OPT + '::map_or_else': ('O', 'Some', 'maporelse'),   # (x, d, f): Some(v) -> f(v) ; None -> d()
    'core::bool::then': ('B', None, 'then'),             # b.then(f): true -> Some(f()) ; false -> None
}
# std::panic::catch_unwind(f): Ok(f()) when f returns, Err(payload) when it unwinds - the unwind edge of the call of f
# leads back into normal control flow
CATCH = ('std::panic::catch_unwind',)
# combinators without a function argument: (subject kind, how)
PLAIN = {
    OPT + '::flatten': ('O', 'flatten'),                 # Some(x) -> x ; None -> None
    RES + '::ok': ('R', 'ok'),                           # Ok(v) -> Some(v) ; Err(_) -> None
    RES + '::err': ('R', 'err'),                         # Ok(_) -> None ; Err(e) -> Some(e)
    OPT + '::ok_or': ('O', 'ok_or'),                     # Some(v) -> Ok(v) ; None -> Err(arg)
    OPT + '::unwrap_or': ('O', 'unwrap_or'),             # Some(v) -> v ; None -> arg
    RES + '::unwrap_or': ('R', 'unwrap_or'),             # Ok(v) -> v ; Err(_) -> arg
    OPT + '::cloned': ('O', 'cloned'),                   # Some(&v) -> Some(v.clone()) ; None -> None
    OPT + '::copied': ('O', 'copied'),                   # Some(&v) -> Some(*v) ; None -> None
    OPT + '::zip': ('O', 'zip'),                         # (Some(a), Some(b)) -> Some((a, b)) ; otherwise None
}
TESTS = {OPT + '::is_some': ('O', 'Some'), OPT + '::is_none': ('O', 'None'), RES + '::is_ok': ('R', 'Ok'), RES + '::is_err': ('R', 'Err')}
BRANCH = {'<' + RES + ' as core::ops::try_trait::Try>::branch': 'R', '<' + OPT + ' as core::ops::try_trait::Try>::branch': 'O'}
CF = 'core::ops::control_flow::ControlFlow'
VIDX = {'Ok': 0, 'Err': 1, 'None': 0, 'Some': 1}
ADT = {'Ok': RES, 'Err': RES, 'Some': OPT, 'None': OPT}


def _mv(l, proj=None):
    return {'k': 'move', 'place': {'l': l, 'p': proj or []}}


def _assign(l, rv, at):
    return {'k': 'assign', 'place': {'l': l, 'p': []}, 'rv': rv, 'at': at, 'synthetic': 'desugar'}


def _agg(variant, ops):
    return {'k': 'agg', 'ak': 'adt', 'path': ADT[variant], 'args': [], 'variant': variant, 'vidx': VIDX[variant],
            'fields': ['0'] if ops else [], 'ops': ops}


def _payload(l, variant):
    return _mv(l, [['downcast', variant, VIDX[variant]], ['field', 0, '0', '?']])


def desugar(crate, body):
    """Returns a new Body with recognised combinator calls rewritten, or None if nothing was rewritten."""
    from .terms import Terms, norm
    T = None
    plans = []
    npreds = {}
    for bi_ in range(len(body.blocks)):
        if body.blocks[bi_]['cleanup']:
            continue
        for s_ in body.succs(bi_, False):
            npreds[s_] = npreds.get(s_, 0) + 1
    for bi, blk in enumerate(body.blocks):
        t = blk['term']
        if t['k'] != 'call' or blk['cleanup'] or t.get('target') is None:
            continue
        name = strip_generics(t.get('callee_full', ''))
        if name.endswith(' as core::iter::traits::iterator::Iterator>::for_each') and len(t['args']) == 2:
            if T is None:
                T = Terms(body)
            f = norm(T.operand_term(t['args'][1], bi, len(blk['stmts'])))
            while f[0] in ('ref', 'unsize', 'mutated'):
                f = f[1]
            if f[0] in ('closure', 'fn') and t['args'][0].get('k') in ('copy', 'move'):
                # iterating a constant array (a table of function pointers ..): N known elements, in order
                it_t = norm(T.operand_term(t['args'][0], bi, len(blk['stmts'])))
                tbl = _const_table(crate, it_t)
                if tbl is not None:
                    plans.append((bi, name, 'U', tbl, 'unroll'))
                else:
                    plans.append((bi, name, 'L', None, 'for_each'))
            continue
        if name in CATCH and len(t['args']) == 1:
            if T is None:
                T = Terms(body)
            f = norm(T.operand_term(t['args'][0], bi, len(blk['stmts'])))
            wrapped = False
            if f[0] == 'adt' and f[1].endswith('AssertUnwindSafe') and f[3]:
                f = norm(f[3][0][1])
                wrapped = True
            if f[0] == 'closure' and (not wrapped or t['args'][0].get('k') in ('copy', 'move')):
                plans.append((bi, name, 'C', wrapped, 'catch'))
            continue
        if name in BRANCH and len(t['args']) == 1 and npreds is not None and npreds.get(bi, 0) >= 2:
            # `x?` where x was just produced by a (desugared) combinator: the block is a merge point of the arms, make the
            # Ok/Err split explicit so that each arm keeps its own continuation (jump threading does the rest)
            plans.append((bi, name, BRANCH[name], None, 'branch'))
            continue
        if name in TESTS and len(t['args']) == 1 and npreds.get(bi, 0) >= 2:
            # `x.err().is_some()`: a test of the variant of a value that was just produced by a desugared combinator (the block
            # is a merge point of its arms) is written out as the switch it is
            plans.append((bi, name, TESTS[name][0], TESTS[name][1], 'test'))
            continue
        if name in PLAIN:
            kind, how = PLAIN[name]
            if len(t['args']) == (2 if how in ('ok_or', 'unwrap_or', 'zip') else 1):
                plans.append((bi, name, kind, None, how))
            continue
        if name not in TABLE:
            continue
        kind, variant, how = TABLE[name]
        fidx = {'mapor': 2, 'maporelse': 2}.get(how, 1)
        if len(t['args']) <= fidx:
            continue
        if T is None:
            T = Terms(body)
        f = norm(T.operand_term(t['args'][fidx], bi, len(blk['stmts'])))
        g = f
        while g[0] in ('ref', 'unsize', 'mutated'):
            g = g[1]
        if g[0] not in ('closure', 'fn'):
            continue
        if how == 'maporelse':
            d = norm(T.operand_term(t['args'][1], bi, len(blk['stmts'])))
            while d[0] in ('ref', 'unsize', 'mutated'):
                d = d[1]
            if d[0] not in ('closure', 'fn'):
                continue
        plans.append((bi, name, kind, variant, how))
    if not plans:
        return None
    j = copy.deepcopy(body.j)
    blocks = j['blocks']
    locals_ = j['locals']

    def new_local(ty='?'):
        locals_.append(ty)
        return len(locals_) - 1

    def new_block(stmts, term, frame):
        blocks.append({'cleanup': False, 'stmts': stmts, 'term': term, 'frame': frame})
        return len(blocks) - 1

    for bi, name, kind, variant, how in plans:
        blk = blocks[bi]
        t = blk['term']
        at = t.get('at')
        frame = blk.get('frame', ())
        dest, target, unwind = t['dest'], t['target'], t['unwind']
        if kind == 'U':
            # CONST_TABLE.iter().for_each(f)  ==  f(&TABLE[0]); f(&TABLE[1]); ...
            cpath, cty, n_el = variant
            cl = new_local(cty)
            blk['stmts'].append(_assign(cl, {'k': 'use', 'op': {'k': 'const', 'ty': cty, 'val': None, 'path': cpath, 'repr': cpath}}, at))
            fl = new_local('?fn')
            blk['stmts'].append(_assign(fl, {'k': 'use', 'op': t['args'][1]}, at))
            b_exit = new_block([{'k': 'assign', 'place': dest, 'rv': {'k': 'agg', 'ak': 'tuple', 'ops': []}, 'at': at, 'synthetic': 'desugar'}],
                               {'k': 'goto', 'target': target}, frame)
            nxt = b_exit
            for i in reversed(range(n_el)):
                er = new_local('&?elem')
                tup = new_local('(?)')
                unit = new_local('()')
                rfl = new_local('&mut ?fn')
                nxt = new_block([_assign(er, {'k': 'ref', 'bk': 'shared', 'place': {'l': cl, 'p': [['constindex', i]]}}, at),
                                 _assign(tup, {'k': 'agg', 'ak': 'tuple', 'ops': [_mv(er)]}, at),
                                 _assign(rfl, {'k': 'ref', 'bk': 'shared', 'place': {'l': fl, 'p': []}}, at)],
                                {'k': 'call', 'func': {'k': 'const', 'ty': '?', 'fn': 'core::ops::function::FnMut::call_mut',
                                                       'fn_full': '<F as core::ops::function::FnMut<Args>>::call_mut', 'fn_args': [], 'zst': True, 'repr': 'call_mut'},
                                 'callee': 'core::ops::function::FnMut::call_mut', 'callee_full': '<F as core::ops::function::FnMut<Args>>::call_mut',
                                 'callee_args': [], 'callee_local': False, 'callee_name': 'call_mut', 'callee_trait': 'core::ops::function::FnMut',
                                 'resolved_kind': 'unresolved', 'args': [_mv(rfl), _mv(tup)], 'dest': {'l': unit, 'p': []}, 'dest_ty': '()',
                                 'target': nxt, 'unwind': unwind, 'at': at, 'at_root': t.get('at_root')}, frame)
            blk['term'] = {'k': 'goto', 'target': nxt, 'at': at}
            continue
        if kind == 'L':
            # it.for_each(f)  ==  loop { match it.next() { Some(x) => f(x), None => break } }   (std: in order, each once)
            it = new_local('?iter')
            blk['stmts'].append(_assign(it, {'k': 'use', 'op': t['args'][0]}, at))
            fl = new_local('?fn')
            blk['stmts'].append(_assign(fl, {'k': 'use', 'op': t['args'][1]}, at))
            rf = new_local('&mut ?iter')
            opt = new_local(OPT + '<?>')
            d = new_local('isize')
            unit = new_local('()')
            b_exit = new_block([{'k': 'assign', 'place': dest, 'rv': {'k': 'agg', 'ak': 'tuple', 'ops': []}, 'at': at, 'synthetic': 'desugar'}],
                               {'k': 'goto', 'target': target}, frame)
            next_full = t.get('callee_full', '').split('>::for_each')[0] + '>::next'
            b_head = new_block([_assign(rf, {'k': 'ref', 'bk': 'mut', 'place': {'l': it, 'p': []}}, at)], None, frame)
            b_sw = new_block([_assign(d, {'k': 'discr', 'place': {'l': opt, 'p': []}, 'ty': OPT + '<?>'}, at)], None, frame)
            tup = new_local('(?)')
            rfl = new_local('&mut ?fn')
            b_call = new_block([_assign(tup, {'k': 'agg', 'ak': 'tuple', 'ops': [_payload(opt, 'Some')]}, at),
                                _assign(rfl, {'k': 'ref', 'bk': 'shared', 'place': {'l': fl, 'p': []}}, at)],
                               {'k': 'call', 'func': {'k': 'const', 'ty': '?', 'fn': 'core::ops::function::FnMut::call_mut',
                                                      'fn_full': '<F as core::ops::function::FnMut<Args>>::call_mut', 'fn_args': [], 'zst': True, 'repr': 'call_mut'},
                                'callee': 'core::ops::function::FnMut::call_mut', 'callee_full': '<F as core::ops::function::FnMut<Args>>::call_mut',
                                'callee_args': [], 'callee_local': False, 'callee_name': 'call_mut', 'callee_trait': 'core::ops::function::FnMut',
                                'resolved_kind': 'unresolved', 'args': [_mv(rfl), _mv(tup)], 'dest': {'l': unit, 'p': []}, 'dest_ty': '()',
                                'target': b_head, 'unwind': unwind, 'at': at, 'at_root': t.get('at_root')}, frame)
            blocks[b_head]['term'] = {'k': 'call', 'func': {'k': 'const', 'ty': '?', 'fn': 'core::iter::traits::iterator::Iterator::next', 'fn_full': next_full, 'fn_args': [], 'zst': True, 'repr': 'next'},
                                      'callee': 'core::iter::traits::iterator::Iterator::next', 'callee_full': next_full, 'callee_args': t.get('callee_args', [])[:1],
                                      'callee_local': False, 'callee_name': 'next', 'callee_trait': 'core::iter::traits::iterator::Iterator', 'resolved_kind': 'unresolved',
                                      'args': [_mv(rf)], 'dest': {'l': opt, 'p': []}, 'dest_ty': OPT + '<?>', 'target': b_sw, 'unwind': unwind, 'at': at, 'at_root': t.get('at_root')}
            unreach_l = new_block([], {'k': 'unreachable'}, frame)
            blocks[b_sw]['term'] = {'k': 'switch', 'discr': _mv(d), 'discr_ty': 'isize', 'targets': [['0', b_exit], ['1', b_call]], 'otherwise': unreach_l, 'at': at}
            blk['term'] = {'k': 'goto', 'target': b_head, 'at': at}
            continue
        if kind == 'C':
            fop = t['args'][0]
            if variant:     # AssertUnwindSafe(closure): the closure is field 0
                fop = {'k': 'move', 'place': {'l': fop['place']['l'], 'p': fop['place']['p'] + [['field', 0, '0', '?']]}}
            r = new_local()
            b_done = new_block([{'k': 'assign', 'place': dest, 'rv': _agg('Ok', [_mv(r)]), 'at': at, 'synthetic': 'desugar'}],
                               {'k': 'goto', 'target': target}, frame)
            b_caught = new_block([{'k': 'assign', 'place': dest, 'rv': _agg('Err', [{'k': 'const', 'ty': 'alloc::boxed::Box<dyn core::any::Any + Send>', 'val': None, 'repr': 'panic payload'}]),
                                   'at': at, 'synthetic': 'desugar'}], {'k': 'goto', 'target': target, 'caught_unwind': True}, frame)
            tup = new_local('()')
            blocks.append({'cleanup': False, 'frame': frame, 'stmts': [_assign(tup, {'k': 'agg', 'ak': 'tuple', 'ops': []}, at)],
                           'term': {'k': 'call', 'func': {'k': 'const', 'ty': '?', 'fn': 'core::ops::function::FnOnce::call_once',
                                                          'fn_full': '<F as core::ops::function::FnOnce<Args>>::call_once', 'fn_args': [], 'zst': True, 'repr': 'call_once'},
                                    'callee': 'core::ops::function::FnOnce::call_once', 'callee_full': '<F as core::ops::function::FnOnce<Args>>::call_once',
                                    'callee_args': [], 'callee_local': False, 'callee_name': 'call_once', 'callee_trait': 'core::ops::function::FnOnce',
                                    'resolved_kind': 'unresolved', 'args': [fop, _mv(tup)], 'dest': {'l': r, 'p': []}, 'dest_ty': '?',
                                    'target': b_done, 'unwind': b_caught, 'at': at, 'at_root': t.get('at_root'), 'catch_unwind': True}})
            blk['term'] = {'k': 'goto', 'target': len(blocks) - 1, 'at': at}
            continue
        subj = new_local({'R': RES + '<?, ?>', 'O': OPT + '<?>', 'B': 'bool'}[kind])
        blk['stmts'].append(_assign(subj, {'k': 'use', 'op': t['args'][0]}, at))

        def call_f(fop, payload_ops, res_local, then_block):
            """block that calls f(payload...) into res_local and continues at then_block"""
            stm = []
            if fop.get('k') == 'const' and 'fn' in fop and _variant_ctor(crate, strip_generics(fop['fn'])):
                adt, var, vidx = _variant_ctor(crate, strip_generics(fop['fn']))
                stm.append(_assign(res_local, {'k': 'agg', 'ak': 'adt', 'path': adt, 'args': [], 'variant': var, 'vidx': vidx,
                                               'fields': [str(i) for i in range(len(payload_ops))], 'ops': payload_ops}, at))
                return new_block(stm, {'k': 'goto', 'target': then_block}, frame)
            if fop.get('k') == 'const' and 'fn' in fop:
                path = fop['fn']
                term = {'k': 'call', 'func': fop, 'callee': path, 'callee_full': fop.get('fn_full', path), 'callee_args': fop.get('fn_args', []),
                        'callee_local': path in crate.bodies, 'callee_name': strip_generics(path).rsplit('::', 1)[-1],
                        'resolved_kind': 'item' if path in crate.bodies else 'unresolved',
                        'args': payload_ops, 'dest': {'l': res_local, 'p': []}, 'dest_ty': '?', 'target': then_block, 'unwind': unwind,
                        'at': at, 'at_root': t.get('at_root')}
                if path in crate.bodies:
                    term['resolved'] = path
                    term['resolved_full'] = path
                    term['resolved_local'] = True
                return new_block(stm, term, frame)
            tup = new_local('(?)')
            stm.append(_assign(tup, {'k': 'agg', 'ak': 'tuple', 'ops': payload_ops}, at))
            term = {'k': 'call', 'func': {'k': 'const', 'ty': '?', 'fn': 'core::ops::function::FnOnce::call_once',
                                          'fn_full': '<F as core::ops::function::FnOnce<Args>>::call_once', 'fn_args': [], 'zst': True, 'repr': 'call_once'},
                    'callee': 'core::ops::function::FnOnce::call_once', 'callee_full': '<F as core::ops::function::FnOnce<Args>>::call_once',
                    'callee_args': [], 'callee_local': False, 'callee_name': 'call_once', 'callee_trait': 'core::ops::function::FnOnce',
                    'resolved_kind': 'unresolved', 'args': [fop, _mv(tup)], 'dest': {'l': res_local, 'p': []}, 'dest_ty': '?',
                    'target': then_block, 'unwind': unwind, 'at': at, 'at_root': t.get('at_root')}
            return new_block(stm, term, frame)

        def finish(stmts):
            return new_block(stmts, {'k': 'goto', 'target': target}, frame)

        def set_dest(rv):
            return {'k': 'assign', 'place': dest, 'rv': rv, 'at': at, 'synthetic': 'desugar'}

        unreach = new_block([], {'k': 'unreachable'}, frame)
        if kind == 'B':
            fop = t['args'][1]
            r = new_local()
            b_done = finish([set_dest(_agg('Some', [_mv(r)]))])
            b_true = call_f(fop, [], r, b_done)
            b_false = finish([set_dest(_agg('None', []))])
            blk['term'] = {'k': 'switch', 'discr': _mv(subj), 'discr_ty': 'bool', 'targets': [['0', b_false]], 'otherwise': b_true, 'at': at}
            continue
        d = new_local('isize')
        blk['stmts'].append(_assign(d, {'k': 'discr', 'place': {'l': subj, 'p': []}, 'ty': {'R': RES + '<?, ?>', 'O': OPT + '<?>'}[kind]}, at))
        v_ok, v_other = ('Ok', 'Err') if kind == 'R' else ('Some', 'None')
        if variant is None:
            p = new_local()
            take = _assign(p, {'k': 'use', 'op': _payload(subj, v_ok)}, at)
            if how == 'flatten':
                b_ok = finish([take, set_dest({'k': 'use', 'op': _mv(p)})])
                b_no = finish([set_dest(_agg('None', []))])
            elif how == 'ok':
                b_ok = finish([take, set_dest(_agg('Some', [_mv(p)]))])
                b_no = finish([set_dest(_agg('None', []))])
            elif how == 'copied':
                q = new_local()
                b_ok = finish([take, _assign(q, {'k': 'use', 'op': {'k': 'copy', 'place': {'l': p, 'p': [['deref']]}}}, at), set_dest(_agg('Some', [_mv(q)]))])
                b_no = finish([set_dest(_agg('None', []))])
            elif how == 'cloned':
                q = new_local()
                b_fin = finish([set_dest(_agg('Some', [_mv(q)]))])
                blocks.append({'cleanup': False, 'frame': frame, 'stmts': [take],
                               'term': {'k': 'call', 'func': {'k': 'const', 'ty': '?', 'fn': 'core::clone::Clone::clone', 'fn_full': '<T as core::clone::Clone>::clone', 'fn_args': [], 'zst': True, 'repr': 'clone'},
                                        'callee': 'core::clone::Clone::clone', 'callee_full': '<T as core::clone::Clone>::clone', 'callee_args': [], 'callee_local': False,
                                        'callee_name': 'clone', 'callee_trait': 'core::clone::Clone', 'resolved_kind': 'unresolved', 'args': [_mv(p)],
                                        'dest': {'l': q, 'p': []}, 'dest_ty': '?', 'target': b_fin, 'unwind': unwind, 'at': at, 'at_root': t.get('at_root')}})
                b_ok = len(blocks) - 1
                b_no = finish([set_dest(_agg('None', []))])
            elif how == 'zip':
                subj2 = new_local(OPT + '<?>')
                blk['stmts'].append(_assign(subj2, {'k': 'use', 'op': t['args'][1]}, at))
                d2 = new_local('isize')
                p2 = new_local()
                tp = new_local('(?, ?)')
                b_both = finish([take, _assign(p2, {'k': 'use', 'op': _payload(subj2, 'Some')}, at),
                                 _assign(tp, {'k': 'agg', 'ak': 'tuple', 'ops': [_mv(p), _mv(p2)]}, at), set_dest(_agg('Some', [_mv(tp)]))])
                b_no = finish([set_dest(_agg('None', []))])
                b_no2 = finish([set_dest(_agg('None', []))])
                b_ok = new_block([_assign(d2, {'k': 'discr', 'place': {'l': subj2, 'p': []}, 'ty': OPT + '<?>'}, at)],
                                 {'k': 'switch', 'discr': _mv(d2), 'discr_ty': 'isize', 'targets': [['0', b_no2], ['1', b_both]], 'otherwise': unreach, 'at': at}, frame)
            elif how == 'branch':
                def cf(variant, vidx, ops):
                    return {'k': 'agg', 'ak': 'adt', 'path': CF, 'args': [], 'variant': variant, 'vidx': vidx, 'fields': ['0'], 'ops': ops}
                r_ = new_local()
                b_ok = finish([take, set_dest(cf('Continue', 0, [_mv(p)]))])
                if kind == 'R':
                    b_no = finish([_assign(p, {'k': 'use', 'op': _payload(subj, 'Err')}, at), _assign(r_, _agg('Err', [_mv(p)]), at),
                                   set_dest(cf('Break', 1, [_mv(r_)]))])
                else:
                    b_no = finish([_assign(r_, _agg('None', []), at), set_dest(cf('Break', 1, [_mv(r_)]))])
            elif how == 'err':
                b_ok = finish([set_dest(_agg('None', []))])
                b_no = finish([_assign(p, {'k': 'use', 'op': _payload(subj, 'Err')}, at), set_dest(_agg('Some', [_mv(p)]))])
            elif how == 'ok_or':
                b_ok = finish([take, set_dest(_agg('Ok', [_mv(p)]))])
                b_no = finish([set_dest(_agg('Err', [t['args'][1]]))])
            else:
                b_ok = finish([take, set_dest({'k': 'use', 'op': _mv(p)})])
                b_no = finish([set_dest({'k': 'use', 'op': t['args'][1]})])
            tg = sorted([[str(VIDX[v_ok]), b_ok], [str(VIDX[v_other]), b_no]])
            blk['term'] = {'k': 'switch', 'discr': _mv(d), 'discr_ty': 'isize', 'targets': tg, 'otherwise': unreach, 'at': at}
            continue
        other = v_other if variant == v_ok else v_ok
        if how == 'test':
            # the argument is `&x`: look at x itself
            blk['stmts'].pop()      # the discr of the reference copy made above is not what we switch on
            d = new_local('isize')
            pl = {'l': subj, 'p': [['deref']]}
            blk['stmts'].append(_assign(d, {'k': 'discr', 'place': pl, 'ty': {'R': RES + '<?, ?>', 'O': OPT + '<?>'}[kind]}, at))
            tv = {'k': 'const', 'ty': 'bool', 'val': True, 'repr': 'true'}
            fv = {'k': 'const', 'ty': 'bool', 'val': False, 'repr': 'false'}
            b_yes = finish([set_dest({'k': 'use', 'op': tv})])
            b_no = finish([set_dest({'k': 'use', 'op': fv})])
            tg = sorted([[str(VIDX[variant]), b_yes], [str(VIDX[other]), b_no]])
            blk['term'] = {'k': 'switch', 'discr': _mv(d), 'discr_ty': 'isize', 'targets': tg, 'otherwise': unreach, 'at': at}
            continue
        r = new_local()
        if how == 'wrap_same':
            b_done = finish([set_dest(_agg(variant, [_mv(r)]))])
            b_f = call_f(t['args'][1], [_payload(subj, variant)], r, b_done)
            p = new_local()
            if other == 'None':
                b_o = finish([set_dest(_agg('None', []))])
            else:
                b_o = finish([_assign(p, {'k': 'use', 'op': _payload(subj, other)}, at), set_dest(_agg(other, [_mv(p)]))])
        elif how == 'inspect':
            # f(&payload); the subject itself is the result
            # (the result is rebuilt per arm - Ok(v) / Err(e) with the payload moved over - so that which variant it is
            # stays visible to a following combinator on the same value)
            p1 = new_local()
            b_done = finish([_assign(p1, {'k': 'use', 'op': _payload(subj, variant)}, at), set_dest(_agg(variant, [_mv(p1)]))])
            q = new_local()
            ref_stmt = _assign(q, {'k': 'ref', 'bk': 'shared', 'place': {'l': subj, 'p': [['downcast', variant, VIDX[variant]], ['field', 0, '0', '?']]}}, at)
            b_call = call_f(t['args'][1], [_mv(q)], r, b_done)
            blocks[b_call]['stmts'].insert(0, ref_stmt)
            b_f = b_call
            p = new_local()
            if other == 'None':
                b_o = finish([set_dest(_agg('None', []))])
            else:
                b_o = finish([_assign(p, {'k': 'use', 'op': _payload(subj, other)}, at), set_dest(_agg(other, [_mv(p)]))])
        elif how == 'flat':
            b_done = finish([set_dest({'k': 'use', 'op': _mv(r)})])
            b_f = call_f(t['args'][1], [_payload(subj, variant)], r, b_done)
            p = new_local()
            if other == 'None':
                b_o = finish([set_dest(_agg('None', []))])
            else:
                b_o = finish([_assign(p, {'k': 'use', 'op': _payload(subj, other)}, at), set_dest(_agg(other, [_mv(p)]))])
        elif how == 'flat0':
            b_done = finish([set_dest({'k': 'use', 'op': _mv(r)})])
            b_f = call_f(t['args'][1], [], r, b_done)
            p = new_local()
            b_o = finish([_assign(p, {'k': 'use', 'op': _payload(subj, other)}, at), set_dest(_agg(other, [_mv(p)]))])
        elif how == 'unwrap':
            b_done = finish([set_dest({'k': 'use', 'op': _mv(r)})])
            b_f = call_f(t['args'][1], [_payload(subj, variant)], r, b_done)
            b_o = finish([set_dest({'k': 'use', 'op': _payload(subj, other)})])
        elif how == 'unwrap0':
            b_done = finish([set_dest({'k': 'use', 'op': _mv(r)})])
            b_f = call_f(t['args'][1], [], r, b_done)
            b_o = finish([set_dest({'k': 'use', 'op': _payload(subj, other)})])
        elif how == 'okor':
            b_done = finish([set_dest(_agg('Err', [_mv(r)]))])
            b_f = call_f(t['args'][1], [], r, b_done)
            p = new_local()
            b_o = finish([_assign(p, {'k': 'use', 'op': _payload(subj, 'Some')}, at), set_dest(_agg('Ok', [_mv(p)]))])
        elif how == 'mapor':
            b_done = finish([set_dest({'k': 'use', 'op': _mv(r)})])
            b_f = call_f(t['args'][2], [_payload(subj, 'Some')], r, b_done)
            b_o = finish([set_dest({'k': 'use', 'op': t['args'][1]})])
        elif how == 'maporelse':
            b_done = finish([set_dest({'k': 'use', 'op': _mv(r)})])
            b_f = call_f(t['args'][2], [_payload(subj, 'Some')], r, b_done)
            r2 = new_local()
            b_done2 = finish([set_dest({'k': 'use', 'op': _mv(r2)})])
            b_o = call_f(t['args'][1], [], r2, b_done2)
        else:
            continue
        tg = [[str(VIDX[variant]), b_f], [str(VIDX[other]), b_o]]
        tg.sort()
        blk['term'] = {'k': 'switch', 'discr': _mv(d), 'discr_ty': 'isize', 'targets': tg, 'otherwise': unreach, 'at': at}
    nb = Body(j, crate)
    nb.inlined = getattr(body, 'inlined', None)
    return nb


def const_array_ops(crate, cpath):
    """operands' terms of a `const` whose body is one array aggregate, else None"""
    from .terms import Terms, norm
    for c in [crate] + list(getattr(crate, 'siblings', []) or []):
        if c is None:
            continue
        cb = c.bodies.get(cpath)
        if cb is None:
            cb = next((b for b in c.all_bodies if strip_generics(b.path) == strip_generics(cpath)), None)
        if cb is None or len(cb.blocks) != 1 or cb.blocks[0]['term']['k'] != 'return':
            continue
        T = Terms(cb)
        r = norm(T.local_term(0, 0, len(cb.blocks[0]['stmts'])))
        if r[0] in ('array', 'tuple'):
            return list(r[1])
    return None


def _const_table(crate, it):
    """it = slice::iter(&CONST) / <[T; N]>::iter(&CONST) / IntoIterator::into_iter(&CONST) -> (const path, type, N)"""
    x = it
    for _ in range(4):
        if x[0] in ('ref', 'deref', 'unsize', 'autoderef'):
            x = x[1]
        elif x[0] == 'call' and isinstance(x[1], str) and len(x[2]) == 1 and (x[1].endswith('::iter') or x[1].endswith('IntoIterator>::into_iter')):
            x = x[2][0]
        else:
            break
    while x[0] in ('ref', 'deref', 'unsize', 'autoderef'):
        x = x[1]
    if x[0] == 'const' and x[3]:
        ops = const_array_ops(crate, x[3])
        if ops is not None and 0 < len(ops) <= 16:
            return (x[3], x[1], len(ops))
    return None


def _variant_ctor(crate, path):
    if path in (RES + '::Ok', RES + '::Err', OPT + '::Some'):
        v = path.rsplit('::', 1)[1]
        return ADT[v], v, VIDX[v]
    head, _, last = path.rpartition('::')
    for c in [crate] + list(getattr(crate, 'siblings', []) or []):
        if c is None:
            continue
        a = c.adts.get(head)
        if a and a['kind'] == 'Enum':
            for i, v in enumerate(a['variants']):
                if v['name'] == last:
                    return head, last, i
        # the constructor function of a tuple struct (`.map_err(Refused)`)
        a = c.adts.get(path)
        if a and a['kind'] == 'Struct' and len(a['variants']) == 1 and a['variants'][0]['fields'] and \
                all(str(f['name']).isdigit() for f in a['variants'][0]['fields']):
            return path, a['variants'][0]['name'], 0
    return None
