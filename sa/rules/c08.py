"""C08 - queuing sink: every accepted metric reaches the wrapped sink once, in order."""
from . import queuing as A
from . import queuing2 as B
from .qmodel import QModel

EXPLANATION = ('Structural clauses of exactly-once in-order hand-over: R1 accept <=> enqueued once, R2 one sequential '
               'consumer, R3 one task call per dequeued entry (R3f: the stop flag ends the loop only on an empty queue), R4 task = wrapped emit with the same text, R5/R5b a handle '
               'drop never stops a shared worker, R6 one channel. Typestate, call-graph and drop-graph rules over MIR.')


def check(ctx, rep):
    rep.trust('crossbeam-channel: FIFO per channel; try_send never blocks; the scheduler eventually runs the worker')
    m = QModel(ctx, rep)
    if not m.ok:
        return
    A.rule_emit(m, rep, 'R1')
    A.rule_one_consumer(m, rep, 'R2')
    A.rule_loop(m, rep, 'R3', liveness=True)
    # the loop may end early on the sticky stop flag only once everything accepted has been taken out of the queue
    from .common import KeepOnly
    keep = KeepOnly(rep, ('/flag-exit-only-when-drained', '/flag-starts-false'), 'R3f')
    B.rule_run_exit(m, keep, B.rule_stop(m, keep))
    A.rule_task_closure(m, rep, 'R4')
    B.rule_handle_drop(m, rep, 'R5')
    A.rule_same_channel(m, rep, 'R6')
    from .common import DropOnly
    B.rule_sentinel(m, DropOnly(rep, ('cancel-after-every-normal-return',)), count=False)      # a respawn after a clean stop delivers nothing twice: C09/C11's clause
