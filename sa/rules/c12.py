"""C12 - concurrent emitters through a shared buffered sink stay line-atomic."""
from ..witness import cargo_check
from . import writer as W
from . import sinks as S
from . import fmtout as F
from . import client as K
from .common import *

EXPLANATION = ('R1 one critical section per operation: emit/flush of every buffered sink take exactly one blocking '
               'Mutex::lock on the sink\'s own mutex and perform exactly one MultiLineWriter::write/flush through that guard, '
               'held across the call; R2 exclusive access is type-enforced (Mutex<MultiLineWriter<_>> field, '
               '#![forbid(unsafe_code)], Send+Sync witness compiles); R3 each call formats into a fresh String and reads '
               'only immutable client configuration. Hence every interleaving is a serial order of whole write/flush steps '
               'and the premises of C05/C06 (checked here too) apply.')

BOUNDS = '''
fn assert_send_sync<T: Send + Sync>() {}
pub fn w() {
    assert_send_sync::<cadence::StatsdClient>();
    assert_send_sync::<cadence::BufferedUdpMetricSink>();
    assert_send_sync::<cadence::BufferedUnixMetricSink>();
    assert_send_sync::<cadence::BufferedSpyMetricSink>();
    assert_send_sync::<cadence::QueuingMetricSink>();
    assert_send_sync::<cadence::UdpMetricSink>();
}
'''


def check(ctx, rep):
    rep.trust('std::sync::Mutex gives mutual exclusion; lock() blocks until acquired')
    cad = ctx.cad
    S.rule_lock_discipline(ctx, rep, 'R1')
    sinks = S.buffered_sinks(cad)
    for adt, field, adapter in sinks:
        fty = [f['ty'] for f in adt_fields(cad, adt) if f['name'] == field][0]
        ok = fty.startswith('std::sync::poison::mutex::Mutex<cadence::io::MultiLineWriter<')
        if not ok and type_head(fty) in cad.adts:
            # a private single-field newtype around the mutex (its lock() helper is judged, inlined, by the lock discipline R1)
            inner = adt_fields(cad, type_head(fty)) or []
            ok = len(inner) == 1 and inner[0]['ty'].startswith('std::sync::poison::mutex::Mutex<cadence::io::MultiLineWriter<')
        rep.ob('R2', '%s/writer-behind-mutex' % adt.rsplit('::', 1)[-1], ok, '', 'field %s: %s' % (field, fty[:80]))
    rep.ob('R2', 'forbid-unsafe', cad.has_forbid_unsafe(), 'cadence/src/lib.rs', '#![forbid(unsafe_code)]: &mut to the writer exists only through a guard')
    okb, codes, msgs, err = cargo_check(ctx, 'witness_bounds', BOUNDS)
    rep.sites()
    rep.ob('R2', 'send-sync-witness', okb, 'witness', 'client and sinks are Send + Sync (witness compiles)' if okb else 'witness rejected: %s' % (msgs[:2] or err[-300:]))
    fm = F.FormatterModel(ctx, rep)
    if fm.ok:
        body = inl(cad, fm.format)
        T = Terms(body)
        rts = ret_terms(T, [0])
        outs = set(F.strip_mut(r) for r in rts)
        ok = len(outs) == 1 and term_callee_is(list(outs)[0], 'alloc::string::String::with_capacity', 'alloc::string::String::new')
        rep.ob('R3', 'line-formatted-into-fresh-string', ok, fm.format.where(), 'every call formats into its own newly allocated String' if ok else 'the formatter returns %s' % [fmt(x)[:80] for x in outs])
        K.rule_client_immutable(fm, rep, 'R3')
    m = W.WriterModel(ctx, rep)
    if m.ok:
        # "the framing and conservation guarantees (C05, C06)": all their writer premises, applied to the serial order
        W.rule_M1(m, rep)
        W.rule_M2(m, rep, 'must')
        W.rule_M3(m, rep)
        W.rule_M4_M5_M6(m, rep, want=('M4', 'M5', 'M6'))
        W.rule_M7(m, rep)
        W.rule_M8(m, rep)
        W.rule_M9(m, rep)
        W.rule_M10(m, rep)
        W.rule_M11(m, rep)
    S.rule_D2(ctx, rep)
    # adapters: each write is one whole datagram (A1), Ok only if the socket took it (E1), capacity / terminator (A2, A3)
    S.rule_A1(ctx, rep)
    S.rule_E1(ctx, rep)
    S.rule_A2_A3(ctx, rep)
    # through a queuing wrapper only the worker thread may feed the buffered sink (one sequential consumer)
    from .qmodel import QModel
    from . import queuing as Qr
    qm = QModel(ctx, rep)
    if qm.ok:
        Qr.rule_one_consumer(qm, rep, 'R4')
        # "every Ok-acknowledged metric appears exactly once": what the queue accepted is handed to the buffered sink once
        # per metric, and the stop flag ends the loop only on an empty queue
        from . import queuing2 as Q2
        Qr.rule_task_closure(qm, rep, 'R4', parts=('once',))
        keep = KeepOnly(rep, ('/flag-exit-only-when-drained',), 'R4')
        Q2.rule_run_exit(qm, keep, Q2.rule_stop(qm, keep))
    S.rule_D3(ctx, rep, methods=('flush',))
    S.rule_forwarding_impls(ctx, rep, 'F1', methods=('flush',))
    from . import sockets as SK
    SK.rule_socket_untouched(ctx, rep, 'S1')
