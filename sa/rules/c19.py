"""C19 - buffered sinks pack datagrams greedily."""
from . import writer as W
from . import sinks as S

EXPLANATION = ('Static discharge of M2(<=: a flush happens only when the line does not fit the remaining space), M1, M5, '
               'M8 (counter reset only after a successful flush) and G1 (no other flush or side channel in write); '
               'with the proof of DESIGN 6.5 this gives in-order greedy packing.')


def check(ctx, rep):
    rep.trust('std::io::BufWriter never writes to its inner writer while the bytes fit its spare capacity')
    m = W.WriterModel(ctx, rep)
    if not m.ok:
        return
    W.rule_M1(m, rep, exact_fill_may_bypass=True)
    W.rule_M2(m, rep, 'only')
    W.rule_M2(m, rep, 'must')
    W.rule_M4_M5_M6(m, rep, want=('M5',))
    # the count stays the number of buffered bytes across a flush inside write(): a failed flush stops the write (a swallowed
    # error leaves `written` stale and the next flushes come too early), a successful one resets it
    W.rule_M3(m, rep)
    W.rule_M8(m, rep)
    W.rule_M9(m, rep)
    W.rule_M10(m, rep)
    W.rule_G1(m, rep)
    S.rule_A2_A3(ctx, rep)
    # the adapter's own flush cannot fail after the BufWriter was drained (a failure there would leave `written` standing
    # although the buffer is empty: the next metric that fits would be flushed out alone)
    from .common import KeepOnly
    # ... and hands the socket everything it is given in one send: an adapter that takes only part of a drained buffer makes
    # the BufWriter come back with the rest - one drain becomes several datagrams, more than in-order packing needs
    S.rule_A1(ctx, KeepOnly(rep, ('/flush-is-noop', '/sends-whole-buffer'), 'A1f'), 'A1f')
    # the sink's own emit is lock + one writer call: no flush or second write of its own
    S.rule_lock_discipline(ctx, rep, 'G2', methods=('emit',))
    S.rule_writer_only_in_emit_flush(ctx, rep, 'G3')
    # nor does the library flush a sink on its own (client Drop, getters ..): only on the user's request
    S.rule_no_implicit_flush(ctx, rep, 'G4')
