"""C14 - sink I/O telemetry adds up."""
from . import sockets as K
from . import sinks as S

EXPLANATION = ('R1 every socket send in library code flows, on every path, into SocketStats::update together with the length '
               'of the very buffer sent; R2 update classifies Ok/Err into the sent/dropped counters by single atomic '
               'fetch_adds and returns the result unchanged; R3 one set of counters: adapters get a clone (shared Arcs) of '
               'the sink\'s stats, stats() snapshots the same cells, the queuing sink delegates stats() unchanged.')


def check(ctx, rep):
    rep.trust('atomic fetch_add is exact under concurrency; a datagram send is all-or-nothing')
    K.rule_pairing(ctx, rep)
    # "the counts of the emits that returned Ok and Err": an unbuffered emit makes one attempt and returns what the
    # classifier returns - it cannot fail (or succeed) without being counted
    from .common import KeepOnly
    K.rule_unbuffered(ctx, KeepOnly(rep, ('/one-datagram-per-emit', '/returns-socket-result'), 'R1u'))
    K.rule_classification(ctx, rep)
    K.rule_shared_counters(ctx, rep)
    S.rule_D3(ctx, rep, 'R3-D3', methods=('stats',))
    S.rule_forwarding_impls(ctx, rep, 'R3-F1', methods=('stats',))
