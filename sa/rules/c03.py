"""C03 - one call, at most one emit; results and the error handler tell the truth."""
from . import fmtout as F
from . import client as K

EXPLANATION = ('Typestate/count and provenance rules: R1 try_send formats once and sends once, returns Ok(metric) only on the '
               'Ok edge of send_metric; R2 send_metric = exactly one sink.emit, result propagated; R3 error type keeps the '
               'io::Error / kind; R4 quiet send calls the handler exactly once on failure, never on success, no panic '
               'site; R5 rejected values become the Error state; R6 plain forms = tagged form + try_send; R7 client '
               'configuration is immutable after construction.')


def check(ctx, rep):
    rep.trust('user supplied sinks and handlers are outside the property')
    fm = F.FormatterModel(ctx, rep)
    if not fm.ok:
        return
    K.rule_try_send(fm, rep)
    K.rule_send_metric_callers(fm, rep, 'R1c')
    K.rule_send_metric(fm, rep)
    # ... and the metric object built from the formatted line keeps it verbatim (From<String> / as_metric_str of the seven
    # metric types): what the sink is given is the text that was formatted, whole
    from .common import KeepOnly as _KO
    F.rule_constructors(fm, _KO(rep, ('/string-kept-verbatim',), 'R1v'), 'R1v')
    K.rule_error_type(fm, rep)
    K.rule_quiet_send(fm, rep)
    K.rule_handler_callers(fm, rep, 'R4w')
    K.rule_handler_config(fm, rep, 'R4c')
    K.rule_rejection(fm, rep)
    K.rule_plain_forms(fm, rep)
    K.rule_client_immutable(fm, rep)
    K.rule_nonempty(fm, rep, 'R5b', check_kind=True)      # C03 names the kind of the rejection: invalid input
