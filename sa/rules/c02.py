"""C02 - numeric values and durations reach the wire without loss."""
from . import fmtout as F
from . import values as V
from . import client as K

EXPLANATION = ('R1 every To*Value impl passes its argument into the MetricValue variant of the same signedness class through '
               'value-preserving steps only (widening casts, moves, forward map); R2 Durations use as_millis for timers and '
               'as_nanos for histograms in guard and conversion alike; R3 the one narrowing cast u128->u64 is guarded by a '
               'comparison equivalent to x > u64::MAX on the same term (linear-form equivalence) whose reject edge returns '
               'InvalidInput; R4 values and the rate are rendered by the primitive\'s own default Display. The numeral '
               'text itself (canonical decimal, f64 round trip) is std\'s Display and is trusted, not decided.')


def check(ctx, rep):
    rep.trust('core::fmt::Display for i64/u64/f64 prints the canonical / shortest round-trip numeral')
    rep.trust('Duration::as_millis / as_nanos round down and return the full 128-bit count')
    V.rule_flow(ctx, rep)
    V.rule_units_and_guard(ctx, rep)
    fm = F.FormatterModel(ctx, rep)
    if not fm.ok:
        return
    F.rule_value_display(fm, rep, 'R4')
    F.rule_format(fm, rep, 'R4f', scope='values')
    F.rule_setters(fm, rep, 'R4s', only=('rate', 'ts'))
    K.rule_rejection(fm, rep, 'R5')
    K.rule_try_send(fm, rep, 'R5t')
    # "packed lists keep their length and order": a list is never turned away for its length (only for having no elements)
    from .common import KeepOnly
    K.rule_nonempty(fm, KeepOnly(rep, ('rejects-only-empty-lists',), 'R7'), 'R7')
    # the standalone constructors (Gauge::new_f64 ..) are another way a number reaches the wire: the value given is the value
    # formatted (no arithmetic on the way: `value + 0.0` turns -0.0 into 0)
    class _Ctors(KeepOnly):
        def _keep(self, instance):
            return str(instance).startswith('ctor/')
    F.rule_constructors(fm, _Ctors(rep, (), 'R8c'), 'R8c')
    # the statsd_* macros are one more way a value reaches the client: handed over as supplied, no cast in between
    from . import c17
    c17.rule_macro_values(ctx, rep, 'R6m')
