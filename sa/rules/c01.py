"""C01 - every emitted line is a well-formed, faithful DogStatsD metric line (grammar skeleton)."""
from . import fmtout as F
from . import client as K
from .common import KeepOnly

EXPLANATION = ('Grammar skeleton decided on MIR: R1/R2 the formatter\'s output events (decoded format_args templates, '
               'push_str/push) are accepted by an NFA of the line grammar on every CFG path, each optional section is '
               'control-dependent exactly on its own field being Some / the tag list being non-empty; R3 type codes; '
               'R4 kind wiring of the seven entry points; R5 value list rendering; R6 prefix normalisation; R7 at least '
               'one value; R8 standalone constructors agree with the client; R9 setter flow. The round-trip clause '
               '(text of Display for runtime values) is not decided.')


def check(ctx, rep):
    rep.trust('Display for &str writes the string unchanged; Display for numbers: see C02')
    fm = F.FormatterModel(ctx, rep)
    if not fm.ok:
        return
    F.rule_format(fm, rep, 'R1')
    F.rule_type_codes(fm, rep, 'R3')
    K.rule_decoration(fm, rep, 'R4d', kinds=True)
    F.rule_value_display(fm, rep, 'R5')
    K.rule_prefix(fm, rep, 'R6')
    K.rule_tag_plumbing(fm, rep, 'R6p')
    from .common import DropOnly
    K.rule_nonempty(fm, DropOnly(rep, ('rejects-only-empty-lists',)), 'R7')      # what is refused is C02/C03's business
    F.rule_constructors(fm, rep, 'R8')
    F.rule_setters(fm, rep, 'R9')
    K.rule_try_send(fm, rep, 'R10')
    # every line that reaches the sink was built by format() inside try_send (no second path with its own buffer)
    K.rule_send_metric_callers(fm, rep, 'R10c')
    K.rule_plain_forms(fm, rep, 'R11')
    # "parsing the line back yields exactly the supplied value list": the value reaches the formatter unaltered
    # (class and lossless flow of every To*Value impl; Duration units and the narrowing guard stay with C02)
    from . import values as V
    V.rule_flow(ctx, rep, 'R12')
    # ... and a Duration count that does not fit into 64 bits is never truncated into the line (exact narrowing guard;
    # which unit a kind uses stays with C02)
    V.rule_units_and_guard(ctx, rep, units=False)
    # "the text handed to the sink is exactly ...": the client hands the formatted line to the sink unaltered
    K.rule_send_metric(fm, KeepOnly(rep, ('/emits-the-metric-text',), 'R13'))
