"""C10 - the queuing sink isolates callers from the wrapped sink."""
from . import queuing as A
from . import queuing2 as B
from .qmodel import QModel

EXPLANATION = ('R1 call graph of emit reaches no wrapped-sink method, task, lock or blocking primitive; R2 result depends '
               'only on the try_send outcome; R3 capacity plumbing with_capacity -> builder -> bounded(v) exact; R4 the '
               'task returns () and runs only on spawned threads.')


def check(ctx, rep):
    rep.trust('crossbeam-channel: bounded(n) never holds more than n; try_send never blocks')
    m = QModel(ctx, rep)
    if not m.ok:
        return
    A.rule_isolation(m, rep, 'R1')
    A.rule_emit(m, rep, 'R2', strict=True)
    A.rule_capacity(m, rep, 'R3')
    A.rule_task_closure(m, rep, 'R4', parts=('unit',))
    from .common import KeepOnly
    A.rule_one_consumer(m, KeepOnly(rep, ('run-called-only-on-spawned-thread',), 'R4b'), 'R4b', parts=('callers',))
    # 'capacity ... is never exceeded': what counts against the capacity is everything accepted and not yet handed over, so an
    # entry leaves the queue only to go straight into the task (no second buffer on the consumer side)
    # ... and nothing but metrics takes up queue room while a handle is alive: the stop marker is sent by the last drop only
    B.rule_handle_drop(m, rep, 'R5h')
    # 'panics raised by the wrapped sink never unwind into any caller thread': dropping a handle does not wait for, join or
    # unwrap anything of the worker thread
    B.rule_drop_nonblocking(m, rep, 'R5d')
    A.rule_loop(m, KeepOnly(rep, ('task-gets-the-dequeued-metric', 'dequeue-precedes-task', 'run/loop-shape'), 'R5'), 'R5')
