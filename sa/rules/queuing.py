"""Rules for the queuing sink (C08, C10, C15 and shared parts). Second half in queuing2.py."""
from .. import cfg as C
from .. import linear as L
from ..terms import Terms, norm, fmt, walk, field_of
from ..inline import inline, local_picker
from ..facts import type_head
from .common import *
from .qmodel import *
from .qmodel import _path_has_field
from .sinks import is_whole_param


def _emit_body(m):
    impl = [i for i in m.cad.impls_of(SINK_TRAIT) if i.get('self_adt') == Q]
    if len(impl) != 1:
        return None
    items = {it['name']: it['path'] for it in impl[0]['items']}
    return m.cad.bodies.get(items.get('emit'))


# ------------------------------------------------------------------ C08-R1 / C10-R2 / C15-R1
def rule_emit(m, rep, rid='R1', counters=False, strict=False, early_pure=False):
    emit = _emit_body(m)
    if emit is None:
        rep.anchor_lost(rid, 'QueuingMetricSink::emit')
        return
    rep.analysed(emit)
    body = inl(m.cad, emit)
    T = Terms(body)
    sends = m.sends(body, T)
    rep.sites(len(sends))
    cnt = count_events(body, lambda b: b in [s[0] for s in sends])
    ok = len(sends) == 1 and cnt == {1}
    early = set()
    if not ok and len(sends) == 1 and cnt == {0, 1}:
        # an emit that never reaches the queue is fine as long as it says so (returns Err) and
        #  - the refusal is the queue-room refusal made early: it lies behind `sender.is_full() == true` on the worker's own
        #    channel (fine for every property, C10 included: "an error once a bounded queue already holds its capacity"), or
        #  - for everything but C10: any other refusal; where the sink must *keep* accepting (C11) it may depend on the
        #    metric only, not on anything the sink remembers
        import copy

        def cut(b0, blocks_dead=(), edges_dead=()):
            b2 = copy.copy(b0)
            b2.blocks = list(b0.blocks)
            for bi in blocks_dead:
                b2.blocks[bi] = dict(b2.blocks[bi], term={'k': 'unreachable'})
            for bi, succ in edges_dead:
                dead = len(b2.blocks)
                b2.blocks.append({'stmts': [], 'term': {'k': 'unreachable'}, 'cleanup': False})
                tm = dict(b2.blocks[bi]['term'])
                tm['targets'] = [(v_, dead if tb_ == succ else tb_) for v_, tb_ in tm['targets']]
                if tm['otherwise'] == succ:
                    tm['otherwise'] = dead
                b2.blocks[bi] = dict(b2.blocks[bi], term=tm)
            live = reach(b2, [0])
            b2.blocks = [blk if i in live else dict(blk, stmts=[], term={'k': 'unreachable'}) for i, blk in enumerate(b2.blocks)]
            return b2, live
        b2, live = cut(body, [sends[0][0]])
        T2 = Terms(b2)
        early = set(ret_terms(T2, [0]))
        ok = bool(early) and all(r[0] == 'adt' and r[2] == 'Err' for r in early)
        # the edges taken when the worker's own queue reports itself full
        full_edges = []
        for bi in live:
            if b2.blocks[bi]['term']['k'] != 'switch':
                continue
            dt, edges = T2.switch_facts(bi)
            d = norm(dt)
            if term_callee_is(d, 'crossbeam_channel::channel::Sender::is_full', 'crossbeam_channel::channel::Receiver::is_full') and \
                    (_path_has_field(d[2][0], m.f_sender) or _path_has_field(d[2][0], m.f_receiver)):
                full_edges += [(bi, s) for s, labs in edges.items() if ('bool', True) in labs]
        b3, live3 = cut(body, [sends[0][0]], full_edges)
        rest = set(ret_terms(Terms(b3), [0])) if any(b3.blocks[i]['term']['k'] == 'return' for i in live3) else set()
        if ok and rest and strict:
            ok = False
        if ok and rest and early_pure:
            T3 = Terms(b3)
            for bi in live3:
                if b3.blocks[bi]['term']['k'] == 'switch' and any(x == ('param', 1) for x in walk(norm(T3.switch_facts(bi)[0]))):
                    ok = False
    rep.ob(rid, 'emit/enqueues-exactly-once', ok, body.where(sends[0][0]) if sends else emit.where(),
           ('every path through emit performs exactly one send on the worker channel' if not early else 'every path through emit performs one send on the worker channel or refuses with Err before it') if ok else
           'emit performs %s sends on the worker channel per call (paths without an enqueue or with two)' % sorted(cnt))
    if not ok:
        return
    sb, kind, payload = sends[0]
    okk = kind == 'try_send'
    rep.ob(rid, 'emit/non-blocking-send', okk, body.where(sb),
           'the enqueue is try_send' if okk else 'emit enqueues with the blocking/timed `%s`' % kind)
    okp = payload[0] == 'adt' and payload[2] == m.v_metric and is_whole_param(dict(payload[3])['0'], 2) and \
        peel(norm(dict(payload[3])['0'])) != ('param', 2)
    okp = payload[0] == 'adt' and payload[2] == m.v_metric and is_whole_param(dict(payload[3])['0'], 2)
    rep.ob(rid, 'emit/enqueues-the-metric-text', okp, body.where(sb),
           'payload is Some(owned copy of the whole metric)' if okp else 'payload is %s' % fmt(payload))
    rc = result_cases(T, sb)
    r_ok, r_err = rc['ok'], rc['err']
    rc['?'] = set(x for x in rc['?'] if x not in early)
    if rc['?'] or not r_ok or not r_err:
        rep.bad(rid, 'emit/result-depends-on-enqueue', body.where(sb),
                'the result of emit does not depend on the try_send outcome on every path (unconditional results: %s)' % [fmt(x)[:80] for x in rc['?']])
        return
    g1 = bool(r_err) and all(r[0] == 'adt' and r[2] == 'Err' for r in r_err)
    rep.ob(rid, 'emit/refused-means-error', g1, body.where(sb),
           'Full/Disconnected => Err' if g1 else 'a refused enqueue can return %s' % [fmt(x) for x in r_err])

    def is_len(r):
        if not (r[0] == 'adt' and r[2] == 'Ok'):
            return False
        v = dict(r[3])['0']
        return v[0] == 'call' and v[1].endswith('::len') and is_whole_param(v[2][0], 2)
    g2 = bool(r_ok) and all(is_len(r) for r in r_ok)
    rep.ob(rid, 'emit/accepted-means-ok-len', g2, body.where(sb),
           'accepted => Ok(metric.len())' if g2 else 'an accepted enqueue returns %s' % [fmt(x) for x in r_ok])
    # no path returns Ok without passing the Ok edge: feasible outcome paths
    if counters and m.need_counters(rep, rid, ('submitted', 'drained', 'panics')):
        sub_blocks = set(bi for bi, t in body.calls() if not body.blocks[bi]['cleanup'] and
                         m.is_counter_op(norm(T.call_term(bi)), 'submitted', 'fetch_add'))
        other = set(bi for bi, t in body.calls() if not body.blocks[bi]['cleanup'] and
                    (m.is_counter_op(norm(T.call_term(bi)), 'drained', 'fetch_add') or
                     m.is_counter_op(norm(T.call_term(bi)), 'panics', 'fetch_add')))
        rep.sites(len(sub_blocks))
        paths = outcome_paths(T, sb, {'sub': sub_blocks, 'other': other})
        bad = []
        for k, fact, counts in paths:
            c = dict(counts)
            if fact == 'ok' and c['sub'] != 1:
                bad.append('accepted emit counted %d times' % c['sub'])
            if fact == 'err' and c['sub'] != 0:
                bad.append('refused emit counted as submitted')
            if fact == '?' and c['sub'] != 0:
                bad.append('submitted is incremented on a path that does not know whether the enqueue succeeded')
            if c['other']:
                bad.append('emit touches drained/panics')
        pre = [b for b in sub_blocks if sb in reach(body, [b])]
        if pre:
            bad.append('submitted is incremented before the enqueue')
        rep.ob('C15-R1', 'submitted-iff-accepted', not bad and bool(paths), body.where(sb),
               'submitted += 1 exactly on the accepted edge, after the enqueue; nothing on refusal' if not bad else
               '; '.join(sorted(set(bad))))


# ------------------------------------------------------------------ C08-R2 one consumer
def rule_one_consumer(m, rep, rid='R2', parts=('receiver', 'callers')):
    cad = m.cad
    offenders = []
    n = 0
    run_region = private_region(cad, m.run, m.worker)
    for b in (cad.all_bodies if 'receiver' in parts else []):
        if not in_module_of(b, Q):
            continue
        n += 1
        for bi, t in b.calls():
            k = strip_generics(t.get('callee_full', ''))
            if 'crossbeam_channel::channel::Receiver' in k or 'crossbeam_channel::channel::Iter' in k or \
                    'crossbeam_channel::channel::TryIter' in k or 'crossbeam_channel::channel::IntoIter' in k:
                # only the worker's own queue matters: another channel (a different message type) is not this consumer
                inner_ty = m.receiver_ty[m.receiver_ty.find('<') + 1:-1].replace(' ', '') if '<' in m.receiver_ty else None
                ca = [a_.replace(' ', '') for a_ in t.get('callee_args', [])]
                if inner_ty and ca and inner_ty not in ca and not any(inner_ty in a_ for a_ in ca):
                    continue
                rep.sites()
                if b.path not in run_region:
                    if k in RECV_BENIGN and not k.endswith('::iter') and not k.endswith('into_iter'):
                        continue        # is_empty()/len()/is_full() anywhere take nothing out of the queue
                    offenders.append((b, bi, k))
                elif k not in DEQ_OPS and k not in RECV_BENIGN:
                    rep.unknown(rid, 'run/receiver-op', b.where(bi), 'receiver operation %s is not in the analysed set '
                                '(recv, try_recv, iter().next(), is_empty, len)' % k)
        # places mentioning the receiver field outside run / constructor
        if b.path not in run_region:
            for bi, blk in enumerate(b.blocks):
                for si, s in enumerate(blk['stmts']):
                    if s['k'] != 'assign':
                        continue
                    for pl in _places_of(s):
                        for e in pl['p']:
                            if e[0] == 'field' and e[2] == m.f_receiver and e[3] == m.receiver_ty:
                                if 'Debug' in (b.impl_trait or '') or blk['cleanup']:
                                    continue
                                if _only_feeds_benign_query(b, s):
                                    continue        # `self.receiver.len()`: the borrow goes into a query and nowhere else
                                offenders.append((b, bi, 'access to .%s' % m.f_receiver))
    if 'receiver' in parts:
        rep.floor(rid, 'bodies in queuing.rs', n, 30)
    if 'receiver' not in parts:
        pass
    elif offenders:
        for b, bi, k in offenders:
            rep.bad(rid, 'receiver-used-only-by-run/%s' % b.short(), b.where(bi),
                    'the worker queue is consumed/inspected outside the worker loop (%s): a second consumer breaks order' % k)
    else:
        rep.good(rid, 'receiver-used-only-by-run', m.run.where(), 'all receiver operations are in %s' % m.run.short())
    # who calls run / the spawn function
    run_callers = [(b, bi) for b in cad.all_bodies for bi, t in b.calls() if t.get('resolved') == m.run.path]
    okr = len(run_callers) == 1 and run_callers[0][0].path == m.spawn_closure.path
    if not okr and len(run_callers) == 1 and getattr(m, 'run_caller', None) is not None and run_callers[0][0].path == m.run_caller.path:
        # run() is entered through a private function whose only caller is the spawned closure
        via = [b.path for b in cad.all_bodies for bi, t in b.calls() if t.get('resolved') == m.run_caller.path]
        okr = via == [m.spawn_closure.path]
    rep.ob(rid, 'run-called-only-on-spawned-thread', okr, run_callers[0][0].where(run_callers[0][1]) if run_callers else '',
           'run() is called only from the closure given to thread::spawn' if okr else
           'run() is called from %s' % [b.short() for b, _ in run_callers])
    sp_callers = sorted(set(b.path for b in cad.all_bodies for bi, t in b.calls() if t.get('resolved') == m.spawn.path))
    sd_region = private_region(cad, [m.sentinel_drop]) | {m.sentinel_drop.path}       # the destructor and helpers only it calls
    okw = bool(sp_callers) and any(p_ in sd_region for p_ in sp_callers) and \
        all(p_ in sd_region or p_ in m.build_region for p_ in sp_callers) and any(p_ in m.build_region for p_ in sp_callers)
    rep.ob(rid, 'spawn-sites', okw, m.spawn.where(),
           'worker threads are spawned by build() and by the sentinel only' if okw else
           'worker threads are spawned from %s' % sp_callers)
    cb = count_events(m.build, lambda x: m.build.term(x)['k'] == 'call' and m.build.term(x).get('resolved') == m.spawn.path)
    rep.ob(rid, 'build-spawns-once', cb == {1}, m.build.where(), 'build() spawns exactly one worker thread (counts %s)' % sorted(cb))
    # spawn fn passes its Arc<Worker> to the closure which calls run on it
    Ts = Terms(m.spawn)
    spc = [bi for bi, t in m.spawn.calls() if callee_is(t, *SPAWN_CALLS)]
    oks = len(spc) == 1
    rep.ob(rid, 'spawn-one-thread', oks, m.spawn.where(), 'one thread::spawn per call')


def _only_feeds_benign_query(b, s):
    """statement `tmp = &<..>.receiver` whose temporary is used exactly as the receiver argument of is_empty/len/is_full"""
    rv = s['rv']
    if rv.get('k') != 'ref' or rv.get('bk') == 'mut' or s['place']['p']:
        return False
    tmp = s['place']['l']
    uses = 0
    for blk in b.blocks:
        for s2 in blk['stmts']:
            if s2 is s or s2['k'] != 'assign':
                continue
            if any(pl['l'] == tmp for pl in _places_of(s2)):
                return False
        tm = blk['term']
        if tm['k'] == 'call':
            hit = [a for a in tm['args'] if isinstance(a, dict) and a.get('k') in ('copy', 'move') and a['place']['l'] == tmp]
            if hit:
                k = strip_generics(tm.get('callee_full', ''))
                if k not in RECV_BENIGN or k.endswith('::iter') or k.endswith('into_iter') or a_is_not_plain(hit):
                    return False
                uses += 1
    return uses == 1


def a_is_not_plain(ops):
    return any(o['place']['p'] for o in ops)


def _places_of(s):
    out = [s['place']]
    rv = s['rv']
    if 'place' in rv:
        out.append(rv['place'])
    for key in ('op', 'a', 'b'):
        o = rv.get(key)
        if isinstance(o, dict) and o.get('k') in ('copy', 'move'):
            out.append(o['place'])
    for o in rv.get('ops', []):
        if o.get('k') in ('copy', 'move'):
            out.append(o['place'])
    return out


# ------------------------------------------------------------------ C08-R3 / C15-R2 / C11-R3: the worker loop
class LoopModel:
    def __init__(self, m, rep, rid):
        self.ok = False
        self.m = m
        body = self.body = inl(m.cad, m.run)
        T = self.T = Terms(body)
        self.deqs = m.deq_calls(body, T)
        self.tasks = m.task_calls(body, T)
        if len(self.deqs) != 1 or len(self.tasks) != 1:
            rep.unknown(rid, 'run/loop-shape', m.run.where(),
                        'expected one dequeue site and one task call in the worker loop, found %d/%d' % (
                            len(self.deqs), len(self.tasks)))
            return
        self.d, self.dkind, self.dterm = self.deqs[0]
        self.t, self.tterm = self.tasks[0]
        be = C.back_edges(body)
        loops = [C.natural_loop(body, e) for e in be]
        self.loop = set()
        for lp in loops:
            if self.d in lp:
                self.loop |= lp
        if not self.loop or self.t not in self.loop:
            rep.unknown(rid, 'run/loop-shape', m.run.where(), 'dequeue and task call are not inside one loop')
            return
        self.ok = True


PROJ_CALLS = ('core::result::Result::ok', 'core::option::Option::flatten', 'core::option::Option::as_ref', 'core::result::Result::as_ref')


def proj_root(x):
    """strip payload/field projections and variant-preserving views (`.ok()`, `.flatten()`) down to the producing term"""
    while True:
        if x[0] in ('field', 'payload', 'load'):
            x = x[1]
        elif x[0] == 'call' and isinstance(x[1], str) and x[1] in PROJ_CALLS and len(x[2]) == 1:
            x = x[2][0]
        else:
            return x


def rule_loop(m, rep, rid='R3', drained=False, liveness=False):
    lm = LoopModel(m, rep, rid)
    if not lm.ok:
        return lm
    body, T = lm.body, lm.T
    rep.sites(2)
    # task argument is the dequeued metric
    arg = lm.tterm[2][1]
    v = arg[1][0] if arg[0] == 'tuple' and len(arg[1]) == 1 else None
    okv = False
    if v is not None:
        x = proj_root(v)
        okv = (x == lm.dterm) and any(y[0] == 'payload' and y[2] == m.v_metric for y in walk(v))
    rep.ob(rid, 'task-gets-the-dequeued-metric', okv, body.where(lm.t),
           'the task is called with the String just dequeued' if okv else 'the task is called with %s' % fmt(arg))
    dom = C.dominators(body)
    okd = lm.d in dom.get(lm.t, ())
    rep.ob(rid, 'dequeue-precedes-task', okd, body.where(lm.t), 'the dequeue dominates the task call')
    # metric edge: innermost switch edge on the dequeue's payload dominating t
    gs = guards_of(T, lm.t)
    metric_targets = []
    for dt, labels, bi in gs or []:
        x = norm(dt)
        if x[0] != 'discr':
            continue
        y = proj_root(x[1])
        if y == lm.dterm:
            # the successor that dominates t
            for s in body.succs(bi, False):
                if s in dom.get(lm.t, ()):
                    metric_targets.append(s)
    if not metric_targets:
        rep.bad(rid, 'metric-edge', body.where(lm.t), 'the task call is not guarded by a test of the dequeued value')
        return lm
    # innermost = the one dominated by all others
    inner = [s for s in metric_targets if all(o in dom.get(s, ()) for o in metric_targets)]
    start = inner[0] if inner else metric_targets[-1]
    lm.metric_entry = start
    exits = set(C.exits(body, False)) | {lm.d}
    mp = C.must_pass(body, start, exits, {lm.t})
    rep.ob(rid, 'every-dequeued-metric-is-handed-over', mp, body.where(start),
           'from the edge that yields a metric every path calls the task before the next dequeue/exit' if mp else
           'a dequeued metric can be dropped: a path reaches the next dequeue or the loop exit without calling the task')
    again = lm.t in reach(body, body.succs(lm.t, False), stop=lambda q: q == lm.d)
    rep.ob(rid, 'task-once-per-metric', not again, body.where(lm.t),
           'at most one task call per dequeue' if not again else 'the task can be called twice for one dequeued metric')
    back = lm.d in reach(body, body.succs(lm.t, False)) or any(
        q in reach(body, body.succs(lm.t, False)) for q in lm.loop if q in dom.get(lm.d, ()))
    rep.ob(rid, 'loop-continues-after-task', back, body.where(lm.t),
           'after the task the loop goes on to the next dequeue' if back else 'the worker leaves the loop after one metric')
    # nothing is re-enqueued (C11-R3)
    resend = m.sends(body, T)
    rep.ob(rid, 'no-requeue', not resend, body.where(resend[0][0]) if resend else body.where(),
           'run never sends on its own channel' if not resend else 'run re-enqueues on the worker channel')
    # non-metric outcomes of the dequeue leave the loop
    oe = outcome_edges(T, lm.d)
    if any(v2 == 'err' for v2 in oe.values()):
        paths = outcome_paths(T, lm.d, {'deq': {lm.d}, 'task': {lm.t}})
        errp = [(k, f, dict(c)) for k, f, c in paths if f == 'err']
        okx = bool(errp) and all(c['deq'] == 0 and c['task'] == 0 for k, f, c in errp)
        rep.ob(rid, 'disconnect-leaves-loop', okx, body.where(lm.d),
               'a failed dequeue (disconnected) ends the loop' if okx else
               'after a failed dequeue the loop continues (busy loop) or calls the task')
    if liveness and lm.dkind != 'blocking':
        # a timed / non-blocking receive also fails when the queue is merely empty: leaving the loop on that ends the
        # worker while handles are alive
        errs = [s for (b_, s), v2 in oe.items() if v2 == 'err']
        bad_exit = None
        for s in errs:
            region = reach(body, [s], stop=lambda q: q == lm.d)
            for q in region:
                for x in body.succs(q, False):
                    if q in lm.loop and x not in lm.loop or body.blocks[q]['term']['k'] == 'return':
                        gs = guards_of(T, q) or []
                        if not any(('variant', 'Disconnected') in labels for _, labels, _ in gs):
                            bad_exit = q
        rep.ob(rid, 'loop-ends-only-on-stop-or-disconnect', bad_exit is None, body.where(bad_exit if bad_exit is not None else lm.d),
               'an empty queue does not end the worker' if bad_exit is None else
               'the %s receive also fails when the queue is merely empty (timeout): leaving the loop on that error ends the worker '
               'while handles are alive, later metrics are never delivered' % lm.dkind)
    if drained and m.need_counters(rep, rid, ('drained',)):
        dr = set(bi for bi, t in body.calls() if not body.blocks[bi]['cleanup'] and
                 m.is_counter_op(norm(T.call_term(bi)), 'drained', 'fetch_add'))
        rep.sites(len(dr))
        # exactly one drained increment between the metric edge and the task call, none elsewhere in run
        seg = reach(body, [start], stop=lambda q: q == lm.t)
        in_seg = [b for b in dr if b in seg and b != lm.t]
        mp2 = bool(in_seg) and C.must_pass(body, start, {lm.t}, set(in_seg))
        cnt_ok = len(in_seg) == 1 and len(dr) == 1 and mp2
        rep.ob('C15-R2', 'drained-once-before-task', cnt_ok, body.where(list(dr)[0]) if dr else body.where(lm.t),
               'drained += 1 exactly once per dequeued metric, before it is handed to the wrapped sink' if cnt_ok else
               'drained is incremented %d time(s) in run, %d between dequeue and task call (must be exactly one, before '
               'the task: a sink that blocks or panics must already be counted)' % (len(dr), len(in_seg)))
    return lm


# ------------------------------------------------------------------ C08-R4 / C16-R1 : the task closure
def rule_task_closure(m, rep, rid='R4', handler=False, parts=None):
    b = m.task_closure
    if parts == ('unit',):
        rep.ob(rid, 'task-returns-unit', b.locals[0] == '()', b.where(), 'the task closure returns (): neither the emit result nor an error can leave the worker thread')
        return
    b0 = b
    b = inl(m.cad, b)       # nested closures / private helpers of the task are part of it
    T = Terms(b)
    emits = [bi for bi, t in b.calls() if not b.blocks[bi]['cleanup'] and callee_is(t, SINK_TRAIT + '::emit')]
    others = [bi for bi, t in b.calls() if not b.blocks[bi]['cleanup'] and
              callee_is(t, SINK_TRAIT + '::flush', SINK_TRAIT + '::stats')]
    rep.sites(len(emits))
    cnt = count_events(b, lambda x: x in emits)
    ok = bool(emits) and cnt == {1}
    rep.ob(rid, 'task-emits-exactly-once', ok, b.where(emits[0]) if emits else b.where(),
           'the task calls the wrapped sink\'s emit exactly once per metric' if ok else
           'the task calls the wrapped emit %s times per metric (retry/skip)' % sorted(cnt))
    if not ok or parts == ('once',):
        return
    text_ok = recv_ok = True
    for e in emits:
        ct = norm(T.call_term(e))
        fp = field_path_of(strip_views(ct[2][0]))
        r1 = bool(fp) and any(arc_inner(_capture_ty(b0, n_) or _capture_ty(b, n_) or '') is not None for n_ in fp)
        t1 = is_whole_param(ct[2][1], 2) and not any(x[0] == 'call' and x[1].endswith('to_string') for x in walk(ct[2][1]))
        if not t1 and text_ok:
            rep.ob(rid, 'task-emits-same-text', False, b.where(e), 'the wrapped emit receives %s' % fmt(ct[2][1]))
        if not r1 and recv_ok:
            rep.ob(rid, 'task-emits-into-captured-sink', False, b.where(e), 'receiver is %s' % fmt(ct[2][0]))
        text_ok, recv_ok = text_ok and t1, recv_ok and r1
    if text_ok:
        rep.ob(rid, 'task-emits-same-text', True, b.where(emits[0]), 'the wrapped emit receives the dequeued string unchanged')
    if recv_ok:
        rep.ob(rid, 'task-emits-into-captured-sink', True, b.where(emits[0]), 'the receiver is the captured Arc of the wrapped sink')
    rt = b.locals[0]
    rep.ob(rid, 'task-returns-unit', rt == '()', b.where(), 'the closure returns (): the emit result cannot leave the worker thread')
    if handler:
        hcalls_all = []
        for bi, t in b.calls():
            if b.blocks[bi]['cleanup']:
                continue
            if callee_is(t, 'core::ops::function::Fn>::call', 'core::ops::function::FnMut>::call_mut',
                         'core::ops::function::FnOnce>::call_once'):
                hcalls_all.append(bi)
        rep.sites(len(hcalls_all))
        bad = []
        claimed = set()
        for e in emits:
            ct = norm(T.call_term(e))
            after = reach(b, b.succs(e, False))
            hcalls = [h for h in hcalls_all if h in after]
            claimed |= set(hcalls)
            # an emit site that is only reached when no handler is configured owes nothing
            none_only = False
            for dt, labels, sbi in guards_of(T, e) or []:
                d = norm(dt)
                if d[0] == 'discr' and ('variant', 'None') in labels and 'MetricSink' not in fmt(d) and field_path_of(strip_views(d[1])) is not None:
                    none_only = True
            if none_only:
                if hcalls:
                    bad.append('a stored function is called although no handler is configured')
                continue
            paths = outcome_paths(T, e, {'h': set(hcalls)})
            for k, fact, counts in paths:
                c = dict(counts)['h']
                if fact == 'ok' and c != 0:
                    bad.append('handler invoked for an accepted metric')
                if fact == '?' and c != 0:
                    bad.append('handler invoked without examining the emit result')
            # on the Err edge: exactly once iff handler is Some
            ok_e, err_e, _ = outcomes(T, e)
            for h in hcalls:
                hct = norm(T.call_term(h))
                arg = hct[2][1]
                a0 = arg[1][0] if arg[0] == 'tuple' and len(arg[1]) == 1 else None
                exp = field_of(('payload', ct, 'Err'), '0', 0)
                if a0 != exp:
                    bad.append('handler argument is %s, not the error returned by the wrapped emit' % fmt(arg))
                # the callee is the captured Option<Box<dyn Fn>> payload
                fn = hct[2][0]
                if not any(x[0] == 'payload' and x[2] == 'Some' for x in walk(fn)):
                    bad.append('handler callee is not the Some payload of the configured handler')
                # ... of the handler as configured: between the stored Option and the call only views (as_ref, as_deref, deref,
                # clone of an Arc), nothing that can turn Some into None depending on the error (`.filter(|_| e.kind() != ..)`)
                for x in walk(fn):
                    if x[0] == 'payload' and x[2] == 'Some':
                        y = x[1]
                        while True:
                            y = strip_views(y)
                            if y[0] == 'call' and isinstance(y[1], str) and len(y[2]) == 1 and y[1] in (
                                    'core::option::Option::as_ref', 'core::option::Option::as_deref', 'core::option::Option::as_mut',
                                    '<core::option::Option as core::clone::Clone>::clone'):
                                y = y[2][0]
                                continue
                            break
                        if field_path_of(y) is None:
                            bad.append('the handler is looked up through %s: it can be missing although one is configured' % fmt(y)[:80])
                gs = guards_of(T, h) or []
                some_guard = any(norm(dt)[0] == 'discr' and any(l == ('variant', 'Some') for l in labels) for dt, labels, _ in gs)
                err_guard = h in reach(b, err_e) and h not in reach(b, ok_e)
                if not err_guard:
                    bad.append('handler call is not confined to the Err edge')
                if not some_guard:
                    bad.append('handler call is not guarded by handler.is_some')
            if err_e:
                # paths from the Err edge with handler Some must call once: count on err paths in {0,1} and the 0 only via None
                cnts = set()
                for k, fact, counts in paths:
                    if fact == 'err':
                        cnts.add(dict(counts)['h'])
                if 2 in cnts:
                    bad.append('handler can be invoked twice for one failure')
                if 1 not in cnts:
                    bad.append('handler is never invoked on failure')
                if len(hcalls) == 1:
                    h = hcalls[0]
                    exits = set(C.exits(b, False))
                    err_region = reach(b, err_e)
                    for dt, labels, sbi in guards_of(T, h) or []:
                        if norm(dt)[0] == 'discr' and ('variant', 'Some') in labels:
                            if sbi in err_region or sbi == e:
                                # handler tested after the failure: from its Some edge every path passes h ...
                                tgt = [s for s in b.succs(sbi, False) if h in reach(b, [s])]
                                # ... and every failure gets as far as that test (no other condition - "same kind as the
                                # previous failure", a rate limit - decides whether the handler is asked at all)
                                if sbi != e and not all(C.must_pass(b, s_, exits, {sbi}) for s_ in err_e):
                                    bad.append('with a handler configured a failure can go unreported (the handler is not consulted on every failure path)')
                            else:
                                # handler tested before the emit: from the Err edge every path passes h
                                tgt = list(err_e)
                            for s in tgt:
                                if not C.must_pass(b, s, exits, {h}):
                                    bad.append('with a handler configured a failure can go unreported')
            else:
                bad.append('emit result not examined')
        stray = [h for h in hcalls_all if h not in claimed]
        if stray:
            bad.append('a stored function is called before the wrapped emit')
        rep.ob('C16-R1', 'handler-once-per-failure', not bad, b.where(hcalls_all[0]) if hcalls_all else b.where(),
               'handler called exactly once with the emit error on Err ∧ Some(handler), never otherwise' if not bad else
               '; '.join(sorted(set(bad))))


def _capture_ty(b, name):
    """type of the closure capture `name` (from the place projections that read it)."""
    for blk in b.blocks:
        for s in blk['stmts']:
            if s['k'] != 'assign':
                continue
            for pl in _places_of(s):
                for e in pl['p']:
                    if e[0] == 'field' and e[2] == name:
                        return e[3]
        t = blk['term']
        if t['k'] == 'call':
            for a in t['args']:
                if a.get('k') in ('copy', 'move'):
                    for e in a['place']['p']:
                        if e[0] == 'field' and e[2] == name:
                            return e[3]
    return None


# ------------------------------------------------------------------ C08-R6 same channel
def _nested_get(adt_term, name, depth=0):
    """value of the (possibly nested) field `name` in an aggregate term"""
    if adt_term[0] != 'adt' or depth > 3:
        return None
    fs = dict(adt_term[3])
    if name in fs:
        return fs[name]
    for v in fs.values():
        v = norm(v)
        if v[0] == 'adt':
            r = _nested_get(v, name, depth + 1)
            if r is not None:
                return r
    return None


def rule_same_channel(m, rep, rid='R6'):
    news = names(m.cad).constructors(m.worker)
    b = one(rep, rid, 'worker constructor', news)
    if b is None:
        return
    rep.analysed(b)
    T = Terms(inl(m.cad, b))
    rts = ret_terms(T, [0])
    ok = False
    msg = 'constructor returns %s' % [fmt(x)[:200] for x in rts]
    if len(rts) == 1:
        r = list(rts)[0]
        if r[0] == 'adt' and r[1] == m.worker:
            fs = dict(r[3])
            s, rc = _nested_get(r, m.f_sender), _nested_get(r, m.f_receiver)
            if s and rc and s[0] == 'field' and rc[0] == 'field' and s[1] == rc[1] and s[2] == 0 and rc[2] == 1:
                srcs = flatten_phi(s[1])
                ok = all(x[0] == 'call' and (x[1].endswith('crossbeam_channel::channel::bounded') or
                                            x[1].endswith('crossbeam_channel::channel::unbounded')) for x in srcs)
                msg = 'sender and receiver are the two halves of one bounded()/unbounded() call'
            self_cap = fs
    rep.ob(rid, 'one-channel', ok, b.where(), msg)
    return


# ------------------------------------------------------------------ C10-R3 capacity plumbing (+ builder frame)
def rule_capacity(m, rep, rid='R3', frame=False):
    cad = m.cad
    news = names(cad).constructors(m.worker)
    b = one(rep, rid, 'worker constructor', news)
    if b is None:
        return
    ib = inl(cad, b)
    T = Terms(ib)
    bnd = [bi for bi, t in ib.calls() if callee_is(t, 'crossbeam_channel::channel::bounded') and not ib.blocks[bi]['cleanup']]
    unb = [bi for bi, t in ib.calls() if callee_is(t, 'crossbeam_channel::channel::unbounded') and not ib.blocks[bi]['cleanup']]
    other = [bi for bi, t in ib.calls() if 'crossbeam_channel' in t.get('callee', '') and bi not in bnd + unb]
    rep.sites(len(bnd) + len(unb))
    ok = len(bnd) == 1 and len(unb) == 1 and not other
    rep.ob(rid, 'channel-constructors', ok, ib.where(bnd[0]) if bnd else b.where(), 'one bounded(v) and one unbounded() site')
    if ok:
        ct = norm(T.call_term(bnd[0]))
        exp = field_of(('payload', ('param', 1), 'Some'), '0', 0)
        okc = ct[2][0] == exp
        rep.ob(rid, 'bounded-uses-given-capacity', okc, ib.where(bnd[0]),
               'Some(v) => bounded(v) with exactly that v' if okc else 'the queue is created with capacity %s instead of the configured one' % fmt(ct[2][0]))
        g = guards_of(T, bnd[0]) or []
        okg = any(norm(dt) == ('discr', ('param', 1), norm(dt)[2]) and ('variant', 'Some') in labels for dt, labels, _ in g)
        gu = guards_of(T, unb[0]) or []
        oku = any(norm(dt)[0] == 'discr' and norm(dt)[1] == ('param', 1) and ('variant', 'None') in labels for dt, labels, _ in gu)
        rep.ob(rid, 'none-means-unbounded', okg and oku, ib.where(unb[0]), 'bounded iff capacity is Some, unbounded iff None')
    # build passes builder.capacity
    Tb = Terms(m.build)
    wn = [bi for bi, t in m.build.calls() if t.get('resolved') == b.path]
    okb = len(wn) == 1 and self_field_name(norm(Tb.call_term(wn[0]))[2][0]) == names(cad).qb_capacity and \
        norm(Tb.call_term(wn[0]))[2][0][0] == 'field'
    rep.ob(rid, 'build-passes-capacity', okb, m.build.where(wn[0]) if wn else m.build.where(),
           'build() passes self.capacity to the worker' if okb else 'build() does not pass the configured capacity unchanged')
    # builder setters: each changes exactly its field
    rule_builder_frame(cad, rep, QB, {'with_capacity': (names(cad).qb_capacity, 'some-param')}, rid='builder', value_only=not frame, protect=names(cad).qb_capacity, protect_label='capacity')
    # public constructors
    for name, want in (('with_capacity', True), ('from', False)):
        bs = cad.method(Q, name)
        cb = one(rep, rid, 'QueuingMetricSink::%s' % name, bs)
        if cb is None:
            continue
        rep.analysed(cb)
        ib2 = inl(cad, cb, never=lambda x: x.path == m.build.path)
        T2 = Terms(ib2)
        bc = [bi for bi, t in ib2.calls() if t.get('resolved') == m.build.path]
        if len(bc) != 1:
            rep.bad(rid, '%s/calls-build' % name, cb.where(), 'constructor does not call build() exactly once')
            continue
        ct = norm(T2.call_term(bc[0]))
        bld = ct[2][0]
        sinkarg = ct[2][1]
        cap = _field_value(bld, names(cad).qb_capacity)
        if want:
            okc = cap is not None and cap[0] == 'adt' and cap[2] == 'Some' and dict(cap[3])['0'] == ('param', 2)
            msg = 'capacity = Some(given capacity)'
        else:
            okc = cap is not None and (
                (cap[0] == 'adt' and cap[2] == 'None') or
                (cap[0] == 'call' and cap[1].endswith('as core::default::Default>::default') and 'Option' in cap[1]))
            msg = 'capacity left None (unbounded)'
        rep.ob(rid, '%s/capacity' % name, okc and sinkarg == ('param', 1), cb.where(),
               msg if okc else 'builder passed to build() has capacity %s' % (fmt(cap) if cap else '?'))


def _field_value(t, name):
    """Value of field `name` of an aggregate term built through updates / derived Default."""
    t = norm(t)
    path = tuple(name) if isinstance(name, (tuple, list)) else (name,)
    name = path[0]
    if len(path) > 1:
        while True:
            if t[0] == 'update':
                if tuple(t[2]) == path:
                    return t[3]
                t = t[1]
                continue
            if t[0] == 'mutated':
                t = t[1]
                continue
            if t[0] == 'adt':
                v = dict(t[3]).get(name)
                return _field_value(v, path[1:]) if v is not None else None
            return None
    while True:
        if t[0] == 'update':
            if t[2] == (name,):
                return t[3]
            t = t[1]
            continue
        if t[0] == 'mutated':
            t = t[1]
            continue
        if t[0] == 'adt':
            return dict(t[3]).get(name)
        if t[0] == 'phi':
            vals = set(_field_value(x, name) for x in t[1])
            return list(vals)[0] if len(vals) == 1 else None
        return None


def rule_builder_frame(cad, rep, adt, setters, rid='builder', value_only=False, protect=None, protect_label=None):
    """Every `with_X(mut self, ..) -> Self` returns self with exactly field X replaced."""
    fields = [f['name'] for f in adt_fields(cad, adt)]
    short = adt.rsplit('::', 1)[-1]
    for b in cad.method(adt, '*' and None) if False else [x for x in cad.all_bodies if x.impl_self and type_head(x.impl_self) == adt
                                                         and x.impl_trait is None and x.def_kind == 'AssocFn']:
        if not (b.arg_count >= 1 and type_head(b.locals[1]) == adt and not b.locals[1].startswith('&')
                and type_head(b.locals[0]) == adt):
            continue
        rep.analysed(b)
        # other setters of the same builder that this one goes through are inlined (`with_capacity_opt` -> `with_capacity`)
        try:
            T = Terms(inl(cad, b, only=lambda x: bool(x.impl_self) and type_head(x.impl_self) == adt and x.impl_trait is None))
        except Exception:
            T = Terms(b)
        rts = ret_terms(T, [0])
        changed = set()
        okshape = True
        vals = {}
        for r in rts:
            x = r
            while True:
                if x[0] == 'update':
                    # an update of a field inside a nested private config struct counts for its leaf field
                    leaf = x[2][-1] if all(isinstance(e_, str) for e_ in x[2]) else x[2][0]
                    changed.add(leaf)
                    vals[leaf] = x[3]
                    x = x[1]
                elif x[0] == 'mutated':
                    okshape = False
                    break
                elif x == ('param', 1):
                    break
                elif x[0] == 'adt' and x[1] == adt:
                    for n, v in x[3]:
                        if v != ('field', ('param', 1), n):
                            changed.add(n)
                            vals[n] = v
                    break
                else:
                    okshape = False
                    break
        exp = setters.get(b.name)
        if protect is not None and okshape and (exp is None or exp[0] != protect):
            keeps = protect not in changed
            if not keeps and b.arg_count == 2:
                # a second setter for the very same field (`with_capacity_opt(Option<usize>)`): the new value is its own
                # argument - as it is, its Some payload re-wrapped, or None where the argument is None
                v_ = vals.get(protect)
                def from_arg(v):
                    v = norm(v)
                    if v[0] == 'phi':
                        return all(from_arg(x) for x in v[1])
                    if v == ('param', 2):
                        return True
                    if v[0] == 'adt' and v[2] == 'None' and b.locals[2].replace(' ', '').startswith('core::option::Option<'):
                        return True
                    if v[0] == 'adt' and v[2] == 'Some' and len(v[3]) == 1:
                        w = norm(v[3][0][1])
                        return w == ('param', 2) or (w[0] == 'field' and w[1][0] == 'payload' and w[1][1] == ('param', 2) and w[1][2] == 'Some')
                    return False
                keeps = v_ is not None and from_arg(v_)
            rep.ob(rid, '%s::%s/keeps-%s' % (short, b.name, protect_label or protect), keeps, b.where(),
                   '%s carries the configured `%s` over' % (b.name, protect) if keeps else
                   'builder method %s loses/overwrites the configured `%s`' % (b.name, protect))
        if protect is not None and not okshape:
            rep.unknown(rid, '%s::%s/keeps-%s' % (short, b.name, protect_label or protect), b.where(), 'cannot see that %s keeps `%s`' % (b.name, protect))
        if value_only:
            if exp is None:
                continue
            v = vals.get(exp[0])
            if exp[1] == 'some-box':
                okv = v is not None and v[0] == 'adt' and v[2] == 'Some' and any(x == ('param', 2) for x in walk(v)) and \
                    any(x[0] == 'call' and x[1].endswith(('alloc::boxed::Box::new', 'alloc::sync::Arc::new')) and x[2] == (('param', 2),) for x in walk(v))
            elif exp[1] is None:
                continue
            else:
                okv = v is not None and v[0] == 'adt' and v[2] == 'Some' and dict(v[3])['0'] == ('param', 2)
            rep.ob(rid, '%s::%s/value' % (short, b.name), okv, b.where(), 'stores Some(param) into `%s`' % exp[0] if okv else '%s does not store Some(argument) into `%s`' % (b.name, exp[0]))
            continue
        if not okshape:
            if exp is None and protect is None:
                # a builder method outside the table (new API, e.g. a bulk setter folding over a known one): nothing is
                # claimed about it here; what the *known* setters and the constructor do is checked
                rep.note('%s::%s: shape not followed, not part of this rule' % (short, b.name))
                continue
            rep.bad(rid, '%s::%s/frame' % (short, b.name), b.where(), 'setter returns %s: cannot see that the other fields are kept' % [fmt(r)[:160] for r in rts])
            continue
        if exp is None:
            rep.ob(rid, '%s::%s/frame' % (short, b.name), True, b.where(), 'changes only %s' % sorted(changed))
            continue
        want_fields = set(exp[0]) if isinstance(exp[0], (list, tuple, set)) else {exp[0]}
        okf = changed == want_fields
        rep.ob(rid, '%s::%s/frame' % (short, b.name), okf, b.where(),
               'replaces exactly `%s`, every other field is carried over' % sorted(want_fields) if okf else
               'builder method changes %s (expected only %s): other configuration is lost' % (sorted(changed), sorted(want_fields)))
        if okf and exp[1] == 'some-param':
            v = vals[exp[0]]
            okv = v[0] == 'adt' and v[2] == 'Some' and dict(v[3])['0'] == ('param', 2)
            rep.ob(rid, '%s::%s/value' % (short, b.name), okv, b.where(), 'stores Some(param)' if okv else 'stores %s' % fmt(v))
        if okf and exp[1] == 'some-box':
            v = vals[exp[0]]
            okv = v[0] == 'adt' and v[2] == 'Some' and any(x == ('param', 2) for x in walk(v)) and \
                any(x[0] == 'call' and x[1].endswith(('alloc::boxed::Box::new', 'alloc::sync::Arc::new')) and x[2] == (('param', 2),) for x in walk(v))
            rep.ob(rid, '%s::%s/value' % (short, b.name), okv, b.where(), 'stores Some(Box::new(param))' if okv else 'stores %s' % fmt(v))


# ------------------------------------------------------------------ C10-R1 isolation
def rule_isolation(m, rep, rid='R1'):
    emit = _emit_body(m)
    if emit is None:
        rep.anchor_lost(rid, 'QueuingMetricSink::emit')
        return
    bodies = transitive_local(m.cad, [emit])
    bad = []
    for b in bodies:
        rep.analysed(b)
        T = Terms(b)
        for bi, t in b.calls():
            if b.blocks[bi]['cleanup']:
                continue
            rep.sites()
            if callee_is(t, SINK_TRAIT + '::emit', SINK_TRAIT + '::flush', SINK_TRAIT + '::stats'):
                bad.append((b, bi, 'calls the wrapped sink (%s) on the caller\'s thread' % strip_generics(t['callee'])))
            elif callee_is(t, *BLOCKING):
                bad.append((b, bi, 'may block: %s' % strip_generics(t['callee_full'])))
            elif callee_is(t, 'Mutex::lock', 'RwLock::read', 'RwLock::write', 'Condvar::wait'):
                bad.append((b, bi, 'takes a lock: %s' % strip_generics(t['callee_full'])))
            elif callee_is(t, 'core::ops::function::Fn>::call', 'core::ops::function::FnMut>::call_mut', 'core::ops::function::FnOnce>::call_once'):
                bad.append((b, bi, 'calls a stored closure (the worker task?) on the caller\'s thread'))
    if bad:
        for b, bi, why in bad:
            rep.bad(rid, 'emit-isolated/%s' % b.short(), b.where(bi), 'QueuingMetricSink::emit %s' % why)
    else:
        rep.good(rid, 'emit-isolated', emit.where(), 'emit reaches %d local bodies; none calls the wrapped sink, the task, a lock or a blocking primitive' % len(bodies))


# ------------------------------------------------------------------ C15-R3/R4, C11-R4
def rule_counters(m, rep, only=None):
    """only: restrict to these counters (C11 talks about `panics` only) and skip the queued() arithmetic"""
    cad = m.cad
    if not m.need_counters(rep, 'C15-R3', only or ('submitted', 'drained', 'panics')):
        return
    import struct
    from .sockets import UNSIGNED_BITS, peel_widening
    host64 = struct.calcsize('P') * 8 >= 64
    narrow = sorted('%s is kept in a %s' % (n_, w_) for n_, w_ in m.counter_width.items() if (only is None or n_ in only) and
                    (UNSIGNED_BITS[w_] < 64 or (w_ == 'usize' and not host64)))
    rep.ob('C15-R3', 'counter-as-wide-as-its-figure', not narrow, '',
           'every counter is at least as wide as the u64 its getter reports (usize counts as 64 bits on the analysed target)' if not narrow else
           'a counter narrower than the u64 it is reported as wraps while the sink is in use: %s' % '; '.join(narrow))
    ops = []
    # a counter may be a private newtype around the atomic: its methods are analysed where they are applied to a counter
    wrappers = set()
    for f in adt_fields(cad, m.stats_adt):
        if f['name'] in m.counters.values() and type_head(f['ty']) in cad.adts:
            wrappers.add(type_head(f['ty']))
    # ... or be updated through a private helper that is handed the atomic (`fn bump(c: &AtomicU64, order)`): analysed where
    # it is applied to a counter, too
    helpers = set(x.path for x in cad.all_bodies if in_module_of(x, Q) and x.def_kind in ('Fn', 'AssocFn') and not x.j.get('reachable') and
                  any(x.locals[i].startswith('&') and 'core::sync::atomic::Atomic' in x.locals[i] for i in range(1, x.arg_count + 1)))
    for b in cad.all_bodies:
        if not in_module_of(b, Q):
            continue
        if wrappers or helpers:
            if (b.impl_self and type_head(b.impl_self) in wrappers) or b.path in helpers:
                continue
            b = inline(cad, b, local_picker(cad, only=lambda x: (bool(x.impl_self) and type_head(x.impl_self) in wrappers) or x.path in helpers))
        T = None
        for bi, t in b.calls():
            if b.blocks[bi].get('dead'):
                continue
            if not callee_is(t, 'core::sync::atomic::Atomic::fetch_add', 'core::sync::atomic::Atomic::store',
                             'core::sync::atomic::Atomic::fetch_sub', 'core::sync::atomic::Atomic::swap',
                             'core::sync::atomic::Atomic::compare_exchange', 'core::sync::atomic::Atomic::fetch_update',
                             'core::sync::atomic::Atomic::fetch_max', 'core::sync::atomic::Atomic::fetch_min',
                             'core::sync::atomic::Atomic::compare_exchange_weak', 'core::sync::atomic::Atomic::get_mut',
                             'core::sync::atomic::Atomic::fetch_and', 'core::sync::atomic::Atomic::fetch_or'):
                continue
            if T is None:
                T = Terms(b)
            ct = norm(T.call_term(bi))
            for cname, fld in m.counters.items():
                if _path_has_field(ct[2][0], fld) and (only is None or cname in only):
                    ops.append((cname, b, bi, ct))
    rep.floor('C15-R3', 'writes to the three counters' if only is None else 'writes to %s' % '/'.join(only), len(ops), 3 if only is None else len(only))
    for cname, b, bi, ct in ops:
        rep.sites()
        opn = ct[1].rsplit('::', 1)[-1]
        ok = opn == 'fetch_add' and ct[2][1][0] == 'const' and ct[2][1][1] in UNSIGNED_BITS and ct[2][1][2] == '1'
        rep.ob('C15-R3', '%s/%s' % (cname, b.short()), ok, b.where(bi),
               '%s changes only by one atomic fetch_add(1)' % cname if ok else '%s is modified by %s(%s)' % (cname, opn, fmt(ct[2][1])))
    writers = {}
    for cname, b, bi, ct in ops:
        writers.setdefault(cname, set()).add(_owner(cad, b, m))
    for cname, ws in sorted(writers.items()):
        ok = len(ws) == 1
        rep.ob('C15-R3', '%s/single-writer-site' % cname, ok, '', '%s is incremented from %s' % (cname, sorted(ws)))
    if only is not None:
        return
    # queued()
    # the public queued(), with whatever private helper computes it inlined
    qb = cad.method(Q, 'queued')
    if len(qb) == 1:
        b = inl(cad, qb[0])
        rep.analysed(qb[0])
        for p_, _, _ in getattr(b, 'inlined', None) or []:
            if p_ in cad.bodies:
                rep.analysed(cad.bodies[p_])
        T = Terms(b)
        subs = [(bi, blk) for bi, blk in enumerate(b.blocks) if blk['term']['k'] == 'assert' and 'Overflow(Sub)' in blk['term']['msg']]
        sat = [bi for bi, t in b.calls() if callee_is(t, 'saturating_sub', 'checked_sub')]
        raw = []
        for bi, blk in enumerate(b.blocks):
            for si, s in enumerate(blk['stmts']):
                if s['k'] == 'assign' and s['rv']['k'] == 'bin' and s['rv']['op'] in ('Sub', 'SubWithOverflow', 'SubUnchecked'):
                    raw.append((bi, si))
        wrapping = [bi for bi, t in b.calls() if callee_is(t, 'wrapping_sub', 'unchecked_sub', 'overflowing_sub')]
        okq = True
        why = []

        def atom(t):
            t = peel_widening(norm(t))[0]
            if term_callee_is(t, 'core::sync::atomic::Atomic::load'):
                # two loads of one counter are two values (the counter moves between them): atoms are per load site
                if _path_has_field(t[2][0], m.counters['submitted']):
                    return 'S@%s' % (t[3],)
                if _path_has_field(t[2][0], m.counters['drained']):
                    return 'D@%s' % (t[3],)
            return None
        for bi, si in raw:
            s = b.blocks[bi]['stmts'][si]
            tm = norm(T.rvalue_term(s['rv'], bi, si))
            try:
                diff = L.lin_of(('bin', 'Sub', tm[2], tm[3]), atom)
            except L.Unknown as e:
                okq = False
                why.append('subtraction of %s not understood (%s)' % (fmt(tm), e))
                continue
            lins = []
            for dt, labels, sbi in guards_of(T, bi) or []:
                for lab in labels:
                    if lab[0] == 'bool':
                        try:
                            lins.append(L.guard_ge0(norm(dt), lab[1], atom))
                        except L.Unknown:
                            pass
            ent = False
            for g in lins:
                try:
                    if L.entails(g, diff):
                        ent = True
                except L.Unknown:
                    pass
            if not ent:
                okq = False
                why.append('`%s` is not guarded by a comparison that makes it non-negative: the two counters are read '
                           'at different moments, so it can wrap (or panic with overflow checks)' % fmt(tm))
        if wrapping:
            okq = False
            why.append('wrapping/unchecked subtraction')
        if not raw and not sat:
            okq = False
            why.append('queued() does not compute submitted - drained')
        rep.ob('C15-R4', 'queued-never-wraps', okq, b.where(),
               'the subtraction is dominated by submitted > drained (or saturating): result in [0, submitted]' if okq else '; '.join(why))
        # a constant 0 is returned only when there is nothing ahead: the branch that answers 0 lies behind guards that entail
        # drained >= submitted (`if submitted > drained + 1 { .. } else { 0 }` hides a backlog of one)
        zero_bad = []
        for bi, blk in enumerate(b.blocks):
            if blk['cleanup'] or blk.get('dead'):
                continue
            for si, s in enumerate(blk['stmts']):
                if s['k'] == 'assign' and not s['place']['p'] and s['rv']['k'] == 'use' and s['rv']['op'].get('k') == 'const' and \
                        str(s['rv']['op'].get('val')) == '0' and s['rv']['op'].get('ty') in ('u64', 'usize'):
                    # does this constant flow into the return value?
                    if not any(x == ('const', s['rv']['op'].get('ty'), '0', None) for r_ in ret_terms(T, [bi]) for x in flatten_phi(norm(r_))):
                        continue
                    lins = []
                    for dt, labels, sbi in guards_of(T, bi) or []:
                        for lab in labels:
                            if lab[0] == 'bool':
                                try:
                                    lins.append(L.guard_ge0(norm(dt), lab[1], atom))
                                except L.Unknown:
                                    pass
                    # D - S >= 0 for some pair of load sites of the two counters
                    ent = False
                    for g in lins:
                        ats = [a_ for a_ in getattr(g, 'coef', {}) or {}]
                        ss = [a_ for a_ in ats if a_.startswith('S')]
                        ds = [a_ for a_ in ats if a_.startswith('D')]
                        for s_ in ss:
                            for d_ in ds:
                                try:
                                    if L.entails(g, L.Lin({d_: 1, s_: -1}, 0)):
                                        ent = True
                                except L.Unknown:
                                    pass
                    if not ent:
                        zero_bad.append(bi)
        if raw:
            rep.ob('C15-R4', 'queued-zero-only-when-nothing-is-ahead', not zero_bad, b.where(zero_bad[0]) if zero_bad else b.where(),
                   'the branch answering 0 is taken only when drained >= submitted' if not zero_bad else
                   'queued() can answer 0 although submitted is ahead of drained (the guard of the 0 branch does not entail drained >= submitted)')
        # ... and it is submitted - drained, not the other way round (which `saturating_sub` would quietly turn into 0)
        dirs = []
        for bi, si in raw:
            tm = norm(T.rvalue_term(b.blocks[bi]['stmts'][si]['rv'], bi, si))
            dirs.append(((atom(tm[2]) or '?')[0], (atom(tm[3]) or '?')[0], bi))
        for bi in sat:
            ct = norm(T.call_term(bi))
            if ct[0] == 'call' and len(ct[2]) == 2:
                dirs.append(((atom(ct[2][0]) or '?')[0], (atom(ct[2][1]) or '?')[0], bi))
        okdir = bool(dirs) and all(a_ == 'S' and c_ == 'D' for a_, c_, _ in dirs)
        rep.ob('C15-R4', 'queued-is-submitted-minus-drained', okdir, b.where(dirs[0][2]) if dirs else b.where(),
               'the difference is taken as submitted - drained' if okdir else 'the difference is taken as %s' % ['%s - %s' % (a_, c_) for a_, c_, _ in dirs])
        # whatever queued() returns is that difference or the constant 0 (`else { 1 }` is neither)
        def _is_diff(x):
            x = norm(x)
            if x[0] == 'field' and str(x[2]) == '0' and x[1][0] == 'bin':
                x = x[1]
            if x[0] == 'bin' and x[1] in ('Sub', 'SubWithOverflow', 'SubUnchecked'):
                return True
            return x[0] == 'call' and isinstance(x[1], str) and x[1].rsplit('::', 1)[-1] in ('saturating_sub', 'wrapping_sub')
        leaves = [x for r_ in ret_terms(T, [0]) for x in flatten_phi(norm(r_))]
        odd = [x for x in leaves if not (_is_diff(x) or (x[0] == 'const' and str(x[2]) == '0') or
                                         (x[0] == 'call' and isinstance(x[1], str) and x[1].endswith('::unwrap_or') ))]
        rep.ob('C15-R4', 'queued-returns-difference-or-zero', not odd, b.where(),
               'queued() returns submitted - drained or 0' if not odd else 'queued() can also return %s' % [fmt(x)[:60] for x in odd[:3]])
        # uses the two counters
        loads = [norm(T.call_term(bi)) for bi, t in b.calls() if callee_is(t, 'core::sync::atomic::Atomic::load')]
        names_ = sorted(set(atom(x)[0] for x in loads if atom(x)))
        rep.ob('C15-R4', 'queued-reads-submitted-and-drained', names_ == ['D', 'S'], b.where(), 'reads %s' % names_)
    else:
        rep.anchor_lost('C15-R4', 'QueuingMetricSink::queued()')
    # constructor zeroes
    nb = role_names(cad).constructors(m.stats_adt)
    if len(nb) == 1:
        rts = ret_terms(Terms(inl(cad, nb[0])), [0])
        ok = False

        def zero(v):
            if v is not None and v[0] == 'adt' and len(v[3]) == 1 and v[1] in wrappers:
                return zero(norm(v[3][0][1]))
            return v is not None and ((term_callee_is(v, 'core::sync::atomic::Atomic::new') and v[2][0][0] == 'const' and v[2][0][1] in ('u8', 'u16', 'u32', 'u64', 'usize') and v[2][0][2] == '0')
                                      or term_callee_is(v, '<core::sync::atomic::Atomic as core::default::Default>::default'))
        if len(rts) == 1 and list(rts)[0][0] == 'adt':
            fs = dict(list(rts)[0][3])
            ok = all(zero(fs.get(f)) for f in m.counters.values())
        rep.ob('C15-R3', 'counters-start-at-zero', ok, nb[0].where(), 'all counters initialised to 0')


def _path_ends_in_stats(loc, m):
    return True


def _owner(cad, b, m):
    """Name the logical writer: the non-stats function that (transitively) calls this increment helper."""
    callers = [x for x in cad.all_bodies for bi, t in x.calls() if t.get('resolved') == b.path]
    if b.impl_self and type_head(b.impl_self) == m.stats_adt and callers:
        return ','.join(sorted(set(c.short() for c in callers)))
    return b.short()
