"""C01 grammar skeleton: output events of the formatter checked against the DogStatsD line grammar (R1,R2,R5),
type codes (R3), setter flow / roles (R9), standalone constructors (R8)."""
from .. import cfg as C
from .. import typestate as TS
from .. import linear as L
from ..fmtdec import decode, skeleton, BadTemplate
from ..nfa import compile_re
from ..terms import Terms, norm, fmt, walk, field_of
from .common import *

MB = 'cadence::builder::MetricBuilder'
MV = 'cadence::builder::MetricValue'
KINDS7 = [('Counter', 'c'), ('Timer', 'ms'), ('Gauge', 'g'), ('Meter', 'm'), ('Histogram', 'h'), ('Distribution', 'd'), ('Set', 's')]

LINE = ('seq', [
    ('val', 'prefix'), ('val', 'key'), ('lit', ':'), ('val', 'val'), ('lit', '|'), ('val', 'type'),
    ('opt', ('seq', [('lit', '|@'), ('val', 'rate')])),
    ('opt', ('seq', [('lit', '|#'),
                     ('star', ('seq', [('opt', ('lit', ',')), ('opt', ('seq', [('val', 'tagkey'), ('lit', ':')])), ('val', 'tagval')]))])),
    ('opt', ('seq', [('lit', '|c:'), ('val', 'cid')])),
    ('opt', ('seq', [('lit', '|T'), ('val', 'ts')])),
])
# Path-insensitive typestate cannot relate "index > 0" to "not the first iteration", so the grammar lets the separator
# be optional before every tag; the rules R2 tags/* then require: "|#" iff !is_empty, "," iff enumerate-index > 0 of the
# same forward loop. Together: tag (, tag)* exactly.

VALUES = ('star', ('seq', [('opt', ('lit', ':')), ('val', 'item')]))
VALUES_STRICT = ('opt', ('seq', [('val', 'item'), ('star', ('seq', [('lit', ':'), ('val', 'item')]))]))


def line_grammar(strict):
    tag = ('seq', [('opt', ('seq', [('val', 'tagkey'), ('lit', ':')])), ('val', 'tagval')])
    if strict:
        tags = ('seq', [('lit', '|#'), tag, ('star', ('seq', [('lit', ','), tag]))])
    else:
        tags = ('seq', [('lit', '|#'), ('star', ('seq', [('opt', ('lit', ',')), tag]))])
    return ('seq', [('val', 'prefix'), ('val', 'key'), ('lit', ':'), ('val', 'val'), ('lit', '|'), ('val', 'type'),
                    ('opt', ('seq', [('lit', '|@'), ('val', 'rate')])), ('opt', tags),
                    ('opt', ('seq', [('lit', '|c:'), ('val', 'cid')])), ('opt', ('seq', [('lit', '|T'), ('val', 'ts')]))])


def strip_mut(t):
    while True:
        if t[0] in ('mutated',):
            t = t[1]
        elif t[0] in ('ref', 'deref', 'unsize', 'autoderef'):
            t = t[1]
        else:
            return t


def _is_kind_enum(cad, path):
    """the private field-less enum of metric kinds in the builder module (whatever it is called)"""
    a = cad.adts.get(path)
    return bool(a) and a['kind'] == 'Enum' and path.startswith('cadence::builder::') and len(a['variants']) == 7 and \
        all(not v['fields'] for v in a['variants'])


class FormatterModel:
    def __init__(self, ctx, rep):
        self.ok = False
        cad = self.cad = ctx.cad
        ts = cad.method(MB, 'try_send')
        if len(ts) != 1:
            rep.anchor_lost('F0', 'MetricBuilder::try_send')
            return
        self.try_send = ts[0]
        T = Terms(self.try_send)
        # the producer of the String that flows into T::from
        fm = None
        for bi, t in self.try_send.calls():
            if callee_is(t, 'as core::convert::From>::from') and not self.try_send.blocks[bi]['cleanup']:
                ct = norm(T.call_term(bi))
                a = ct[2][0]
                if a[0] == 'call' and isinstance(a[1], str):
                    cands = [b for b in cad.all_bodies if strip_generics(b.path) == a[1]]
                    if len(cands) == 1:
                        fm = cands[0]
        if fm is None:
            rep.anchor_lost('F0', 'formatter function (producer of the String given to T::from in try_send)')
            return
        self.format = fm
        self.F = type_head(fm.locals[1])
        if self.F not in cad.adts:
            rep.anchor_lost('F0', 'formatter type')
            return
        rep.analysed(fm)
        self.fields = adt_fields(cad, self.F)
        self.ok = True
        self._roles_state = None

    def need_roles(self, rep, which=None):
        """Formatter fields by role (constructor + public setters). Only rules that talk about fields need this;
        `which` limits the demand to some roles (a property that only talks about the rate does not care whether the
        container-id setter has a recognisable shape)."""
        if self._roles_state is None:
            self.missing = {}
            self.roles = {}
            self.role_of = {}
            self._find_roles()
            self._roles_state = True
        need = which or ('prefix', 'key', 'val', 'type', 'ts', 'rate', 'cid', 'tags')
        ok = True
        for r in need:
            if r in self.missing:
                ok = False
                kind, where_, msg = self.missing[r]
                if kind == 'anchor':
                    rep.anchor_lost('R9', msg)
                else:
                    rep.unknown('R9', 'formatter-role/%s' % r, where_, msg)
        return ok

    def _find_roles(self):
        cad, fm = self.cad, self.format
        roles = self.roles
        ALL = ('prefix', 'key', 'val', 'type', 'ts', 'rate', 'cid', 'tags')
        cn = cad.method('cadence::types::Counter', 'new')
        if len(cn) != 1:
            for r in ALL:
                self.missing[r] = ('anchor', '', 'Counter::new')
            return
        ib = inl(cad, cn[0], never=lambda b: b.path == fm.path)
        Tc = Terms(ib)
        agg = None
        for bi, t in ib.calls():
            if t.get('resolved') == fm.path:
                a = strip_mut(norm(Tc.call_term(bi))[2][0])
                if a[0] == 'adt' and a[1] == self.F:
                    agg = a
        if agg is None:
            for r in ALL:
                self.missing[r] = ('unknown', cn[0].where(), 'Counter::new does not build the formatter by a visible aggregate')
            return
        self.ctor_agg = agg
        for n, v in agg[3]:
            pv = peel(v)
            if pv == ('param', 1):
                roles['prefix'] = n
            elif pv == ('param', 2):
                roles['key'] = n
            elif v[0] == 'adt' and v[1] == MV:
                roles['val'] = n
            elif v[0] == 'adt' and _is_kind_enum(cad, v[1]):
                roles['type'] = n
        # setters
        for meth, role in (('with_timestamp', 'ts'), ('with_sampling_rate', 'rate'), ('with_container_id', 'cid'), ('with_tag', 'tags')):
            bs = cad.method(MB, meth)
            if len(bs) != 1:
                self.missing[role] = ('anchor', '', 'MetricBuilder::%s' % meth)
                continue
            ibs = inl(cad, bs[0])
            Ts = Terms(ibs)
            found = None
            if role == 'tags':
                for bi, t in ibs.calls():
                    if callee_is(t, 'alloc::vec::Vec::push') and not ibs.blocks[bi]['cleanup']:
                        loc = peel(norm(Ts.call_term(bi))[2][0])
                        if loc[0] == 'field':
                            found = loc[2]
            else:
                for st in Ts.stores():
                    if st[0] == 's' and st[3][0] == 'field':
                        found = st[3][2]
                if found is None:
                    # the formatter lives by value inside the builder: partial assignment into a local
                    rt = ret_terms(Ts, [0])
                    for r in rt:
                        x = r
                        while x[0] == 'update':
                            if x[3][0] == 'adt' and x[3][2] == 'Some':
                                found = x[2][-1]
                            x = x[1]
            if found is None:
                self.missing[role] = ('unknown', bs[0].where(), 'cannot see which formatter field %s writes' % meth)
                continue
            roles[role] = found
        for r in ALL:
            if r not in roles and r not in self.missing:
                self.missing[r] = ('unknown', fm.where(), 'formatter field for role %s not identified' % r)
        if len(set(roles.values())) != len(roles):
            for r in list(roles):
                self.missing[r] = ('unknown', fm.where(), 'ambiguous formatter roles %s' % roles)
        self.role_of.update({v: k for k, v in roles.items()})


def _display_arg(t):
    """Argument::new_display(&X) -> ('display', X) ; else ('other', t)"""
    if term_callee_is(t, 'core::fmt::rt::Argument::new_display'):
        return 'display', t[2][0]
    if t[0] == 'call' and isinstance(t[1], str) and t[1].startswith('core::fmt::rt::Argument::new_'):
        return t[1].rsplit('::new_', 1)[1], t[2][0]
    return 'other', t


def _wf_atoms(argterm):
    """Arguments::new(&bytes, &[args]) / from_str -> list of ('lit', s) | ('arg', kind, term, default)"""
    a = argterm
    if term_callee_is(a, 'core::fmt::Arguments::new'):
        tb = peel(a[2][0])
        if tb[0] != 'bytes':
            raise BadTemplate('template is not a constant')
        pieces = decode(tb[1])
        arr = peel(a[2][1])
        args = list(arr[1]) if arr[0] in ('array', 'tuple') else None
        if args is None:
            raise BadTemplate('argument array not visible')
        out = []
        for p in pieces:
            if p[0] == 'lit':
                out.append(('lit', p[1]))
            else:
                idx = p[2]['arg']
                if idx >= len(args):
                    raise BadTemplate('placeholder index out of range')
                kind, x = _display_arg(args[idx])
                out.append(('arg', kind, x, p[1]))
        return out
    if term_callee_is(a, 'core::fmt::Arguments::from_str', 'core::fmt::Arguments::new_const'):
        s = peel(a[2][0])
        if s[0] == 'str':
            return [('lit', s[1])]
    raise BadTemplate('unrecognised fmt::Arguments constructor %s' % fmt(a)[:80])


class OutEvents:
    """Output events on one sink object (a String local or a &mut Formatter parameter) inside an inlined body."""
    WRITE_FMT = ('<alloc::string::String as core::fmt::Write>::write_fmt', 'core::fmt::Formatter::write_fmt',
                 '<core::fmt::Formatter as core::fmt::Write>::write_fmt')
    PUSH_STR = ('alloc::string::String::push_str', '<alloc::string::String as core::fmt::Write>::write_str',
                'core::fmt::Formatter::write_str', '<core::fmt::Formatter as core::fmt::Write>::write_str')
    PUSH = ('alloc::string::String::push', '<alloc::string::String as core::fmt::Write>::write_char',
            '<core::fmt::Formatter as core::fmt::Write>::write_char')

    def __init__(self, body, T, is_sink):
        self.body, self.T = body, T
        self.events = {}        # bb -> list of atoms ; atom = ('lit', s) | ('val', term, how) | ('unknown', desc)
        for bi, t in body.calls():
            if body.blocks[bi]['cleanup']:
                continue
            ct = norm(T.call_term(bi))
            if ct[0] != 'call' or not ct[2]:
                continue
            k = ct[1] if isinstance(ct[1], str) else ''
            hit = [i for i, a in enumerate(ct[2]) if is_sink(a)]
            if not hit:
                continue
            if k in self.WRITE_FMT and hit == [0]:
                try:
                    atoms = []
                    for a in _wf_atoms(ct[2][1]):
                        if a[0] == 'lit':
                            atoms.append(('lit', a[1]))
                        elif a[1] != 'display' or not a[3]:
                            atoms.append(('unknown', 'placeholder is not a default {} Display (kind %s, default %s)' % (a[1], a[3])))
                        else:
                            atoms.append(('val', a[2], 'display'))
                    self.events[bi] = atoms
                except BadTemplate as e:
                    self.events[bi] = [('unknown', str(e))]
            elif k in self.PUSH_STR and hit == [0]:
                s = peel(ct[2][1])
                self.events[bi] = [('lit', s[1])] if s[0] == 'str' else [('val', ct[2][1], 'str')]
            elif k in self.PUSH and hit == [0]:
                c = ct[2][1]
                if c[0] == 'const' and c[1] == 'char':
                    self.events[bi] = [('lit', chr(int(c[2])))]
                else:
                    self.events[bi] = [('unknown', 'push of a non-constant char')]
            elif k.endswith('as core::fmt::Display>::fmt') and hit == [1]:
                self.events[bi] = [('val', ct[2][0], 'display:' + k)]
            elif k in ('alloc::string::String::len', 'alloc::string::String::capacity', 'alloc::string::String::is_empty',
                       'alloc::string::String::reserve', 'alloc::string::String::as_str', 'alloc::string::String::shrink_to_fit',
                       'alloc::string::String::shrink_to', 'alloc::string::String::reserve_exact', 'alloc::string::String::as_bytes'):
                continue
            else:
                self.events[bi] = [('unknown', 'the output is passed to %s' % (k or 'an indirect call'))]


def run_grammar(body, events, classify, nfa, rep, rid, inst, where, T=None):
    """Typestate: NFA state sets along all paths; classify(atom) -> list of tokens or ('reject', why)."""
    def node_events(bb):
        return [(bb, a) for a in events.get(bb, [])]

    aborts = set()
    if T is not None:
        for bb in events:
            for (sb, s), v in outcome_edges(T, bb).items():
                if v == 'err':
                    aborts.add((sb, s))

    def edge_events(a, b):
        return [('abort', None)] if (a, b) in aborts else []

    def delta(st, ev):
        if ev[0] == 'abort':
            return 'ABORTED'
        if st == 'ABORTED':
            return st
        bb, atom = ev
        toks = classify(bb, atom)
        if isinstance(toks, str):
            return TS.Reject(toks)
        cur = st
        for tk in toks:
            nxt = nfa.step(cur, tk)
            if not nxt:
                return TS.Reject('unexpected %s here; the line grammar allows %s' % (_tok(tk), [_tok(x) for x in nfa.expected(cur)][:6]))
            cur = nxt
        return cur

    res = TS.run(body, nfa.initial(), node_events, edge_events, delta, entry=getattr(body, 'entry', 0))
    ok = True
    for bb, ev, st, reason, path in res.rejects:
        ok = False
        rep.bad(rid, inst + '/grammar', body.where(bb), 'output does not follow the line grammar: %s' % reason)
    for (bb, k), ss in res.at_exit.items():
        if k != 'return':
            continue
        for st in ss:
            if st != 'ABORTED' and not nfa.accepting(st):
                ok = False
                rep.bad(rid, inst + '/grammar', body.where(bb), 'a path returns with an incomplete line; still expected %s' % [_tok(x) for x in nfa.expected(st)][:6])
    if ok:
        rep.good(rid, inst + '/grammar', where, 'every path emits a sentence of the grammar (%d output sites)' % len(events))
    return ok


def _tok(tk):
    return repr(tk[1]) if tk[0] == 'c' else '<%s>' % tk[1]


def _idx_gt0(dt, truth, idx_term):
    """guard (dt taken with truth) is equivalent to idx > 0 ?"""
    def atom(t):
        return 'I' if norm(t) == idx_term else None
    try:
        g = L.guard_ge0(norm(dt), truth, atom)
        return L.equivalent(g, L.Lin({'I': 1}, -1))
    except L.Unknown:
        pass
    d = norm(dt)
    if d[0] == 'bin' and d[1] in ('Ne', 'Eq') and norm(d[2]) == idx_term and d[3][0] == 'const' and d[3][2] == '0':
        return (d[1] == 'Ne') == truth
    return False


def _switch_local(body, sbi):
    """(local, negated) tested by the switch in block sbi: `switchInt(copy _f)` or `_t = Not(copy _f); switchInt(move _t)`"""
    t = body.blocks[sbi]['term']
    d = t['discr']
    if d.get('k') not in ('copy', 'move') or d['place']['p']:
        return None, False
    l = d['place']['l']
    for s in reversed(body.blocks[sbi]['stmts']):
        if s['k'] == 'assign' and s['place']['l'] == l and not s['place']['p']:
            rv = s['rv']
            if rv['k'] == 'un' and rv['op'] == 'Not' and rv['a'].get('k') in ('copy', 'move') and not rv['a']['place']['p']:
                return rv['a']['place']['l'], True
            if rv['k'] == 'use' and rv['op'].get('k') in ('copy', 'move') and not rv['op']['place']['p']:
                return rv['op']['place']['l'], False
            return None, False
    return l, False


def first_flag_guard(body, T, sep_bb, next_bb):
    """The separator in sep_bb is guarded by a boolean local that is `init` before the loop and set to `!init` in every
    iteration (after which it never changes back): separator iff not the first iteration."""
    from .. import cfg as C_
    loop = set()
    for e in C_.back_edges(body):
        lp = C_.natural_loop(body, e)
        if next_bb in lp:
            loop |= lp
    if not loop or sep_bb not in loop:
        return False
    for dt, labels, sbi in guards_of(T, sep_bb) or []:
        if sbi not in loop:
            continue
        truth = None
        for lab in labels:
            if lab[0] == 'bool':
                truth = lab[1]
        if truth is None:
            continue
        l, neg = _switch_local(body, sbi)
        if l is None:
            continue
        want_on_sep = truth != neg          # value the flag has when the separator is written
        defs = []
        for bi, blk in enumerate(body.blocks):
            if blk['cleanup']:
                continue
            for si, s in enumerate(blk['stmts']):
                if s['k'] == 'assign' and s['place']['l'] == l and not s['place']['p']:
                    rv = s['rv']
                    v = rv['op'].get('val') if rv['k'] == 'use' and rv['op'].get('k') == 'const' else None
                    defs.append((bi, si, v))
            tt = blk['term']
            if tt['k'] == 'call' and tt['dest']['l'] == l:
                defs.append((bi, None, None))
        if not defs or any(v not in (True, False) for _, _, v in defs):
            continue
        outside = [d for d in defs if d[0] not in loop]
        inside = [d for d in defs if d[0] in loop]
        if not outside or not inside:
            continue
        if any(v != (not want_on_sep) for _, _, v in outside) or any(v != want_on_sep for _, _, v in inside):
            continue
        # on the edge taken in the first iteration (flag == init) the flag is flipped before the next `next()`
        dblocks = set(d[0] for d in inside)
        sf = T.switch_facts(sbi)
        first_edges = [s for s, labs in sf[1].items() if ('bool', (not want_on_sep) != neg) in labs]
        if first_edges and all(s in dblocks or C_.must_pass(body, s, {next_bb} | set(C_.exits(body, False)), dblocks) for s in first_edges):
            # no flip before the test within an iteration
            if all(d != sbi and sbi not in reach(body, body.succs(d, False), stop=lambda q: q == next_bb) for d in dblocks):
                return True
    return False


FORWARD_ITER = ('core::slice::iter', '<core::slice::iter::Iter as core::iter::traits::iterator::Iterator>::enumerate',
                '<core::iter::adapters::enumerate::Enumerate as core::iter::traits::collect::IntoIterator>::into_iter',
                '<core::slice::iter::Iter as core::iter::traits::collect::IntoIterator>::into_iter',
                '<&alloc::vec::Vec as core::iter::traits::collect::IntoIterator>::into_iter',
                '<&[T] as core::iter::traits::collect::IntoIterator>::into_iter', 'alloc::vec::Vec::iter')


import re as _re
# the same adapters named through a type parameter of a private generic helper that was inlined (`fn write_all<I: IntoIterator>(xs: I)`):
# which impl runs is decided by the argument - the callers of iter_source compare the source they get with the Vec/slice they
# expect, and every IntoIterator impl of Vec<T>/&Vec<T>/&[T] yields the elements front to back
_GENERIC_FWD = _re.compile(r'^(<[A-Z]\w* as core::iter::traits::collect::IntoIterator>::into_iter|'
                           r'<<[A-Z]\w* as core::iter::traits::collect::IntoIterator>::IntoIter as core::iter::traits::iterator::Iterator>::enumerate|'
                           r'<core::iter::adapters::enumerate::Enumerate<<[A-Z]\w* as core::iter::traits::collect::IntoIterator>::IntoIter> as core::iter::traits::collect::IntoIterator>::into_iter)$')


def iter_source(t):
    return iter_source_ex(t)[:2]


def iter_source_ex(t):
    """next(&mut it) receiver -> (source collection term, enumerated?) if built from whitelisted forward adapters."""
    x = strip_mut(t)
    enum = False
    tail = False
    while True:
        x = strip_mut(x)
        if x[0] == 'call' and isinstance(x[1], str) and len(x[2]) == 1 and \
                (x[1] in FORWARD_ITER or _GENERIC_FWD.match(x[1]) or (x[1].startswith('<&[') and x[1].endswith('] as core::iter::traits::collect::IntoIterator>::into_iter'))):
            if 'enumerate' in x[1]:
                enum = True
            x = x[2][0]
            continue
        # `rest` of `if let Some((first, rest)) = xs.split_first()`: the tail of xs, still in order
        y = x
        pth = []
        while y[0] in ('field', 'payload', 'deref', 'ref', 'load', 'autoderef'):
            if y[0] == 'field':
                pth.append(('f', str(y[2])))
            elif y[0] == 'payload':
                pth.append(('v', y[2]))
            y = y[1]
        if y[0] == 'call' and y[1] == 'core::slice::split_first' and len(y[2]) == 1 and list(reversed(pth)) == [('v', 'Some'), ('f', '0'), ('f', '1')]:
            x = y[2][0]
            tail = True
            continue
        return x, enum, tail


def proj_path(t, root):
    """projection path from root to t as list; None if t is not derived from root by projections only."""
    path = []
    x = t
    while x != root:
        if x[0] == 'field':
            path.append(('f', x[2]))
            x = x[1]
        elif x[0] == 'payload':
            path.append(('v', x[2]))
            x = x[1]
        elif x[0] in ('deref', 'ref', 'load', 'autoderef'):
            x = x[1]
        else:
            return None
    return list(reversed(path))


# ------------------------------------------------------------------ R1+R2: format()
def _is_code_fn(cad, x):
    """local `fn(kind enum | &kind enum) -> &str` (not a trait impl): a type-code table in function form"""
    if x.def_kind not in ('Fn', 'AssocFn') or x.impl_trait or x.arg_count != 1:
        return False
    a = x.locals[1].lstrip('&').strip()
    r = x.locals[0].replace("'static ", '').replace(' ', '')
    return _is_kind_enum(cad, type_head(a)) and r == '&str'


def rule_format(fm, rep, rid='R1', scope='all'):
    cad = fm.cad
    if not hasattr(fm, 'code_fns_used'):
        fm.code_fns_used = set()
    if not fm.need_roles(rep, {'all': None, 'values': ('val', 'type', 'rate', 'ts'), 'tags': ('tags', 'cid')}[scope]):
        return
    # a private `fn code(self) -> &'static str` on the kind enum stays a call: its table is checked by the type-code rule
    code_fns = set(x.path for x in cad.all_bodies if _is_code_fn(cad, x))
    body = inl(cad, fm.format, never=lambda x: x.path in code_fns)
    T = Terms(body)
    for p, bi, d in body.inlined:
        if p in cad.bodies:
            rep.analysed(cad.bodies[p])
    # the output string: the String created in format's own frame that is returned
    rts = ret_terms(T, [0])
    outs = set(strip_mut(r) for r in rts)
    if len(outs) != 1 or not term_callee_is(list(outs)[0], 'alloc::string::String::with_capacity', 'alloc::string::String::new'):
        rep.unknown(rid, 'format/output-string', fm.format.where(), 'format does not return one fresh String: %s' % [fmt(x)[:80] for x in outs])
        return
    out = list(outs)[0]
    ev = OutEvents(body, T, lambda a: strip_mut(a) == out)
    rep.sites(len(ev.events))
    rep.floor(rid, 'output sites in the formatter', len(ev.events), 6)
    selfp = ('param', 1)
    nexts = {}
    firsts = set()
    tails = {}

    def role_of_term(x):
        """which formatter role does value term x denote? returns (role, extra)"""
        x0 = x
        px = peel(x)
        # code_of(self.<kind field>)
        if px[0] == 'call' and px[1] in code_fns and len(px[2]) == 1:
            n = self_field_name(px[2][0])
            if fm.role_of.get(n) == 'type' and proj_path(strip_mut(px[2][0]), ('field', ('deref', selfp), n)) == []:
                fm.code_fns_used.add(px[1])
                return 'type', None
            return None, 'type code computed from %s' % fmt(px[2][0])[:60]
        # self.<field>
        n = self_field_name(x)
        if n in fm.role_of and px[0] in ('field', 'load'):
            role = fm.role_of[n]
            path = proj_path(strip_mut(x), ('field', ('deref', selfp), n))
            if role in ('prefix', 'key', 'val', 'type') and path == []:
                return role, None
            if role in ('rate', 'cid', 'ts') and path == [('v', 'Some'), ('f', '0')]:
                return role, n
            return None, 'reads self.%s through %s' % (n, path)
        # tag item
        for y in walk(x):
            if y[0] == 'call' and y[1] == 'core::slice::split_first' and len(y[2]) == 1:
                # `first` of `if let Some((first, rest)) = self.tags.split_first()`
                if self_field_name(y[2][0]) != fm.roles['tags']:
                    return None, 'splits %s, not self.%s' % (fmt(y[2][0])[:60], fm.roles['tags'])
                path = proj_path(strip_mut(x), y)
                if path is not None:
                    path = [(k_, str(v_) if k_ == 'f' else v_) for k_, v_ in path]
                    item = [('v', 'Some'), ('f', '0'), ('f', '0')]
                    if path == item + [('f', '0'), ('v', 'Some'), ('f', '0')]:
                        firsts.add(y)
                        return 'tagkey', y
                    if path == item + [('f', '1')]:
                        firsts.add(y)
                        return 'tagval', y
            if y[0] == 'call' and isinstance(y[1], str) and y[1].endswith('Iterator>::next'):
                src, enum, is_tail = iter_source_ex(y[2][0])
                if self_field_name(src) != fm.roles['tags']:
                    return None, 'iterates %s, not self.%s' % (fmt(src)[:60], fm.roles['tags'])
                nexts[y] = enum
                tails[y] = is_tail
                path = proj_path(strip_mut(x), y)
                if path is None:
                    return None, 'tag text is computed (%s)' % fmt(x)[:80]
                item = [('v', 'Some'), ('f', '0')] + ([('f', 1)] if enum else [])
                if path == item + [('f', 0), ('v', 'Some'), ('f', '0')]:
                    return 'tagkey', y
                if path == item + [('f', 1)]:
                    return 'tagval', y
                return None, 'unexpected projection %s of the tag item' % path
        return None, 'value %s is not a formatter field' % fmt(x0)[:80]

    guards_needed = []

    def classify(bb, atom):
        if atom[0] == 'lit':
            return [('c', ch) for ch in atom[1]]
        if atom[0] == 'unknown':
            return atom[1]
        role, extra = role_of_term(atom[1])
        if role is None:
            return extra
        guards_needed.append((bb, role, extra))
        return [('v', role)]

    strict_ok = False
    if scope == 'all':
        from ..report import Report
        scratch = Report('scratch')
        saved = list(guards_needed)
        strict_ok = run_grammar(body, ev.events, classify, compile_re(line_grammar(True)), scratch, rid, 'format', fm.format.where())
        if strict_ok:
            ok = True
            rep.good(rid, 'format/grammar', fm.format.where(), 'every path emits a sentence of the strict grammar tag(,tag)* (%d output sites)' % len(ev.events))
        else:
            del guards_needed[:]
            ok = run_grammar(body, ev.events, classify, compile_re(line_grammar(False)), rep, rid, 'format', fm.format.where())
    else:
        # narrower claim (C02: how values are rendered; C04: tags + container id): classify every output site, but do
        # not constrain the order of sections
        ok = True
        for bb, atoms in sorted(ev.events.items()):
            for a in atoms:
                r = classify(bb, a)
                if isinstance(r, str) and a[0] == 'val':
                    continue        # a field this property does not talk about
                if isinstance(r, str):
                    ok = False
                    rep.bad(rid, 'format/output-site', body.where(bb), 'formatter output not understood: %s' % r)
        if ok:
            rep.good(rid, 'format/output-sites', fm.format.where(), 'all %d output sites write literals or formatter fields with default Display' % len(ev.events))
    want_sections = {'all': ('rate', 'cid', 'ts'), 'values': ('rate', 'ts'), 'tags': ('cid',)}[scope]
    # ---- R2 guards: each optional section exactly when supplied
    done = set()
    for bb, role, extra in guards_needed:
        if role not in want_sections or (role, bb) in done:
            continue
        done.add((role, bb))
        fld = extra
        gs = guards_of(T, bb) or []
        some_edges = []
        for dt, labels, sbi in gs:
            d = norm(dt)
            if d[0] == 'discr' and self_field_name(d[1]) == fld and ('variant', 'Some') in labels:
                some_edges.append(sbi)
        okg = bool(some_edges)
        rep.ob('R2', 'section-%s/only-when-supplied' % role, okg, body.where(bb),
               'written only under self.%s == Some' % fld if okg else 'the %s section is written without testing self.%s for Some' % (role, fld))
        # ... and that test is made on every path through format(): the section is not hidden behind some other condition
        # (a metric-kind whitelist, a feature switch) that would drop a supplied value silently
        if some_edges:
            every = all(C.must_pass(body, 0, set(C.exits(body, False)), {sbi_}) for sbi_ in some_edges[:1]) if len(some_edges) == 1 else \
                C.must_pass(body, 0, set(C.exits(body, False)), set(some_edges))
            rep.ob('R2', 'section-%s/tested-on-every-path' % role, every, body.where(some_edges[0]),
                   'every path through format() looks at self.%s' % fld if every else
                   'a path through format() never looks at self.%s: a supplied %s can be dropped silently' % (fld, role))
        for sbi in some_edges:
            dt, edges = T.switch_facts(sbi)
            tgt = [s for s, labs in edges.items() if ('variant', 'Some') in labs]
            mp = all(C.must_pass(body, s, set(C.exits(body, False)), {bb}) for s in tgt)
            rep.ob('R2', 'section-%s/always-when-supplied' % role, mp, body.where(bb),
                   'every path with Some writes the section' if mp else 'a supplied %s can be left out' % role)
    for role in want_sections:
        if not any(r == role for _, r, _ in guards_needed):
            rep.bad('R2', 'section-%s/present' % role, fm.format.where(), 'the formatter never writes the %s section' % role)
    if scope == 'values':
        return ok
    # tags: "|#" guarded by !is_empty ; separator guarded by index > 0 ; forward iteration
    tag_open = [bb for bb, atoms in ev.events.items() if any(a[0] == 'lit' and '#' in a[1] for a in atoms)]
    for bb in tag_open:
        gs = guards_of(T, bb) or []
        okg = False
        for dt, labels, sbi in gs:
            d = norm(dt)
            if term_callee_is(d, 'alloc::vec::Vec::is_empty') and self_field_name(d[2][0]) == fm.roles['tags'] and ('bool', False) in labels:
                okg = True
            elif d[0] == 'discr' and term_callee_is(d[1], 'core::slice::split_first') and self_field_name(d[1][2][0]) == fm.roles['tags'] and \
                    ('variant', 'Some') in labels:
                okg = True          # split_first() is Some exactly when the list is non-empty
            else:
                def atom(t):
                    t = norm(t)
                    if term_callee_is(t, 'alloc::vec::Vec::len') and self_field_name(t[2][0]) == fm.roles['tags']:
                        return 'n'
                    return None
                for lab in labels:
                    if lab[0] == 'bool':
                        try:
                            if L.equivalent(L.guard_ge0(d, lab[1], atom), L.Lin({'n': 1}, -1)):
                                okg = True
                        except L.Unknown:
                            pass
        rep.ob('R2', 'tags/prefix-only-when-nonempty', okg, body.where(bb), '"|#" is written iff the tag list is non-empty' if okg else '"|#" is not guarded by !tags.is_empty()')
        if okg:
            # the emptiness test itself is reached on every path through format() (no other condition hides the section)
            tsw = [sbi for dt, labels, sbi in gs if self_field_name(norm(dt)[1] if norm(dt)[0] == 'discr' else (norm(dt)[2][0] if norm(dt)[0] == 'call' and norm(dt)[2] else norm(dt))) == fm.roles['tags']
                   or any(self_field_name(y) == fm.roles['tags'] for y in walk(norm(dt)) if y[0] in ('field', 'load'))]
            every = bool(tsw) and C.must_pass(body, 0, set(C.exits(body, False)), set(tsw))
            rep.ob('R2', 'tags/tested-on-every-path', every, body.where(bb), 'every path through format() looks at the tag list' if every else
                   'a path through format() never looks at the tag list: supplied tags can be dropped silently')
    if not tag_open:
        rep.bad('R2', 'tags/present', fm.format.where(), 'the formatter never writes the tags section')
    seps = [bb for bb, atoms in ev.events.items() if atoms == [('lit', ',')]]
    if strict_ok:
        seps = []
        rep.good('R2', 'tags/separator-iff-not-first', fm.format.where(), 'structure of the loop itself yields tag(,tag)* (strict grammar accepted)')
    for bb in seps:
        gs = guards_of(T, bb) or []
        okg = False
        for nx, enum in nexts.items():
            if not enum:
                continue
            idx = ('field', field_of(('payload', nx, 'Some'), '0', 0), 0)
            for dt, labels, sbi in gs:
                for lab in labels:
                    if lab[0] == 'bool' and _idx_gt0(dt, lab[1], idx):
                        okg = True
        if not okg and firsts:
            # first/rest form: the first tag is written on its own, the separator inside the loop over the rest, i.e. only when
            # another element was just taken from the tail
            for dt, labels, sbi in gs:
                d = norm(dt)
                if d[0] == 'discr' and d[1] in nexts and not nexts[d[1]] and ('variant', 'Some') in labels:
                    okg = True
        if not okg:
            for nx in nexts:
                nb_ = [bi for bi, t_ in body.calls() if not body.blocks[bi]['cleanup'] and norm(T.call_term(bi)) == nx]
                if nb_ and first_flag_guard(body, T, bb, nb_[0]):
                    okg = True
        rep.ob('R2', 'tags/separator-iff-not-first', okg, body.where(bb), '"," is written exactly before every tag but the first' if okg else 'the tag separator is not guarded by (index > 0) or a first-iteration flag')
    if not seps and not strict_ok:
        rep.bad('R2', 'tags/separator', fm.format.where(), 'no "," separator site found')
    for nx, enum in nexts.items():
        pass
    # a tag written on its own before the loop (split_first) goes with a loop over the *rest*; a loop over the whole list
    # goes with no such first tag - otherwise the first tag is written twice or never
    once = all(tails.get(nx, False) for nx in nexts) if firsts else not any(tails.values())
    rep.ob('R2', 'tags/each-tag-once', once, fm.format.where(), 'first/rest and whole-list iteration are not mixed' if once else
           'the first tag is taken out with split_first() but the loop does not iterate the rest (or the other way round): a tag is written twice or skipped')
    rep.ob('R2', 'tags/forward-iteration', bool(nexts), fm.format.where(), 'tags are visited by forward iteration over self.%s (%d loop)' % (fm.roles['tags'], len(nexts)))
    # key colon guarded by key Some is implied by the grammar + role extraction (tagkey reads payload Some)
    return ok


# ------------------------------------------------------------------ R5 (+C02-R4): Display for MetricValue
PRIM = {'Signed': 'i64', 'Unsigned': 'u64', 'Float': 'f64', 'PackedSigned': 'i64', 'PackedUnsigned': 'u64', 'PackedFloat': 'f64'}


def rule_value_display(fm, rep, rid='R5'):
    cad = fm.cad
    bs = [b for b in cad.all_bodies if b.impl_trait == 'core::fmt::Display' and type_head(b.impl_self or '') == MV and b.name == 'fmt']
    b = one(rep, rid, 'impl Display for MetricValue', bs)
    if b is None:
        return
    rep.analysed(b)
    body = inl(cad, b)
    T = Terms(body)
    sw = T.switch_facts(0) if body.blocks[0]['term']['k'] == 'switch' else None
    if sw is None or norm(sw[0])[0] != 'discr' or peel(norm(sw[0])[1]) != ('param', 1):
        rep.unknown(rid, 'value-display/shape', b.where(), 'fmt does not start with a match on self')
        return
    dt, edges = sw
    variants = {}
    for s, labs in edges.items():
        for lab in labs:
            if lab[0] == 'variant':
                variants[lab[1]] = s
    rep.floor(rid, 'MetricValue variants rendered', len(variants), 6)
    ev = OutEvents(body, T, lambda a: peel(a) == ('param', 2))
    def run_variant(v, start, mode, rep):
        packed = mode in ('packed', 'single')
        R, seen = freach(T, [start])
        evs = {bb: a for bb, a in ev.events.items() if bb in seen}
        pay = field_of(('payload', ('deref', ('param', 1)), v), '0', 0)
        nexts = {}

        def classify(bb, atom, v=v, pay=pay, nexts=nexts):
            if atom[0] == 'lit':
                return [('c', ch) for ch in atom[1]]
            if atom[0] == 'unknown':
                return atom[1]
            x = atom[1]
            how = atom[2]
            if not how.startswith('display'):
                return 'value written with %s' % how
            if packed:
                for y in walk(x):
                    if y[0] == 'call' and isinstance(y[1], str) and y[1].endswith('Iterator>::next'):
                        src, enum = iter_source(y[2][0])
                        if mode == 'single':
                            # a scalar rendered as the one-element slice `slice::from_ref(&payload)`: the packed grammar
                            # value(:value)* over exactly one element is `value`
                            s1 = strip_mut(src)
                            while s1[0] in ('ref', 'deref', 'autoderef', 'unsize'):
                                s1 = s1[1]
                            if not (s1[0] == 'call' and s1[1] in ('core::slice::from_ref', 'core::slice::raw::from_ref') and strip_mut(norm(('deref', s1[2][0]))) == pay):
                                return 'scalar arm iterates %s, not the one-element slice of its payload' % fmt(src)[:80]
                        elif strip_mut(src) != pay and peel(src) != peel(pay):
                            return 'iterates %s instead of the packed values' % fmt(src)[:80]
                        nexts[y] = enum
                        path = proj_path(strip_mut(x), y)
                        item = [('v', 'Some'), ('f', '0')] + ([('f', 1)] if enum else [])
                        if path != item:
                            return 'writes %s of the item' % path
                        return [('v', 'item')]
                return 'packed arm writes %s' % fmt(x)[:80]
            if peel(x) != peel(pay) or any(y[0] in ('cast', 'bin', 'un') for y in walk(x)):
                return 'scalar arm writes %s instead of the payload' % fmt(x)[:80]
            if how != 'display:<%s as core::fmt::Display>::fmt' % PRIM[v]:
                return 'rendered by %s, expected %s\'s own Display' % (how, PRIM[v])
            return [('v', 'item')]

        sub = _SubBody(body, start)
        strict_v = False
        if packed:
            from ..report import Report
            strict_v = run_grammar(sub, evs, classify, compile_re(VALUES_STRICT), Report('scratch'), rid, 'value/%s' % v, body.where(start), T=T)
            if strict_v:
                okv = True
                rep.good(rid, 'value/%s/grammar' % v, body.where(start), 'every path emits value(:value)* (strict grammar)')
                rep.good(rid, 'value/%s/separator-iff-not-first' % v, body.where(start), 'structure of the loop itself yields value(:value)*')
            else:
                okv = run_grammar(sub, evs, classify, compile_re(VALUES), rep, rid, 'value/%s' % v, body.where(start), T=T)
        else:
            okv = run_grammar(sub, evs, classify, compile_re(('val', 'item')), rep, rid, 'value/%s' % v, body.where(start), T=T)
        if packed and okv and not strict_v:
            seps = [bb for bb, atoms in evs.items() if atoms == [('lit', ':')]]
            okg = bool(seps)
            for bb in seps:
                gs = guards_of(T, bb) or []
                g1 = False
                for nx, enum in nexts.items():
                    if not enum:
                        continue
                    idx = ('field', field_of(('payload', nx, 'Some'), '0', 0), 0)
                    for gdt, labels, sbi in gs:
                        for lab in labels:
                            if lab[0] == 'bool' and _idx_gt0(gdt, lab[1], idx):
                                g1 = True
                if not g1:
                    for nx in nexts:
                        nb_ = [bi for bi, t_ in body.calls() if norm(T.call_term(bi)) == nx]
                        if nb_ and first_flag_guard(body, T, bb, nb_[0]):
                            g1 = True
                okg = okg and g1
            rep.ob(rid, 'value/%s/separator-iff-not-first' % v, okg, body.where(start), '":" before every value but the first' if okg else 'the ":" separator is not guarded by (index > 0)')
        return okv

    from ..report import Report as _R
    for v, start in sorted(variants.items()):
        rep.sites()
        if v.startswith('Packed'):
            run_variant(v, start, 'packed', rep)
        elif run_variant(v, start, 'scalar', _R('scratch')) or not run_variant(v, start, 'single', _R('scratch')):
            run_variant(v, start, 'scalar', rep)
        else:
            run_variant(v, start, 'single', rep)
        # extra guards on the scalar arm (e.g. a "fast path") show up as additional Display sites -> grammar violation


class _SubBody:
    """View of a body with a different entry block (for typestate runs on one match arm)."""

    def __init__(self, body, entry):
        self._b = body
        self.entry = entry
        self.blocks = body.blocks
        self.path = body.path

    def succs(self, bb, unwind=True):
        return self._b.succs(bb, unwind)

    def where(self, bb=None, idx=None):
        return self._b.where(bb, idx)


# ------------------------------------------------------------------ R3 type codes
def _code_fn_table(cad, g):
    """variant -> [string] for a `fn(kind) -> &str`: the value returned on each edge of the match on the argument"""
    b = inl(cad, g)
    T = Terms(b)
    for bi in sorted(reach(b, [0])):
        if b.blocks[bi]['term']['k'] == 'switch' and not b.blocks[bi]['cleanup']:
            dt, edges = T.switch_facts(bi)
            d = norm(dt)
            if d[0] == 'discr' and peel(d[1]) == ('param', 1):
                found = {}
                for s, labs in edges.items():
                    for lab in labs:
                        if lab[0] == 'variant':
                            rts = [peel(r) for r in ret_terms(T, [s])]
                            found[lab[1]] = [r[1] if r[0] == 'str' else '<%s>' % fmt(r)[:40] for r in rts]
                return found
    return None


def rule_type_codes(fm, rep, rid='R3'):
    cad = fm.cad
    for gp in sorted(getattr(fm, 'code_fns_used', ())):
        g = cad.bodies[gp]
        rep.analysed(g)
        found = _code_fn_table(cad, g)
        if found is None:
            rep.unknown(rid, 'type-codes/%s/shape' % g.short(), g.where(), 'the type-code function is not a match on its argument')
            continue
        for kind, code in KINDS7:
            rep.sites()
            got = found.get(kind)
            ok = got is not None and ''.join(got) == code
            rep.ob(rid, 'type-code/%s/%s' % (g.short().rsplit('::', 1)[-1], kind), ok, g.where(), '%s -> "%s"' % (kind, code) if ok else
                   '%s is rendered as %s, the protocol code is "%s"' % (kind, got, code))
    bs = [b for b in cad.all_bodies if b.impl_trait == 'core::fmt::Display' and _is_kind_enum(cad, type_head(b.impl_self or '')) and b.name == 'fmt']
    b0 = one(rep, rid, 'impl Display for MetricType', bs)
    if b0 is None:
        return
    rep.analysed(b0)
    b = inl(cad, b0)
    T = Terms(b)
    # the match on *self (possibly inside an inlined private helper such as as_str())
    sw = None
    for bi in sorted(reach(b, [0])):
        if b.blocks[bi]['term']['k'] == 'switch' and not b.blocks[bi]['cleanup']:
            sf = T.switch_facts(bi)
            d = norm(sf[0])
            if d[0] == 'discr' and peel(d[1]) == ('param', 1):
                sw = (bi, sf)
                break
    if sw is None:
        # table-driven: the code is TABLE[*self as usize] with TABLE a constant array of string literals
        ev0 = OutEvents(b, T, lambda a: peel(a) == ('param', 2))
        vals = [a_[1] for bb_ in sorted(ev0.events) for a_ in ev0.events[bb_] if a_[0] == 'val']
        others_ = [a_ for bb_ in sorted(ev0.events) for a_ in ev0.events[bb_] if a_[0] != 'val']
        found = None
        if len(vals) == 1 and not others_:
            x = vals[0]
            while x[0] in ('ref', 'deref', 'unsize'):
                x = x[1]
            if x[0] == 'index' and x[1][0] == 'const' and x[1][3] and x[2][0] == 'cast' and x[2][4][0] == 'discr' and peel(x[2][4][1]) == ('param', 1):
                cb = cad.bodies.get(x[1][3])
                table = None
                if cb is not None and len(cb.blocks) == 1:
                    for s_ in cb.blocks[0]['stmts']:
                        if s_['k'] == 'assign' and s_['rv']['k'] == 'agg' and s_['rv'].get('ak') == 'array' and not s_['place']['p'] and s_['place']['l'] == 0:
                            table = [o_.get('str') for o_ in s_['rv']['ops']]
                en = [a_ for p_, a_ in cad.adts.items() if _is_kind_enum(cad, p_)]
                if table is not None and all(isinstance(s_, str) for s_ in table) and len(en) == 1:
                    found = {}
                    for v_ in en[0]['variants']:
                        d_ = int(v_['discr'])
                        if 0 <= d_ < len(table):
                            found[v_['name']] = [table[d_]]
        if found is None:
            rep.unknown(rid, 'type-codes/shape', b0.where(), 'fmt contains neither a match on self nor a constant table indexed by the variant')
            return
        rep.floor(rid, 'metric kinds with a type code', len(found), 7)
        for kind, code in KINDS7:
            rep.sites()
            got = found.get(kind)
            ok = got is not None and ''.join(got) == code
            rep.ob(rid, 'type-code/%s' % kind, ok, b0.where(), '%s -> "%s"' % (kind, code) if ok else '%s is rendered as %s, the protocol code is "%s"' % (kind, got, code))
        return
    dt, edges = sw[1]
    ev_all = OutEvents(b, T, lambda a: peel(a) == ('param', 2))
    found = {}
    for s, labs in edges.items():
        for lab in labs:
            if lab[0] != 'variant':
                continue
            R, seen = freach(T, [s])
            evR = OutEvents(b, R, lambda a: peel(a) == ('param', 2))
            lits = []
            for bb in sorted(seen):
                for atom in evR.events.get(bb, []):
                    if atom[0] == 'lit':
                        lits.append(atom[1])
                    elif atom[0] == 'val':
                        x = peel(atom[1])
                        lits.append(x[1] if x[0] == 'str' else '<%s>' % fmt(x)[:40])
                    else:
                        lits.append('<?>')
            found[lab[1]] = lits
    rep.floor(rid, 'metric kinds with a type code', len(found), 7)
    for kind, code in KINDS7:
        rep.sites()
        got = found.get(kind)
        ok = got is not None and ''.join(got) == code
        rep.ob(rid, 'type-code/%s' % kind, ok, b0.where(), '%s -> "%s"' % (kind, code) if ok else '%s is rendered as %s, the protocol code is "%s"' % (kind, got, code))


# ------------------------------------------------------------------ R9 setter flow, R8 constructors
def rule_setters(fm, rep, rid='R9', only=None):
    cad = fm.cad
    if not fm.need_roles(rep, only):
        return
    # constructor initialises options to None and tags empty
    agg = dict(fm.ctor_agg[3])
    for role in [r for r in ('ts', 'rate', 'cid') if only is None or r in only]:
        v = agg.get(fm.roles[role])
        ok = v is not None and v[0] == 'adt' and v[2] == 'None'
        rep.ob(rid, 'ctor/%s-starts-none' % role, ok, fm.format.where(), 'a new formatter has no %s' % role if ok else 'formatter starts with %s = %s' % (role, fmt(v) if v else '?'))
    if only is None or 'tags' in only:
        v = agg.get(fm.roles['tags'])
        ok = v is not None and is_empty_vec(v)
        rep.ob(rid, 'ctor/tags-start-empty', ok, fm.format.where(), 'a new formatter has no tags')
    spec = {'with_timestamp': ('ts', 'scalar'), 'with_sampling_rate': ('rate', 'scalar'), 'with_container_id': ('cid', 'ref'),
            'with_tag': ('tags', 'kv'), 'with_tag_value': ('tags', 'v')}
    n = 0
    for meth, (role, shape) in spec.items():
        if only is not None and role not in only:
            continue
        bs = cad.method(MB, meth)
        b = one(rep, rid, 'MetricBuilder::%s' % meth, bs)
        if b is None:
            continue
        n += 1
        rep.analysed(b)
        ib = inl(cad, b)
        T = Terms(ib)
        sw = [bi for bi, blk in enumerate(ib.blocks) if blk['term']['k'] == 'switch' and not blk['cleanup'] and not blk.get('frame')]
        # effects
        stores = [(st[1], st[2], st[3], norm(T.store_value(st))) for st in T.stores() if st[0] == 's']
        pushes = [(bi, norm(T.call_term(bi))) for bi, t in ib.calls() if callee_is(t, 'alloc::vec::Vec::push') and not ib.blocks[bi]['cleanup']]
        rt = ret_terms(T, [0])
        updates = []
        for r in rt:
            x = r
            while x[0] == 'update':
                updates.append((x[2], x[3]))
                x = x[1]
        # guard: effects only on the Success edge
        eff_blocks = [s[0] for s in stores] + [p[0] for p in pushes]
        okg = True
        for eb in eff_blocks:
            gs = guards_of(T, eb) or []
            if not any(norm(dt)[0] == 'discr' and ('variant', names(cad).v_success) in labels for dt, labels, _ in gs):
                okg = False
        if shape in ('scalar', 'ref'):
            fld = fm.roles[role]
            vals = [v for (b_, i_, loc, v) in stores if loc[0] == 'field' and loc[2] == fld] + \
                   [v for path, v in updates if path and path[-1] == fld]
            others = [loc for (b_, i_, loc, v) in stores if not (loc[0] == 'field' and loc[2] == fld)]
            ok = len(vals) == 1 and vals[0][0] == 'adt' and vals[0][2] == 'Some' and peel(dict(vals[0][3])['0']) == ('param', 2) \
                and not any(y[0] in ('cast', 'bin', 'call') for y in walk(dict(vals[0][3])['0']))
            # unconditional (last wins): the store is not guarded by a test of the field itself
            cond = False
            for (b_, i_, loc, v) in stores:
                for dt, labels, sbi in guards_of(T, b_) or []:
                    d = norm(dt)
                    if d[0] == 'discr' and self_field_name(d[1]) is None and any(y[0] == 'field' and y[2] == fld for y in walk(d)):
                        cond = True
            calls_other = [strip_generics(t['callee_full']) for bi, t in ib.calls() if not ib.blocks[bi]['cleanup'] and
                           ('get_or_insert' in t['callee'] or 'Option::or' in t['callee'] or 'Option::xor' in t['callee'] or 'is_none' in t['callee'])]
            ok = ok and not cond and not calls_other and not others
            rep.ob(rid, 'setter/%s' % meth, ok and okg, b.where(),
                   '%s(x) stores Some(x) unchanged into the %s field on the Success state, last call wins' % (meth, role) if ok and okg else
                   '%s does not simply store Some(argument) into the %s field (values %s%s%s)' % (
                       meth, role, [fmt(v) for v in vals], ', conditional on the old value' if cond or calls_other else '', '' if okg else ', outside the Success state'))
        else:
            okp = len(pushes) == 1
            if okp:
                ct = pushes[0][1]
                item = ct[2][1]
                okp = self_field_name(strip_mut(ct[2][0])) is not None or True
                if item[0] == 'tuple' and len(item[1]) == 2:
                    k, v = item[1]
                    if shape == 'kv':
                        okp = k[0] == 'adt' and k[2] == 'Some' and peel(dict(k[3])['0']) == ('param', 2) and peel(v) == ('param', 3)
                    else:
                        okp = k[0] == 'adt' and k[2] == 'None' and peel(v) == ('param', 2)
                else:
                    okp = False
                loc = peel(ct[2][0])
                okp = okp and loc[0] == 'field' and loc[2] == fm.roles['tags']
            rep.ob(rid, 'setter/%s' % meth, okp and okg, b.where(),
                   '%s appends %s to the tag list on the Success state' % (meth, '(Some(key), value)' if shape == 'kv' else '(None, value)') if okp and okg else
                   '%s does not append exactly its arguments to the tag list' % meth)
    rep.floor(rid, 'public setters', n, 5 if only is None else 1)


def rule_constructors(fm, rep, rid='R8'):
    """Counter::new etc = From<String>(format(MetricFormatter::<same kind>(prefix, key, MetricValue::<variant>(param))))."""
    cad = fm.cad
    if not fm.need_roles(rep):
        return
    spec = [('Counter', 'new', 'Counter', 'Signed'), ('Timer', 'new', 'Timer', 'Unsigned'), ('Gauge', 'new', 'Gauge', 'Unsigned'),
            ('Gauge', 'new_f64', 'Gauge', 'Float'), ('Meter', 'new', 'Meter', 'Unsigned'), ('Histogram', 'new', 'Histogram', 'Unsigned'),
            ('Histogram', 'new_f64', 'Histogram', 'Float'), ('Distribution', 'new', 'Distribution', 'Unsigned'),
            ('Distribution', 'new_f64', 'Distribution', 'Float'), ('Set', 'new', 'Set', 'Signed')]
    n = 0
    for ty, meth, kind, variant in spec:
        adt = 'cadence::types::' + ty
        bs = cad.method(adt, meth)
        if len(bs) != 1:
            rep.anchor_lost(rid, '%s::%s' % (ty, meth))
            continue
        b = bs[0]
        n += 1
        rep.analysed(b)
        ib = inl(cad, b, never=lambda x: x.path == fm.format.path)
        T = Terms(ib)
        rts = ret_terms(T, [0])
        ok = False
        msg = '%s::%s returns %s' % (ty, meth, [fmt(r)[:200] for r in rts])
        if len(rts) == 1:
            r = list(rts)[0]
            if r[0] == 'adt' and r[1] == adt:
                s = dict(r[3]).get(names(cad).string_field(adt))
                if s is not None and term_callee_is(s, strip_generics(fm.format.path)):
                    f = strip_mut(s[2][0])
                    if f[0] == 'adt' and f[1] == fm.F:
                        fs = dict(f[3])
                        tv = fs.get(fm.roles['type'])
                        vv = fs.get(fm.roles['val'])
                        ok = (peel(fs.get(fm.roles['prefix'])) == ('param', 1) and peel(fs.get(fm.roles['key'])) == ('param', 2)
                              and tv[0] == 'adt' and tv[2] == kind and vv[0] == 'adt' and vv[2] == variant
                              and dict(vv[3])['0'] == ('param', 3)
                              and all(fs[fm.roles[x]][0] == 'adt' and fs[fm.roles[x]][2] == 'None' for x in ('ts', 'rate', 'cid')))
                        if ok:
                            msg = '%s::%s = From(format(%s formatter(prefix, key, %s(value))))' % (ty, meth, kind, variant)
        rep.ob(rid, 'ctor/%s::%s' % (ty, meth), ok, b.where(), msg)
    rep.floor(rid, 'standalone constructors', n, 10)
    # From<String> stores into repr, as_metric_str returns &repr : 7 + 7
    k = 0
    for ty, _code in KINDS7:
        adt = 'cadence::types::' + ty
        fr = [b for b in cad.all_bodies if b.impl_trait == 'core::convert::From' and (b.impl_self or '') == adt and b.name == 'from']
        am = [b for b in cad.all_bodies if b.impl_trait == 'cadence::types::Metric' and (b.impl_self or '') == adt and b.name == 'as_metric_str']
        ok = False
        if len(fr) == 1 and len(am) == 1:
            r1 = ret_terms(Terms(fr[0]), [0])
            r2 = ret_terms(Terms(am[0]), [0])
            ok = (len(r1) == 1 and list(r1)[0][0] == 'adt' and dict(list(r1)[0][3]).get(names(cad).string_field(adt)) == ('param', 1)
                  and len(r2) == 1 and self_field_name(list(r2)[0]) == names(cad).string_field(adt) and
                  not any(y[0] == 'call' and not (y[1].endswith('Deref>::deref') or y[1].endswith('::as_str')) for y in walk(list(r2)[0])))
            k += 1
        rep.ob(rid, 'metric/%s/string-kept-verbatim' % ty, ok, fr[0].where() if fr else '', 'From<String> stores the text, as_metric_str returns it unchanged')
    rep.floor(rid, 'metric types', k, 7)
