"""C06 - buffered sinks conserve metrics: accepted means written exactly once."""
from . import writer as W
from . import sinks as S

EXPLANATION = ('Static discharge of premises M1..M11 of the conservation proof (DESIGN 6.5) plus D1 (every buffered sink '
               'overrides flush and reaches MultiLineWriter::flush under its lock), D2 (client.flush delegates) and D3 '
               '(queuing sink delegates flush/stats to the very Arc its worker emits into).')


def check(ctx, rep):
    rep.trust('std::io::BufWriter behaves as summarised in DESIGN 6.5; its Drop flushes the buffer')
    m = W.WriterModel(ctx, rep)
    if not m.ok:
        return
    W.rule_M1(m, rep)
    W.rule_M2(m, rep, 'must')
    W.rule_M3(m, rep)
    W.rule_M4_M5_M6(m, rep, want=('M4', 'M5', 'M6'))
    W.rule_M7(m, rep)
    W.rule_M8(m, rep)
    W.rule_M9(m, rep)
    W.rule_M10(m, rep)
    W.rule_M11(m, rep)
    S.rule_A1(ctx, rep)
    # "a metric too large for the buffer is written during its own emit": the buffer is the one the caller asked for
    S.rule_A2_A3(ctx, rep)
    # Ok from an adapter means the socket took the datagram (else a flush 'succeeds' with nothing written)
    S.rule_E1(ctx, rep)
    S.rule_lock_discipline(ctx, rep, 'D1')
    S.rule_D2(ctx, rep)
    S.rule_D3(ctx, rep, methods=('flush',))
    S.rule_forwarding_impls(ctx, rep, 'F1', methods=('flush',))
    # what remains is written on drop - through the socket as the caller configured it (blocking mode, no connect)
    from . import sockets as K
    K.rule_socket_untouched(ctx, rep, 'S1')
