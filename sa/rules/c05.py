"""C05 - a buffered sink never splits or merges metrics across datagrams (premises of the proof in DESIGN 6.5)."""
from . import writer as W
from . import sinks as S

EXPLANATION = ('Static discharge of the premises M1,M2(=>),M3..M11 of the inductive framing proof for MultiLineWriter '
               '(DESIGN 6.5) plus adapter/constructor rules A1..A3; linear normal forms for the two guards, typestate '
               'and provenance for the rest. The checker decides the premises; the written proof carries them to C05.')


def check(ctx, rep):
    rep.trust('std::io::BufWriter behaves as summarised in DESIGN 6.5 (write/write_cold/flush_buf/Drop)')
    rep.trust('underlying writers are all-or-nothing (datagram semantics), as the property states')
    m = W.WriterModel(ctx, rep)
    if not m.ok:
        return
    W.rule_M1(m, rep)
    W.rule_M2(m, rep, 'must')
    W.rule_M3(m, rep)
    W.rule_M4_M5_M6(m, rep, want=('M4', 'M5'))
    W.rule_M7(m, rep)
    W.rule_M8(m, rep)
    W.rule_M9(m, rep)
    W.rule_M10(m, rep)
    W.rule_M11(m, rep)
    S.rule_A1(ctx, rep)
    S.rule_A2_A3(ctx, rep)
    # every metric a buffered sink accepts goes through the line writer, whole: the sink's own emit has no side door to the
    # socket (a contention fast path that sends the metric directly would put an unterminated metric that fits on the wire alone)
    from .common import KeepOnly
    S.rule_lock_discipline(ctx, KeepOnly(rep, ('/one-writer-call', '/whole-metric', '/writer-from-guard'), 'D1w'), 'D1w', methods=('emit',))
