"""Rules about the sinks around the line writer: A1..A3 (C05), D1..D3 (C06), E1 (C07), lock discipline (C12-R1)."""
from .. import cfg as C
from ..terms import Terms, norm, fmt, walk, field_of
from .common import *
from .writer import MLW, WRITE_TRAIT, BUFW, _is_err_of

SINK_TRAIT = 'cadence::sinks::core::MetricSink'
SEND_CALLS = ('std::net::udp::UdpSocket::send_to', 'std::os::unix::net::datagram::UnixDatagram::send_to',
              'crossbeam_channel::channel::Sender::try_send', 'crossbeam_channel::channel::Sender::send',
              'std::net::udp::UdpSocket::send', 'std::os::unix::net::datagram::UnixDatagram::send',
             'std::os::unix::net::datagram::UnixDatagram::send_to_addr', 'std::os::unix::net::datagram::UnixDatagram::send_vectored')


def buffered_sinks(cad):
    """ADTs with a field of type Mutex<MultiLineWriter<..>> : [(adt_path, field_name, adapter_type)]"""
    out = []
    for path, a in cad.adts.items():
        if a['kind'] != 'Struct':
            continue
        for f in a['variants'][0]['fields']:
            ty = f['ty']
            if MLW + '<' in ty and 'Mutex<' in ty:
                adapter = ty[ty.index(MLW + '<') + len(MLW) + 1:].rstrip('>')
                out.append((path, f['name'], adapter))
    # the mutex-wrapped writer may sit in a private newtype (`struct SharedWriter(Mutex<MultiLineWriter<..>>)` with a `lock()`
    # helper): the sink is then the struct that implements MetricSink and has the newtype as a field
    sinks_ = set(i.get('self_adt') for i in cad.impls_of(SINK_TRAIT))
    res = []
    for path, fname, adapter in out:
        if path in sinks_:
            res.append((path, fname, adapter))
            continue
        holders = [(p2, f2['name']) for p2, a2 in cad.adts.items() if a2['kind'] == 'Struct' and p2 in sinks_
                   for f2 in a2['variants'][0]['fields'] if type_head(f2['ty']) == path]
        if len(holders) == 1 and len(cad.adts[path]['variants'][0]['fields']) == 1:
            res.append((holders[0][0], holders[0][1], adapter))
        else:
            res.append((path, fname, adapter))
    return sorted(res)


def adapters(cad):
    """impls of std::io::Write in this crate other than MultiLineWriter's: [(adt, write body, flush body)]"""
    out = []
    for i in cad.impls_of(WRITE_TRAIT):
        adt = i.get('self_adt')
        if not adt or adt == MLW:
            continue
        items = {it['name']: it['path'] for it in i['items']}
        w = cad.bodies.get(items.get('write'))
        f = cad.bodies.get(items.get('flush'))
        out.append((adt, w, f))
    return sorted(out, key=lambda x: x[0])


def is_whole_param(t, param):
    """term is the parameter itself (through refs / to_vec / to_owned / as_bytes / Vec::from copies)."""
    t = norm(t)
    while True:
        p = peel(t)
        if p == ('param', param):
            return True
        if p[0] == 'call' and isinstance(p[1], str) and len(p[2]) == 1 and (
                p[1].endswith('::to_vec') or p[1].endswith('::to_owned') or p[1].endswith('::as_bytes')
                or p[1].endswith('::to_string') or p[1].endswith('as core::convert::From>::from') or p[1].endswith('::as_str')
                or p[1].endswith('ToOwned>::to_owned') or p[1].endswith('ToString>::to_string')
                or p[1].endswith('::into') or p[1].endswith('::as_ref')):
            t = p[2][0]
            continue
        return False


def rule_A1(ctx, rep, rid='A1'):
    cad = ctx.cad
    ads = adapters(cad)
    rep.floor(rid, 'write adapters (impl Write for sink adapters)', len(ads), 3)
    for adt, w, f in ads:
        name = adt.rsplit('::', 1)[-1]
        if w is None or f is None:
            rep.anchor_lost(rid, 'write/flush of %s' % name)
            continue
        rep.analysed(w)
        rep.analysed(f)
        body = inl(cad, w)
        T = Terms(body)
        sends = [bi for bi, t in body.calls() if callee_is(t, *SEND_CALLS) and not body.blocks[bi]['cleanup']]
        cnt = count_events(body, lambda b: b in sends)
        rep.sites(len(sends))
        rep.ob(rid, '%s/one-send-per-write' % name, cnt == {1}, body.where(sends[0]) if sends else w.where(),
               'exactly one datagram send on every path' if cnt == {1} else
               'a write on the adapter performs %s sends (must be exactly one: one write = one datagram)' % sorted(cnt))
        for bi in sends:
            ct = norm(T.call_term(bi))
            payload = ct[2][1]
            okp = is_whole_param(payload, 2)
            rep.ob(rid, '%s/sends-whole-buffer' % name, okp, body.where(bi),
                   'payload is the whole `buf`' if okp else 'payload is %s, not the whole `buf` parameter' % fmt(payload))
        # flush is a no-op returning Ok
        fb = inl(cad, f)
        fs = [bi for bi, t in fb.calls() if callee_is(t, *SEND_CALLS)]
        rts = ret_terms(Terms(fb), [0])
        okf = not fs and rts and all(r[0] == 'adt' and r[2] == 'Ok' for r in rts)
        rep.ob(rid, '%s/flush-is-noop' % name, okf, f.where(), 'adapter flush = Ok(())' if okf else 'adapter flush does I/O or can fail')


def _ctor_bodies(cad, adt):
    """Public associated functions without self that construct the sink (reachable API)."""
    out = []
    for b in cad.all_bodies:
        if b.def_kind != 'AssocFn' or b.impl_trait is not None or b.impl_self is None:
            continue
        if type_head(b.impl_self) != adt:
            continue
        if not b.j.get('reachable'):
            continue
        # no self parameter: first local type is not (a ref to) the ADT
        if b.arg_count >= 1 and type_head(b.locals[1]) == adt:
            continue
        out.append(b)
    return out


def rule_A2_A3(ctx, rep):
    cad = ctx.cad
    sinks = buffered_sinks(cad)
    rep.floor('A2', 'buffered sinks (Mutex<MultiLineWriter<_>> field)', len(sinks), 3)
    nctor = 0
    for adt, field, adapter in sinks:
        name = adt.rsplit('::', 1)[-1]
        ctors = _ctor_bodies(cad, adt)
        if not ctors:
            rep.anchor_lost('A2', 'public constructors of %s' % name)
            continue
        for cb in ctors:
            rep.analysed(cb)
            body = inl(cad, cb, never=lambda b: b.path.endswith('MultiLineWriter::<T>::new') or b.path.endswith('MultiLineWriter::<T>::with_ending'))
            T = Terms(body)
            news = [bi for bi, t in body.calls() if not body.blocks[bi]['cleanup'] and
                    callee_is(t, 'cadence::io::MultiLineWriter::new', 'cadence::io::MultiLineWriter::with_ending')]
            if len(news) != 1:
                rep.bad('A3', '%s::%s/builds-one-writer' % (name, cb.name), cb.where(),
                        'constructor builds %d MultiLineWriter(s)' % len(news))
                continue
            nctor += 1
            rep.sites()
            ct = norm(T.call_term(news[0]))
            cap = ct[2][1]
            # A3: newline terminated
            is_new = ct[1].endswith('MultiLineWriter::new')
            ok3 = is_new or (len(ct[2]) == 3 and peel(ct[2][2]) == ('str', '\n'))
            rep.ob('A3', '%s::%s/newline-terminator' % (name, cb.name), ok3, body.where(news[0]),
                   'writer built with MultiLineWriter::new (terminator "\\n")' if ok3 else 'writer built with terminator %s' % fmt(ct[2][2]))
            # A2: capacity is 512, or a parameter passed through, or param.unwrap_or(512)
            verdict, why = _cap_ok(cap)
            if verdict:
                # which parameter: the buffer size is the last size-typed parameter of the public signature (the spy sink
                # also takes a queue bound in front of it - mixing the two up type-checks)
                sized = [i_ for i_ in range(1, cb.arg_count + 1) if cb.locals[i_].replace(' ', '') in ('usize', 'core::option::Option<usize>')]
                used = set(y[1] for y in walk(norm(cap)) if y[0] == 'param')
                if used and sized and used != {sized[-1]}:
                    verdict, why = False, 'the line buffer is sized from parameter %s of %s::%s, the buffer size is parameter %d' % (sorted(used), name, cb.name, sized[-1])
            rep.ob('A2', '%s::%s/capacity' % (name, cb.name), verdict, body.where(news[0]), why)
    rep.floor('A2', 'sink constructors analysed', nctor, 6)


def _is_512(t):
    return t[0] == 'const' and t[2] == '512'


def _cap_ok(cap):
    cap = norm(cap)
    if cap[0] == 'phi':
        rs = [_cap_ok(x) for x in cap[1]]
        if all(r[0] for r in rs):
            return True, 'capacity = ' + ' | '.join(r[1] for r in rs)
        return False, [r[1] for r in rs if not r[0]][0]
    if cap[0] == 'field' and cap[1][0] == 'payload' and cap[1][2] == 'Some' and peel(cap[1][1])[0] == 'param':
        return True, 'given capacity (Some payload of the parameter)'
    if _is_512(cap):
        return True, 'default capacity is 512'
    if cap[0] == 'param':
        return True, 'capacity parameter passed through unchanged'
    if cap[0] == 'call' and cap[1].endswith('Option::unwrap_or') and _is_512(cap[2][1]):
        a = cap[2][0]
        if a[0] == 'param':
            return True, 'capacity = given.unwrap_or(512)'
        if a[0] == 'adt' and a[2] == 'Some' and _is_512(dict(a[3]).get('0', ('x',))):
            return True, 'capacity = Some(512).unwrap_or(512)'
        if a[0] == 'adt' and a[2] == 'None':
            return True, 'capacity = None.unwrap_or(512)'
    if cap[0] == 'const':
        return False, 'default buffer capacity is %s, the documented default is 512' % cap[2]
    return False, 'buffer capacity is computed as %s (must be the given capacity or 512)' % fmt(cap)


def _zero_paths_return_err(b, T, ops):
    """do all paths that avoid the writer call end in Err (a refusal, not a side door)?"""
    if len(ops) != 1:
        return False
    import copy
    b2 = copy.copy(b)
    b2.blocks = list(b.blocks)
    b2.blocks[ops[0]] = dict(b.blocks[ops[0]], term={'k': 'unreachable'})
    live = reach(b2, [0])
    b2.blocks = [blk if i in live else dict(blk, stmts=[], term={'k': 'unreachable'}) for i, blk in enumerate(b2.blocks)]
    rts = ret_terms(Terms(b2), [0])
    return bool(rts) and all(r[0] == 'adt' and r[2] == 'Err' for r in rts)


def rule_lock_discipline(ctx, rep, rid, methods=('emit', 'flush')):
    """C12-R1 / D1: emit and flush of each buffered sink = lock (blocking) once; one write/flush on the guarded writer;
    the result of that call is returned."""
    cad = ctx.cad
    sinks = buffered_sinks(cad)
    rep.floor(rid, 'buffered sinks', len(sinks), 3)
    for adt, field, adapter in sinks:
        name = adt.rsplit('::', 1)[-1]
        impl = [i for i in cad.impls_of(SINK_TRAIT) if i.get('self_adt') == adt]
        if len(impl) != 1:
            rep.anchor_lost(rid, 'impl MetricSink for %s' % name)
            continue
        items = {it['name']: it['path'] for it in impl[0]['items']}
        for meth in methods:
            inst = '%s::%s' % (name, meth)
            if meth not in items:
                if meth == 'flush':
                    rep.bad(rid, inst + '/overrides-flush', impl[0]['span']['file'] + ':%d' % impl[0]['span']['line'],
                            '%s does not override MetricSink::flush: the trait default is a silent no-op, buffered '
                            'lines would never leave on flush' % name)
                else:
                    rep.anchor_lost(rid, inst)
                continue
            b = cad.bodies[items[meth]]
            rep.analysed(b)
            # private / pub(crate) helpers are spliced; the writer's own Write impl stays a call (it is the event)
            b = inl(cad, b, never=lambda x: x.impl_trait == WRITE_TRAIT and x.impl_self and type_head(x.impl_self) == MLW)
            T = Terms(b)
            locks = [bi for bi, t in b.calls() if callee_is(t, 'Mutex::lock', 'Mutex::try_lock', 'Mutex::get_mut',
                                                            'RwLock::write', 'RwLock::try_write') and not b.blocks[bi]['cleanup']]
            lock_ok = [bi for bi in locks if callee_is(b.term(bi), 'std::sync::poison::mutex::Mutex::lock')
                       and self_field_name(norm(T.call_term(bi))[2][0]) == field]
            rep.sites(len(locks))
            c1 = count_events(b, lambda x: x in locks)
            ok = len(locks) == 1 and len(lock_ok) == 1 and c1 == {1}
            rep.ob(rid, inst + '/one-blocking-lock', ok, b.where(locks[0]) if locks else b.where(),
                   'exactly one Mutex::lock on self.%s' % field if ok else
                   'expected exactly one blocking Mutex::lock on self.%s per call; found %s' % (
                       field, [strip_generics(b.term(x)['callee']) for x in locks]))
            target = 'write' if meth == 'emit' else 'flush'
            ops = [bi for bi, t in b.calls() if not b.blocks[bi]['cleanup'] and
                   callee_is(t, 'as std::io::Write>::' + target) and MLW in strip_generics(t.get('callee_full', ''))]
            cw = count_events(b, lambda x: x in ops)
            ok2 = len(ops) == 1 and cw == {1}
            if not ok:
                # the writer-call count is reported even when the locking is not as expected (properties that borrow only
                # that clause): a path that returns Ok without going through the writer is a side door
                rep.ob(rid, inst + '/one-writer-call', ok2 or cw <= {0, 1} and _zero_paths_return_err(b, T, ops), b.where(ops[0]) if ops else b.where(),
                       'exactly one MultiLineWriter::%s per call (or an error without touching it)' % target)
                continue
            lockterm = norm(T.call_term(lock_ok[0]))
            rep.ob(rid, inst + '/one-writer-call', ok2, b.where(ops[0]) if ops else b.where(),
                   'exactly one MultiLineWriter::%s per call' % target if ok2 else
                   'expected exactly one MultiLineWriter::%s on every path, counts %s' % (target, sorted(cw)))
            if not ok2:
                continue
            ct = norm(T.call_term(ops[0]))
            recv = ct[2][0]
            from_guard = any(x == lockterm for x in walk(recv))
            rep.ob(rid, inst + '/writer-from-guard', from_guard, b.where(ops[0]),
                   'the writer reference comes from the lock guard' if from_guard else
                   'the writer is reached without going through the guard of self.%s' % field)
            if meth == 'emit':
                okp = is_whole_param(ct[2][1], 2)
                rep.ob(rid, inst + '/whole-metric', okp, b.where(ops[0]),
                       'writes metric.as_bytes() whole' if okp else 'writes %s instead of the whole metric' % fmt(ct[2][1]))
            rts = ret_terms(T, [0])
            okr = rts == {ct}
            rep.ob(rid, inst + '/returns-writer-result', okr, b.where(ops[0]),
                   'returns the writer\'s result unchanged' if okr else 'returns %s' % [fmt(x)[:120] for x in rts])
            # guard live across the call: the guard local is dropped only after the call
            drops = [bi for bi, blk in enumerate(b.blocks) if blk['term']['k'] == 'drop' and 'MutexGuard' in blk['term']['ty']
                     and not blk['cleanup']]
            # an explicit `drop(guard)` releases it as well
            drops += [bi for bi, t_ in b.calls() if not b.blocks[bi]['cleanup'] and callee_is(t_, 'core::mem::drop') and
                      any('MutexGuard' in a_ for a_ in t_.get('callee_args', []))]
            early = [d for d in drops if ops[0] in reach(b, [d])]
            rep.ob(rid, inst + '/guard-held-across-call', not early and bool(drops), b.where(drops[0]) if drops else b.where(),
                   'guard dropped after the writer call' if not early and drops else 'the lock guard is released before the writer call')


def rule_writer_only_in_emit_flush(ctx, rep, rid='G3'):
    """A buffered sink reaches its line writer only from its own emit / flush (constructors build it, drop glue and
    Debug are not writes): no other method - stats(), a new accessor - locks it, and none calls the sink's own
    emit/flush, so nothing else can put bytes on the socket."""
    cad = ctx.cad
    for adt, field, adapter in buffered_sinks(cad):
        name = adt.rsplit('::', 1)[-1]
        impl = [i for i in cad.impls_of(SINK_TRAIT) if i.get('self_adt') == adt]
        own = set()
        for i in impl:
            for it in i['items']:
                if it['name'] in ('emit', 'flush'):
                    own.add(it['path'])
        bad = []
        from .qmodel import private_region, _fn_owner
        # an inherent public `fn flush_now(&self)` that does nothing with the writer but flush it is an explicit flush
        # under another name (the caller asked for it); like flush() it may not be called by the sink's other methods
        for b in cad.all_bodies:
            if b.impl_self and type_head(b.impl_self) == adt and b.impl_trait is None and b.def_kind == 'AssocFn' and \
                    b.j.get('reachable') and b.arg_count == 1 and b.locals[1].lstrip('&').strip() == b.impl_self.strip():
                reg = [b] + [cad.bodies[p_] for p_ in private_region(cad, [b]) if p_ in cad.bodies]
                wcalls = [t_ for x in reg for _, t_ in x.calls() if MLW in strip_generics(t_.get('callee_full', '')) or
                          (t_.get('resolved') or '').startswith('<' + MLW)]
                if wcalls and all(callee_is(t_, 'as std::io::Write>::flush') for t_ in wcalls):
                    own.add(b.path)
        # private helpers that only emit()/flush() call (a `with_writer(|w| ..)` lock helper) belong to them
        region = set(own) | private_region(cad, [cad.bodies[p_] for p_ in own if p_ in cad.bodies])
        for b in cad.all_bodies:
            if b.path in region or _fn_owner(cad, b) in region or b.file.endswith('/test.rs') or '::tests::' in b.path:
                continue
            is_method = b.impl_self and type_head(b.impl_self) == adt
            if not is_method:
                continue
            if b.impl_trait and ('fmt::Debug' in b.impl_trait or b.impl_trait.endswith('Drop')):
                continue
            ctor = type_head(b.locals[0]) == adt or adt in b.locals[0]
            for bi, blk in enumerate(b.blocks):
                if blk['cleanup']:
                    continue
                for s in blk['stmts']:
                    if s['k'] != 'assign':
                        continue
                    places = [s['place']]
                    rv = s['rv']
                    if 'place' in rv:
                        places.append(rv['place'])
                    for key in ('op', 'a', 'b'):
                        o_ = rv.get(key)
                        if isinstance(o_, dict) and o_.get('k') in ('copy', 'move'):
                            places.append(o_['place'])
                    for pl in places:
                        if any(e[0] == 'field' and e[2] == field and MLW in str(e[3]) for e in pl['p']) and not ctor:
                            bad.append((b, bi, 'touches the line writer'))
                t_ = blk['term']
                if t_['k'] == 'call' and t_.get('resolved') in own:
                    bad.append((b, bi, 'calls the sink\'s own %s' % t_['resolved'].rsplit('::', 1)[-1]))
        rep.sites()
        rep.ob(rid, '%s/writer-only-in-emit-flush' % name, not bad, bad[0][0].where(bad[0][1]) if bad else '',
               'only emit()/flush() of %s reach the line writer' % name if not bad else
               '%s %s: the socket can be written outside an emit that must, an explicit flush or drop' % (bad[0][0].short(), bad[0][2]))


def rule_forwarding_impls(ctx, rep, rid='F1', methods=('flush', 'stats')):
    """Every MetricSink impl in the crate whose emit() hands the metric to another MetricSink (a forwarding impl: `impl<T:
    MetricSink> MetricSink for Arc<T>`, `Box<T>`, a private checking wrapper ..) must forward flush()/stats() to the same
    object too: the trait's defaults are a silent no-op / all-zero statistics, and a forwarding impl on a pointer type also
    captures `arc.flush()` calls that used to auto-deref to the sink itself."""
    cad = ctx.cad
    impls = cad.impls_of(SINK_TRAIT)
    rep.floor(rid, 'MetricSink impls in the crate', len(impls), 8)
    nfw = 0
    for i in impls:
        items = {it['name']: it['path'] for it in i['items']}
        eb = cad.bodies.get(items.get('emit'))
        if eb is None or eb.file.endswith('/test.rs') or '::tests::' in eb.path:
            continue
        rep.analysed(eb)
        ib = inl(cad, eb)
        T = Terms(ib)
        fw = [bi for bi, t in ib.calls() if not ib.blocks[bi]['cleanup'] and callee_is(t, SINK_TRAIT + '::emit') and not t.get('resolved_local')
              or (not ib.blocks[bi]['cleanup'] and callee_is(t, SINK_TRAIT + '::emit') and t.get('resolved_kind') == 'virtual')]
        if not fw:
            continue
        nfw += 1
        rep.sites()
        name = strip_generics(i.get('self_ty') or i.get('self_adt') or eb.impl_self or '?')
        recv = set(deep_peel(norm(T.call_term(bi))[2][0]) for bi in fw)
        for meth in methods:
            mb = cad.bodies.get(items.get(meth))
            if mb is None:
                rep.bad(rid, '%s/forwards-%s' % (name, meth), eb.where(), 'forwarding impl of MetricSink for %s passes emit() on but inherits the default %s() '
                        '(%s)' % (name, meth, 'buffered metrics stay where they are' if meth == 'flush' else 'statistics read as zero'))
                continue
            imb = inl(cad, mb)
            Tm = Terms(imb)
            calls = [bi for bi, t in imb.calls() if not imb.blocks[bi]['cleanup'] and callee_is(t, SINK_TRAIT + '::' + meth) and
                     (not t.get('resolved_local') or t.get('resolved_kind') == 'virtual')]
            ok = len(calls) == 1 and count_events(imb, lambda x: x in calls) == {1} and deep_peel(norm(Tm.call_term(calls[0]))[2][0]) in recv and \
                ret_terms(Tm, [0]) == {norm(Tm.call_term(calls[0]))}
            rep.ob(rid, '%s/forwards-%s' % (name, meth), ok, mb.where(), '%s() is passed on to the same object as emit(), result unchanged' % meth if ok else
                   '%s() of the forwarding impl for %s is not a plain delegation to the object emit() goes to' % (meth, name))
    rep.good(rid, 'forwarding-impls', '', '%d of %d MetricSink impls pass emit() on to another sink; each forwards %s as well' % (nfw, len(impls), '/'.join(methods)))


def rule_no_implicit_flush(ctx, rep, rid='G4'):
    """Nothing in the library flushes a sink on its own initiative: MetricSink::flush is called only by the public
    StatsdClient::flush (the user's explicit flush) and by flush() of sinks that pass it on (queuing wrapper, forwarding
    impls).  A Drop impl of the client, an emit path or a statistics getter that flushes writes under-filled datagrams."""
    cad = ctx.cad
    allowed = set()
    for i in cad.impls_of(SINK_TRAIT):
        for it in i['items']:
            if it['name'] == 'flush':
                allowed.add(it['path'])
    from .qmodel import private_region
    cf = cad.method('cadence::client::StatsdClient', 'flush')
    for b in cf:
        if b.impl_trait is None:
            allowed.add(b.path)
    allowed |= private_region(cad, [cad.bodies[p_] for p_ in allowed if p_ in cad.bodies])
    n = 0
    bad = []
    for b in cad.all_bodies:
        if b.file.endswith('/test.rs') or '::tests::' in b.path:
            continue
        for bi, t in b.calls():
            if callee_is(t, SINK_TRAIT + '::flush'):
                n += 1
                if b.path not in allowed and not any(b.path.startswith(p_ + '::') for p_ in allowed):
                    if b.impl_trait is None and b.def_kind == 'AssocFn' and b.j.get('reachable') and b.impl_self:
                        continue        # a public inherent method (`close(self)`, `flush_now(&self)`): the user asked for it
                    bad.append((b, bi))
    rep.floor(rid, 'calls of MetricSink::flush in the crate', n, 2)
    rep.sites(n)
    rep.ob(rid, 'flush-only-on-request', not bad, bad[0][0].where(bad[0][1]) if bad else '',
           'MetricSink::flush is called by StatsdClient::flush and by forwarding flush() impls only' if not bad else
           '%s flushes a sink although nobody asked for a flush' % sorted(set(b.short() for b, _ in bad)))


def rule_D2(ctx, rep, rid='D2'):
    cad = ctx.cad
    bs = cad.method('cadence::client::StatsdClient', 'flush')
    b = one(rep, rid, 'StatsdClient::flush', bs)
    if b is None:
        return
    rep.analysed(b)
    b = inl(cad, b)
    T = Terms(b)
    fl = [bi for bi, t in b.calls() if callee_is(t, SINK_TRAIT + '::flush') and not b.blocks[bi]['cleanup']]
    cnt = count_events(b, lambda x: x in fl)
    ok = len(fl) == 1 and cnt == {1} and on_self_path(norm(T.call_term(fl[0]))[2][0], client_field(cad, 'sink'))
    rep.ob(rid, 'client-flush-calls-sink-flush', ok, b.where(fl[0]) if fl else b.where(),
           'StatsdClient::flush calls self.sink.flush() exactly once' if ok else 'StatsdClient::flush does not flush its sink exactly once')
    if not ok:
        return
    ct = norm(T.call_term(fl[0]))
    rc = result_cases(T, fl[0])
    re_, ro = rc['err'], rc['ok']
    okk = not rc['?'] and all(_is_err_of(r, ct) for r in re_) and bool(re_) and all(r[0] == 'adt' and r[2] == 'Ok' for r in ro) and bool(ro)
    rep.ob(rid, 'client-flush-propagates', okk, b.where(fl[0]), 'Err(e) -> Err(from(e)), Ok -> Ok(())' if okk else 'flush result is not propagated')


def rule_D3(ctx, rep, rid='D3', methods=('flush', 'stats')):
    """QueuingMetricSink::flush/stats delegate to self.sink; build() makes self.sink and the worker's sink the same Arc."""
    cad = ctx.cad
    Q = 'cadence::sinks::queuing::QueuingMetricSink'
    impl = [i for i in cad.impls_of(SINK_TRAIT) if i.get('self_adt') == Q]
    if len(impl) != 1:
        rep.anchor_lost(rid, 'impl MetricSink for QueuingMetricSink')
        return
    items = {it['name']: it['path'] for it in impl[0]['items']}
    # the handle's own reference to the wrapped sink, by type (Arc<dyn MetricSink ..>)
    fsink = [f['name'] for f in adt_fields(cad, Q) or [] if 'dyn cadence::sinks::core::MetricSink' in f['ty'] or 'dyncadence::sinks::core::MetricSink' in f['ty'].replace(' ', '')]
    if len(fsink) != 1:
        rep.anchor_lost(rid, 'the field of QueuingMetricSink holding the wrapped sink (%s)' % fsink)
        return
    fsink = fsink[0]
    for meth in methods:
        if meth not in items:
            rep.bad(rid, 'queuing-%s-delegates' % meth, impl[0]['span']['file'],
                    'QueuingMetricSink does not override %s: the wrapped sink\'s %s is unreachable through it' % (meth, meth))
            continue
        b = cad.bodies[items[meth]]
        rep.analysed(b)
        # local callees inlined: a forwarding impl on the pointer type (`impl MetricSink for Arc<T>`) that method resolution
        # may have picked is followed to the dynamic call on the wrapped object - or to the trait's default no-op
        b = inl(cad, b)
        T = Terms(b)
        calls = [bi for bi, t in b.calls() if not b.blocks[bi]['cleanup'] and callee_is(t, SINK_TRAIT + '::' + meth)
                 and (t.get('resolved_kind') == 'virtual' or not t.get('resolved_local')) and self_field_name(norm(T.call_term(bi))[2][0]) == fsink]
        ok = False
        if len(calls) == 1 and count_events(b, lambda x: x in calls) == {1}:
            # the wrapped sink's method is reached on every path and its result is what the caller gets
            ct = norm(T.call_term(calls[0]))
            ok = ret_terms(T, [0]) == {ct}
        rep.ob(rid, 'queuing-%s-delegates' % meth, ok, b.where(),
               '%s() = self.sink.%s() unchanged' % (meth, meth) if ok else
               'QueuingMetricSink::%s is not a plain delegation to the wrapped sink' % meth)
    bs = cad.method('cadence::sinks::queuing::QueuingMetricSinkBuilder', 'build')
    b = one(rep, rid, 'QueuingMetricSinkBuilder::build', bs)
    if b is None:
        return
    rep.analysed(b)
    # private helpers of build() (a `start(..)` constructor ..) inlined; spawn function and worker constructor stay calls
    spawners = set(x.path for x in cad.all_bodies if x.def_kind == 'Fn' and any(callee_is(t_, 'std::thread::functions::spawn', 'std::thread::builder::Builder::spawn', 'std::thread::Builder::spawn') for _, t_ in x.calls()))
    T = Terms(inl(cad, b, never=lambda x: x.path in spawners or (x.impl_self and x.impl_trait is None and type_head(x.locals[0]) == type_head(x.impl_self)
                                                                  and type_head(x.impl_self) != Q and in_module_of(x, Q) and 'Sender' in str(cad.adts.get(type_head(x.impl_self), '')))))
    rts = ret_terms(T, [0])
    ok = False
    msg = 'build returns %s' % [fmt(x)[:200] for x in rts]
    if len(rts) == 1:
        r = list(rts)[0]
        if r[0] == 'adt' and r[1] == Q:
            fs = dict(r[3])
            sink = fs.get(fsink)
            arc = _arc_new_of(sink)
            # the closure capture that emits
            clos = [x for n_, v_ in fs.items() if n_ != fsink for x in walk(v_) if x[0] == 'closure']
            caps = []
            for c_ in clos:
                for n, v in c_[2]:
                    a = _arc_new_of(v, weak=True)
                    if a is not None:
                        caps.append(a)
                    v = norm(v)
                    if v[0] == 'adt':
                        # a captured private struct holding the task's state (named task object instead of captures)
                        for _n2, v2 in v[3]:
                            a = _arc_new_of(v2, weak=True)
                            if a is not None:
                                caps.append(a)
            inner = arc[2][0] if arc is not None and len(arc[2]) == 1 else None
            # Arc::new(sink) or Arc::new(PrivateWrapper(sink)): a local forwarding wrapper around the user's sink is the
            # wrapped sink as far as this rule goes (that it forwards flush/stats is rule F1)
            wrapped = inner is not None and (inner == ('param', 2) or (inner[0] == 'adt' and inner[1] in cad.adts and
                                                                        any(peel(v_) == ('param', 2) for _, v_ in inner[3])))
            ok = wrapped and any(a == arc for a in caps)
            msg = 'handle.sink and the worker closure share one Arc::new(sink)' if ok else \
                'handle.sink = %s ; closure captures %s' % (fmt(sink)[:160], [fmt(a)[:120] for a in caps])
    rep.ob(rid, 'build-shares-one-arc', ok, b.where(), msg)


def _arc_new_of(t, weak=False):
    """If t is Arc::new(x) possibly through clone/unsize, return the Arc::new call term."""
    if t is None:
        return None
    t = norm(t)
    while True:
        if t[0] in ('unsize', 'conv', 'autoderef'):
            t = t[1]
        elif t[0] == 'ref':
            t = t[1]
        elif t[0] == 'call' and isinstance(t[1], str) and t[1] == '<alloc::sync::Arc as core::clone::Clone>::clone':
            t = t[2][0]
        elif weak and t[0] == 'call' and isinstance(t[1], str) and t[1] in ('alloc::sync::Arc::downgrade', '<alloc::sync::Weak as core::clone::Clone>::clone'):
            t = t[2][0]         # a weak pointer to the same allocation (who keeps it alive is C09's business)
        elif t[0] == 'call' and isinstance(t[1], str) and t[1].endswith('alloc::sync::Arc::new'):
            return t
        else:
            return None


def flatten_phi_all(terms):
    out = []
    for t_ in terms:
        out.extend(flatten_phi(t_))
    return out


def rule_E1(ctx, rep, rid='E1'):
    """Errors surface: spy send maps Full/Disconnected to Err; SocketStats::update returns Err(e) with the same e."""
    cad = ctx.cad
    SS_ = 'cadence::sinks::core::SocketStats'
    upd_ = [b_ for b_ in cad.all_bodies if b_.impl_self and type_head(b_.impl_self) == SS_ and b_.impl_trait is None and b_.def_kind == 'AssocFn'
            and any(b_.locals[i].replace(' ', '').startswith('core::result::Result<usize,std::io::error::Error>') for i in range(1, b_.arg_count + 1))]
    b = one(rep, rid, 'SocketStats::update', upd_)
    if b is not None:
        rep.analysed(b)
        T = Terms(b)
        rts = ret_terms(T, [0])
        if not (rts == {('param', 2)}):
            # combinator chains (map/map_err/inspect/inspect_err with closures that do the counting) are read in their
            # desugared form
            T = Terms(inl(cad, b))
            rts = set(flatten_phi_all(ret_terms(T, [0])))
        exp_ok = ('adt', 'core::result::Result', 'Ok', (('0', field_of(('payload', ('param', 2), 'Ok'), '0', 0)),))
        exp_err = ('adt', 'core::result::Result', 'Err', (('0', field_of(('payload', ('param', 2), 'Err'), '0', 0)),))
        ok = rts == {exp_ok, exp_err} or rts == {('param', 2)}
        rep.ob(rid, 'update-returns-socket-result', ok, b.where(),
               'update returns Ok(n)/Err(e) of the socket unchanged' if ok else 'update returns %s' % sorted(fmt(x) for x in rts))
    for adt, w, f in adapters(cad):
        if w is None:
            continue
        body = inl(cad, w)
        T = Terms(body)
        sends = [bi for bi, t in body.calls() if callee_is(t, *SEND_CALLS) and not body.blocks[bi]['cleanup']]
        name = adt.rsplit('::', 1)[-1]
        # an error the adapter makes up itself must not be of kind Interrupted: std's BufWriter (and write_all) retry that
        # kind silently, so a persistent refusal reported as Interrupted never comes back to the caller of emit/flush
        made = []
        for bi, blk in enumerate(body.blocks):
            if blk['cleanup'] or blk.get('dead'):
                continue
            for si, s in enumerate(blk['stmts']):
                if s['k'] == 'assign' and s['rv']['k'] == 'agg' and str(s['rv'].get('path', '')).endswith('io::error::ErrorKind') and s['rv'].get('variant') == 'Interrupted':
                    made.append(bi)
            if blk['term']['k'] == 'call':
                for a_ in blk['term']['args']:
                    if a_.get('k') == 'const' and 'ErrorKind' in str(a_.get('ty', '')) and 'Interrupted' in str(a_.get('repr', '')):
                        made.append(bi)
            if blk['term']['k'] == 'call' and any(y[0] == 'adt' and str(y[1]).endswith('io::error::ErrorKind') and y[2] == 'Interrupted' for y in walk(norm(T.call_term(bi)))):
                made.append(bi)
        rep.ob(rid, '%s/no-made-up-interrupted-error' % name, not made, body.where(made[0]) if made else body.where(),
               'the adapter never fabricates an io::ErrorKind::Interrupted error (BufWriter would retry it forever)')
        for bi in sends:
            ok_e, err_e, _ = outcomes(T, bi)
            ct = norm(T.call_term(bi))
            if not err_e:
                rc = result_cases(T, bi)
                if rc['ok'] and rc['err'] and not rc['?']:
                    g1 = all(r[0] == 'adt' and r[2] == 'Err' for r in rc['err'])
                    g2 = all(r[0] == 'adt' and r[2] == 'Ok' for r in rc['ok'])
                    rep.ob(rid, '%s/send-failure-is-error' % name, g1, body.where(bi), 'every refusal is returned as Err')
                    rep.ob(rid, '%s/send-success-is-ok' % name, g2, body.where(bi), 'Ok only when the send succeeded')
                    continue
            if not err_e:
                # result passed on whole (e.g. to update): returned terms must be Err-of-call on the Err side
                rts = ret_terms(T, [0])
                errs = [r for r in rts if r[0] == 'adt' and r[2] == 'Err']
                oks = [r for r in rts if r[0] == 'adt' and r[2] == 'Ok']
                ok = (bool(errs) and bool(oks)) or (bool(rts) and all(r == ct for r in rts))      # the result itself is passed back
                rep.ob(rid, '%s/send-failure-is-error' % name, ok, body.where(bi),
                       'a failed send yields Err' if ok else 'write returns %s' % [fmt(x) for x in rts])
                continue
            rts = ret_terms(T, err_e, known={ct: 'Err'})
            ok = bool(rts) and all((r[0] == 'adt' and r[2] == 'Err') or r == ct for r in rts)
            rep.ob(rid, '%s/send-failure-is-error' % name, ok, body.where(bi),
                   'every refusal (Full/Disconnected/io error) is returned as Err' if ok else
                   'a refused send can return %s' % [fmt(x) for x in rts if not (x[0] == 'adt' and x[2] == 'Err')])
            rto = ret_terms(T, ok_e, known={ct: 'Ok'})
            ok = bool(rto) and all((r[0] == 'adt' and r[2] == 'Ok') or r == ct for r in rto)
            rep.ob(rid, '%s/send-success-is-ok' % name, ok, body.where(bi), 'Ok only when the send succeeded' if ok else 'returns %s after success' % [fmt(x) for x in rto])
