"""C02: lossless value flow (R1), Duration units (R2), exact narrowing guard (R3)."""
from .. import linear as L
from ..terms import Terms, norm, fmt, walk, field_of
from .common import *
from .fmtout import MV

INT_RANGE = {
    'i8': (-2**7, 2**7 - 1), 'i16': (-2**15, 2**15 - 1), 'i32': (-2**31, 2**31 - 1), 'i64': (-2**63, 2**63 - 1),
    'i128': (-2**127, 2**127 - 1), 'isize': (-2**63, 2**63 - 1),
    'u8': (0, 2**8 - 1), 'u16': (0, 2**16 - 1), 'u32': (0, 2**32 - 1), 'u64': (0, 2**64 - 1), 'u128': (0, 2**128 - 1),
    'usize': (0, 2**64 - 1),
}
CLASS = {'Signed': 'i', 'PackedSigned': 'i', 'Unsigned': 'u', 'PackedUnsigned': 'u', 'Float': 'f', 'PackedFloat': 'f'}
EXPECTED_IMPLS = 22
VALUE_TRAITS = ['ToCounterValue', 'ToTimerValue', 'ToGaugeValue', 'ToMeterValue', 'ToHistogramValue', 'ToDistributionValue', 'ToSetValue']
UNIT = {'ToTimerValue': 'as_millis', 'ToHistogramValue': 'as_nanos'}
U64MAX = 2**64 - 1


def value_impls(cad):
    out = []
    for b in cad.all_bodies:
        if b.name == 'try_to_value' and b.def_kind == 'AssocFn' and (b.impl_trait or '').startswith('cadence::client::To'):
            out.append(b)
    return out


def ty_class(ty):
    ty = ty.replace('alloc::vec::Vec<', '').replace('>', '')
    if ty in INT_RANGE:
        return 'i' if ty.startswith('i') else 'u'
    if ty in ('f64', 'f32'):
        return 'f'
    if ty == 'core::time::Duration':
        return 'u'
    return None


import re as _re
_TRYFROM = _re.compile(r'^<(\w+) as core::convert::TryFrom>::try_from$')


def checked_conv(x):
    """x = `<int as TryFrom<_>>::try_from(y)?` (the Ok payload of a checked integer conversion): (dst type, y, call term).
    std: Ok(v) has numerically the value of y, Err iff y does not fit dst."""
    if x[0] == 'field' and x[2] in ('0', 0) and x[1][0] == 'payload' and x[1][2] == 'Ok':
        c = x[1][1]
        if c[0] == 'call' and isinstance(c[1], str) and len(c[2]) == 1:
            m = _TRYFROM.match(c[1])
            if m and m.group(1) in INT_RANGE:
                return m.group(1), c[2][0], c
    return None


def unchecked_form(alts):
    """`u64::try_from(y).unwrap_or(u64::MAX)` behind a range check of y is `y as u64` (the fallback is dead - that the range check
    is there and exact is what the guard rule decides on the result): [Ok payload of try_from(y), constant] -> the cast term"""
    alts = [a for x in alts for a in (x[1] if x[0] == 'phi' else (x,))]
    ccs = [checked_conv(a) for a in alts]
    good = [c for c in ccs if c is not None]
    if len(alts) == 2 and len(good) == 1 and good[0][0] == 'u64' and any(a[0] == 'const' for a in alts):
        return ('cast', 'IntToInt', 'u128', 'u64', good[0][1])
    return None


def _call_block(ib, T, ct):
    for bi, t in ib.calls():
        if not ib.blocks[bi]['cleanup'] and not ib.blocks[bi].get('dead') and norm(T.call_term(bi)) == ct:
            return bi
    return None


def _tryfrom_src(ib, bi):
    m = _re.search(r'TryFrom<(\w+)>', ib.blocks[bi]['term'].get('callee_full', ''))
    return m.group(1) if m else None


def _checked_exact(ib, T, cc, want_src='u128', want_dst='u64'):
    """The checked conversion `cc` = (dst, y, call) is the exact guard: dst/src types are the 128 -> 64 bit pair and every
    way out of its Err case returns InvalidInput, every way out of its Ok case an Ok value."""
    dst, y, call = cc
    bi = _call_block(ib, T, call)
    if bi is None:
        return False, 'checked conversion site not found'
    src = _tryfrom_src(ib, bi)
    if dst != want_dst or src != want_src:
        return False, 'checked conversion is %s -> %s, expected %s -> %s' % (src, dst, want_src, want_dst)
    rc = result_cases(T, bi)
    if rc['?'] or not rc['ok'] or not rc['err']:
        return False, 'the outcome of the checked conversion is not examined'
    if not all(_is_invalid_input(r) for r in rc['err']):
        return False, 'a value that does not fit into 64 bits is not rejected with InvalidInput: %s' % [fmt(r)[:80] for r in rc['err'] if not _is_invalid_input(r)][:1]
    if not all(r[0] == 'adt' and r[2] == 'Ok' for r in rc['ok']):
        return False, 'a value that fits into 64 bits is rejected (over-rejection): %s' % [fmt(r)[:80] for r in rc['ok'] if not (r[0] == 'adt' and r[2] == 'Ok')][:1]
    return True, ''


def lossless(t, self_ty, allow_narrow):
    """Is term t = the parameter through value-preserving steps only? returns (ok, why, narrowing casts seen)."""
    narrow = []
    x = t
    while True:
        x = peel(x) if x[0] in ('ref', 'unsize') else x
        if x == ('param', 1):
            return True, '', narrow
        if x[0] == 'call' and isinstance(x[1], str) and len(x[2]) == 1 and (x[1].endswith('as core::convert::Into>::into') or x[1].endswith('as core::convert::From>::from')):
            # integer widening only: `<i32 as Into>::into` to i64 / u32 to u64
            src = x[1][1:].split(' as ', 1)[0]
            if src in INT_RANGE or src in ('f32',):
                x = x[2][0]
                continue
            return False, 'conversion %s' % x[1], narrow
        cc = checked_conv(x)
        if cc is not None:
            x = cc[1]           # checked: the Ok payload is numerically the input
            continue
        if x[0] == 'cast':
            kind, frm, to = x[1], x[2], x[3]
            if kind == 'IntToInt' and frm in INT_RANGE and to in INT_RANGE:
                a, b = INT_RANGE[frm], INT_RANGE[to]
                if a[0] >= b[0] and a[1] <= b[1]:
                    x = x[4]
                    continue
                narrow.append(x)
                if allow_narrow:
                    x = x[4]
                    continue
                return False, 'lossy cast %s as %s' % (frm, to), narrow
            return False, 'cast %s: %s -> %s' % (kind, frm, to), narrow
        if x[0] == 'call' and isinstance(x[1], str) and x[1] in ('core::time::Duration::as_millis', 'core::time::Duration::as_nanos',
                                                                 'core::time::Duration::as_micros', 'core::time::Duration::as_secs',
                                                                 'core::time::Duration::subsec_millis', 'core::time::Duration::subsec_nanos',
                                                                 'core::time::Duration::as_secs_f64') and self_ty.endswith('Duration'):
            if allow_narrow:
                x = x[2][0]
                continue
        return False, 'value is computed: %s' % fmt(x)[:100], narrow


def rule_flow(ctx, rep, rid='R1'):
    cad = ctx.cad
    impls = value_impls(cad)
    rep.floor(rid, 'To*Value impls', len(impls), EXPECTED_IMPLS)
    for b in impls:
        rep.analysed(b)
        tr = b.impl_trait.rsplit('::', 1)[-1]
        sty = b.impl_self
        inst = '%s for %s' % (tr, sty.replace('alloc::vec::', '').replace('core::time::', ''))
        from .. import symb
        T = Terms(inl(cad, b))
        rts = set(leaf for r in ret_terms(T, [0]) for _, leaf in symb.split_cases(r))
        oks = [r for r in rts if r[0] == 'adt' and r[2] == 'Ok']
        errs = [r for r in rts if not (r[0] == 'adt' and r[2] == 'Ok')]
        if 'Duration' not in sty:
            # every value of these types is valid: the conversion must be total
            rep.ob(rid, inst + '/accepts-every-value', not errs, b.where(),
                   'conversion cannot fail' if not errs else
                   'the conversion rejects some %s values (%s): every value of this type must be rendered' % (sty, [fmt(e)[:80] for e in errs[:2]]))
        if not oks:
            rep.bad(rid, inst, b.where(), 'conversion never succeeds')
            continue
        rep.sites(len(oks))
        for r in oks:
            v = dict(r[3])['0']
            if not (v[0] == 'adt' and v[1] == MV):
                rep.unknown(rid, inst, b.where(), 'Ok payload is not a MetricValue aggregate: %s' % fmt(v)[:100])
                continue
            variant = v[2]
            pay = dict(v[3])['0']
            want = ty_class(sty)
            if CLASS[variant] != want:
                # an integer type whose whole range fits the other integer variant renders identically (u32 as Signed)
                src_ty = sty.replace('alloc::vec::Vec<', '').replace('>', '')
                tgt = {'i': INT_RANGE['i64'], 'u': INT_RANGE['u64']}.get(CLASS[variant])
                fits = src_ty in INT_RANGE and tgt is not None and INT_RANGE[src_ty][0] >= tgt[0] and INT_RANGE[src_ty][1] <= tgt[1]
                if not fits:
                    rep.bad(rid, inst, b.where(), '%s values are sent as MetricValue::%s: sign/float class changes (negative or large values are corrupted)' % (sty, variant))
                    continue
            is_vec = sty.startswith('alloc::vec::Vec<')
            if is_vec != variant.startswith('Packed'):
                rep.bad(rid, inst, b.where(), 'list/scalar mismatch: %s -> %s' % (sty, variant))
                continue
            dur = 'Duration' in sty
            if is_vec and dur:
                ok, why = _vec_duration_flow(cad, b, pay, tr)
                if not ok:
                    lp = _vec_loop(cad, T.body, T, UNIT.get(tr, '?'))
                    if lp is not None and lp[1]:
                        ok, why = True, ''
                rep.ob(rid, inst, ok, b.where(), 'each element converted in place, order and length kept' if ok else why)
                continue
            ok, why, narrow = lossless(pay, sty, allow_narrow=dur)
            if dur:
                acc = [y[1] for y in walk(pay) if y[0] == 'call' and isinstance(y[1], str) and y[1].startswith('core::time::Duration::')]
                ok = ok and len(acc) == 1
                if len(acc) != 1:
                    why = 'duration read through %s' % acc
            rep.ob(rid, inst, ok, b.where(), 'the argument reaches MetricValue::%s through value-preserving steps only' % variant if ok else
                   'value altered on the way into MetricValue::%s: %s' % (variant, why))


def _vec_duration_flow(cad, b, pay, tr):
    """payload = collect(map(iter(&self), closure))  with closure = |x| x.<accessor>() as u64"""
    x = pay
    if x[0] == 'field' and x[2] in ('0', 0) and x[1][0] == 'payload' and x[1][2] == 'Ok' and \
            term_callee_is(x[1][1], 'as core::iter::traits::iterator::Iterator>::collect'):
        x = x[1][1]         # collect::<Result<Vec<_>, _>>()?: Ok(vec of the Ok payloads, in order) iff no element failed
    if not term_callee_is(x, 'as core::iter::traits::iterator::Iterator>::collect'):
        return False, 'packed durations are not produced by iter().map().collect(): %s' % fmt(x)[:100]
    m = x[2][0]
    if not term_callee_is(m, '<core::slice::iter::Iter as core::iter::traits::iterator::Iterator>::map'):
        return False, 'elements pass through %s (only a plain forward map keeps order and length)' % fmt(m)[:100]
    it = m[2][0]
    if not (term_callee_is(it, 'core::slice::iter') and peel(it[2][0]) == ('param', 1)):
        return False, 'map runs over %s, not over the whole argument' % fmt(it)[:80]
    return True, ''


def _closure_body(cad, b, term):
    for y in walk(term):
        if y[0] == 'closure':
            return cad.bodies.get(y[1])
    return None


def rule_units_and_guard(ctx, rep, units=True):
    """R2 unit (as_millis for timers, as_nanos for histograms, same accessor in guard and conversion) and
    R3 exact narrowing guard: x > u64::MAX <=> rejected."""
    cad = ctx.cad
    n_casts = 0
    real = rep
    if not units:
        rep = _Filter(real, drop=('R2',))
    for b in value_impls(cad):
        sty = b.impl_self
        if 'Duration' not in sty:
            continue
        tr = b.impl_trait.rsplit('::', 1)[-1]
        inst = '%s for %s' % (tr, sty.replace('alloc::vec::', '').replace('core::time::', ''))
        unit = UNIT.get(tr)
        if unit is None:
            rep.unknown('R2', inst, b.where(), 'no unit is specified for Duration under %s' % tr)
            continue
        from .. import symb
        ib = inl(cad, b)
        T = Terms(ib)
        is_vec = sty.startswith('alloc::vec::Vec<')
        if not is_vec:
            conv = None      # (cast term, block)
            for r0 in ret_terms(T, [0]):
                for _, r in symb.split_cases(r0):
                    if r[0] == 'adt' and r[2] == 'Ok' and dict(r[3])['0'][0] == 'adt':
                        conv = dict(dict(r[3])['0'][3])['0']
            if conv is None:
                continue
            acc = [y for y in walk(conv) if y[0] == 'call' and isinstance(y[1], str) and y[1].startswith('core::time::Duration::')]
            oku = len(acc) == 1 and acc[0][1] == 'core::time::Duration::' + unit and peel(acc[0][2][0]) == ('param', 1)
            rep.ob('R2', inst, oku, b.where(), 'converted with %s()' % unit if oku else 'Duration is converted with %s, the unit for this kind is %s()' % ([a[1].rsplit('::', 1)[-1] for a in acc], unit))
            # the cast
            uf_ = unchecked_form([conv])
            if uf_ is not None:
                conv = uf_
            cc = checked_conv(conv)
            if cc is not None:
                n_casts += 1
                verdict, why = _checked_exact(ib, T, cc)
                rep.ob('R3', inst, verdict, b.where(), 'checked u128 -> u64 conversion: Err (does not fit) returns InvalidInput, Ok carries the value' if verdict else why)
                continue
            casts = [y for y in walk(conv) if y[0] == 'cast' and y[1] == 'IntToInt']
            n_casts += len(casts)
            if len(casts) != 1 or casts[0][2] != 'u128' or casts[0][3] != 'u64' or conv != casts[0]:
                rep.bad('R3', inst, b.where(), 'conversion is not a single `<128-bit count> as u64`: %s' % fmt(conv)[:100])
                continue
            x = casts[0][4]
            # the site of the narrowing cast (in the body or in an inlined private helper)
            okb = _block_of_cast(ib, 'u128', 'u64')
            verdict, why = _guard_exact(T, ib, okb, x)
            rep.ob('R3', inst, verdict, b.where(okb) if okb is not None else b.where(), 'guard `count > u64::MAX` exactly separates rejected from sent values; the rejected edge returns InvalidInput' if verdict else why)
        else:
            cls = cad.closures_of(b.path)
            anyc = mapc = None
            quant = 'any'
            b0 = b
            b = ib
            for bi, t in b.calls():
                if b.blocks[bi]['cleanup']:
                    continue
                ct = norm(T.call_term(bi))
                if term_callee_is(ct, 'as core::iter::traits::iterator::Iterator>::any'):
                    anyc = (bi, ct)
                    quant = 'any'
                if term_callee_is(ct, 'as core::iter::traits::iterator::Iterator>::all'):
                    anyc = (bi, ct)
                    quant = 'all'       # all(fits) is any(too big) with the truth flipped
                if term_callee_is(ct, 'as core::iter::traits::iterator::Iterator>::map'):
                    mapc = (bi, ct)
            if anyc is None and mapc is None:
                res = _vec_loop(cad, b, T, unit)
                if res is not None:
                    n_casts += 1
                    oku, okx, why = res
                    rep.ob('R2', inst, oku, b.where(), 'each element converted with %s()' % unit if oku else 'elements are not converted with %s(), the unit for this kind' % unit)
                    rep.ob('R3', inst, okx, b.where(), 'loop over the whole list: an element above u64::MAX returns InvalidInput, every other element is pushed once, in order' if okx else why)
                    continue
            if anyc is None and mapc is not None:
                res = _vec_checked(cad, b, T, mapc, unit)
                if res is not None:
                    n_casts += 1
                    oku, okx, why = res
                    rep.ob('R2', inst, oku, b.where(), 'each element converted with %s()' % unit if oku else 'elements are not converted with %s(), the unit for this kind' % unit)
                    rep.ob('R3', inst, okx, b.where(), 'every element goes through a checked u128 -> u64 conversion; the first failure is returned as InvalidInput, '
                           'otherwise all converted elements are sent' if okx else why)
                    continue
            if anyc is None or mapc is None:
                rep.unknown('R3', inst, b.where(), 'expected `self.iter().any(too big)` guarding `self.iter().map(convert)`')
                continue
            ab = _closure_body(cad, b, anyc[1][2][1])
            mb = _closure_body(cad, b, mapc[1][2][1])
            if ab is not None:
                ab = inl(cad, ab)
            if mb is not None:
                mb = inl(cad, mb)
            if ab is None or mb is None:
                rep.unknown('R3', inst, b.where(), 'closures of any()/map() not found')
                continue
            rep.analysed(ab)
            rep.analysed(mb)
            its = peel(anyc[1][2][0])
            ok_src = term_callee_is(its, 'core::slice::iter') and peel(its[2][0]) == ('param', 1)
            Ta, Tm = Terms(ab), Terms(mb)
            ra = ret_terms(Ta, [0])
            rm = ret_terms(Tm, [0])
            if len(rm) != 1:
                uf_ = unchecked_form(list(rm))
                if uf_ is not None:
                    rm = {uf_}
            elif unchecked_form(list(rm)) is not None:
                rm = {unchecked_form(list(rm))}
            if len(ra) != 1 or len(rm) != 1:
                rep.unknown('R3', inst, b.where(), 'closure shapes')
                continue
            g = list(ra)[0]
            c = list(rm)[0]
            n_casts += 1
            okc = c[0] == 'cast' and c[1] == 'IntToInt' and c[2] == 'u128' and c[3] == 'u64'
            x = c[4] if okc else None
            acc_m = [y for y in walk(c) if y[0] == 'call' and isinstance(y[1], str) and y[1].startswith('core::time::Duration::')]
            acc_g = [y for y in walk(g) if y[0] == 'call' and isinstance(y[1], str) and y[1].startswith('core::time::Duration::')]
            oku = len(acc_m) == 1 and len(acc_g) == 1 and acc_m[0][1] == acc_g[0][1] == 'core::time::Duration::' + unit and \
                peel(acc_m[0][2][0]) == ('param', 2) and peel(acc_g[0][2][0]) == ('param', 2)
            rep.ob('R2', inst, oku, b.where(), 'guard and conversion both use %s() of the element' % unit if oku else
                   'guard reads %s, conversion reads %s; the unit for this kind is %s()' % ([a[1].rsplit('::', 1)[-1] for a in acc_g], [a[1].rsplit('::', 1)[-1] for a in acc_m], unit))
            if not okc:
                rep.bad('R3', inst, mb.where(), 'element conversion is not `<128-bit count> as u64`: %s' % fmt(c)[:100])
                continue
            # guard closure returns (x > MAX) on the same accessor term
            verdict, why = _elem_guard_exact(ab, Ta, g, quant == 'any', x)
            # any() true edge -> Err(InvalidInput) ; false edge -> the map
            sw = [bi for bi, blk in enumerate(b.blocks) if blk['term']['k'] == 'switch' and not blk['cleanup']]
            wired = False
            for s in sw:
                dt, edges = T.switch_facts(s)
                if norm(dt) == anyc[1]:
                    te = [q for q, labs in edges.items() if ('bool', quant == 'any') in labs]
                    fe = [q for q, labs in edges.items() if ('bool', quant != 'any') in labs]
                    r_t = ret_terms(T, te)
                    r_f = ret_terms(T, fe)
                    wired = bool(r_t) and all(_is_invalid_input(r) for r in r_t) and bool(r_f) and all(r[0] == 'adt' and r[2] == 'Ok' for r in r_f) \
                        and mapc[0] in reach(b, fe) and mapc[0] not in reach(b, te)
            ok = verdict and wired and ok_src
            rep.ob('R3', inst, ok, b.where(), '%s over the whole list: a count above u64::MAX rejects with InvalidInput, otherwise every element is cast' % ('any(too big)' if quant == 'any' else 'all(fits)') if ok else
                   (why if not verdict else 'any()/map() are not wired as reject-else-convert over the whole list (only part of the list is checked?)'))
    rep.floor('R3', 'narrowing u128->u64 conversions', n_casts, 4)


def _vec_checked(cad, b, T, mapc, unit):
    """`self.iter().map(|x| checked(x.unit())).collect::<Result<Vec<u64>, _>>()` : (unit ok, exact ok, why) or None if
    the body is not of that shape."""
    coll = None
    for bi, t in b.calls():
        if b.blocks[bi]['cleanup'] or b.blocks[bi].get('dead'):
            continue
        ct = norm(T.call_term(bi))
        if term_callee_is(ct, 'as core::iter::traits::iterator::Iterator>::collect') and ct[2][0] == mapc[1]:
            coll = (bi, ct)
    if coll is None:
        return None
    dty = b.blocks[coll[0]]['term'].get('dest_ty', '').replace(' ', '')
    if not dty.startswith('core::result::Result<alloc::vec::Vec<u64>,'):
        return None
    its = peel(mapc[1][2][0])
    if not (term_callee_is(its, 'core::slice::iter') and peel(its[2][0]) == ('param', 1)):
        return True, False, 'the conversion does not run over the whole argument list'
    mb = _closure_body(cad, b, mapc[1][2][1])
    if mb is None:
        return None
    mb = inl(cad, mb)
    Tm = Terms(mb)
    rts = ret_terms(Tm, [0])
    oks = [r for r in rts if r[0] == 'adt' and r[2] == 'Ok']
    if len(oks) != 1:
        return True, False, 'element conversion has %d success shapes' % len(oks)
    conv = dict(oks[0][3])['0']
    cc = checked_conv(conv)
    if cc is None:
        return True, False, 'element conversion is not a checked integer conversion: %s' % fmt(conv)[:100]
    acc = [y for y in walk(conv) if y[0] == 'call' and isinstance(y[1], str) and y[1].startswith('core::time::Duration::')]
    oku = len(acc) == 1 and acc[0][1] == 'core::time::Duration::' + unit and peel(acc[0][2][0]) == ('param', 2) and cc[1] == acc[0]
    okx, why = _checked_exact(mb, Tm, cc)
    if okx:
        # the collected result: Ok -> Ok(Packed(payload)), Err -> the element's error unchanged
        rc = result_cases(T, coll[0])
        okx = not rc['?'] and bool(rc['ok']) and bool(rc['err']) and all(r[0] == 'adt' and r[2] == 'Ok' for r in rc['ok']) and \
            all(r[0] == 'adt' and r[2] == 'Err' and deep_peel(dict(r[3])['0']) == field_of(('payload', coll[1], 'Err'), '0', 0) for r in rc['err'])
        why = 'the collected Result is not passed on as Ok(values) / Err(the element error)'
    return oku, okx, why


def _vec_loop(cad, ib, T, unit):
    """`for d in list { let x = d.unit(); if x > u64::MAX { return Err(InvalidInput) } out.push(x as u64) } Ok(Packed(out))`
    -> None if the body is not of that shape, else (unit ok, exact/complete ok, why)."""
    from .fmtout import iter_source
    live = lambda bi: not ib.blocks[bi]['cleanup'] and not ib.blocks[bi].get('dead')
    nx = [bi for bi, t in ib.calls() if live(bi) and callee_is(t, 'as core::iter::traits::iterator::Iterator>::next')]
    pushes = [bi for bi, t in ib.calls() if live(bi) and callee_is(t, 'alloc::vec::Vec::push')]
    if len(nx) != 1 or len(pushes) != 1:
        return None
    nct = norm(T.call_term(nx[0]))
    src, enum = iter_source(nct[2][0])
    whole = strip_views(src) == ('param', 1) and not enum
    item = field_of(('payload', nct, 'Some'), '0', 0)
    pct = norm(T.call_term(pushes[0]))
    val = pct[2][1]
    if not (val[0] == 'cast' and val[1] == 'IntToInt' and val[2] == 'u128' and val[3] == 'u64'):
        return True, False, 'pushed element is not `<128-bit count> as u64`: %s' % fmt(val)[:80]
    x = val[4]
    acc = [y for y in walk(x) if y[0] == 'call' and isinstance(y[1], str) and y[1].startswith('core::time::Duration::')]
    oku = len(acc) == 1 and x == acc[0] and acc[0][1] == 'core::time::Duration::' + unit and deep_peel(strip_views(acc[0][2][0])) == deep_peel(item)
    verdict, why = _guard_exact(T, ib, pushes[0], x)
    if not verdict:
        return oku, False, why
    if not whole:
        return oku, False, 'the loop does not run over the whole argument list'
    oe = outcome_edges(T, nx[0])
    some_t = [s for (bb, s), v in oe.items() if v == 'ok']
    none_t = [s for (bb, s), v in oe.items() if v == 'err']
    if not some_t or not none_t:
        return oku, False, 'result of next() not examined'
    from .. import cfg as C_
    every = all(C_.must_pass(ib, s, {nx[0]}, {pushes[0]}) for s in some_t)
    twice = pushes[0] in reach(ib, ib.succs(pushes[0], False), stop=lambda q: q == nx[0])
    if not every or twice:
        return oku, False, 'an element can be skipped or pushed twice'
    rts = ret_terms(T, none_t)
    okr = bool(rts)
    for r in rts:
        if not (r[0] == 'adt' and r[2] == 'Ok' and dict(r[3])['0'][0] == 'adt' and dict(r[3])['0'][1] == MV):
            okr = False
            continue
        v = dict(dict(r[3])['0'][3])['0']
        root = v
        while root[0] in ('mutated', 'ref', 'deref'):
            root = root[1]
        recv = pct[2][0]
        while recv[0] in ('mutated', 'ref', 'deref'):
            recv = recv[1]
        if not (term_callee_is(root, 'alloc::vec::Vec::with_capacity', 'alloc::vec::Vec::new') and recv == root):
            okr = False
    if not okr:
        return oku, False, 'after the loop the collected vector is not what is returned'
    return oku, True, ''


def _block_of_cast(b, frm, to):
    for bi, blk in enumerate(b.blocks):
        if blk['cleanup']:
            continue
        for s in blk['stmts']:
            if s['k'] == 'assign' and s['rv']['k'] == 'cast' and s['rv']['ck'] == 'IntToInt' and s['rv']['from'] == frm and s['rv']['to'] == to:
                return bi
    return None


def _block_of_variant(b, variant):
    for bi, blk in enumerate(b.blocks):
        for s in blk['stmts']:
            if s['k'] == 'assign' and s['rv']['k'] == 'agg' and s['rv'].get('variant') == variant and s['rv'].get('path') == MV:
                return bi
    return None


def _is_invalid_input(r):
    return r[0] == 'adt' and r[2] == 'Err' and any(y[0] == 'adt' and y[2] == 'InvalidInput' for y in walk(r))


def _cmp_exact(g, truth_rejects, x):
    """comparison g (true => reject when truth_rejects) must be equivalent to x > u64::MAX on the same term x."""
    def atom(t):
        t = norm(t)
        if t == x:
            return 'X'
        return None

    def constify(t):
        # (u64::MAX as u128) -> const
        if t[0] == 'cast' and t[4][0] == 'const':
            return ('const', t[3], t[4][2], None)
        if t[0] == 'call' and isinstance(t[1], str) and len(t[2]) == 1 and t[2][0][0] == 'const':
            m = _re.match(r'^<(\w+) as core::convert::From>::from$', t[1])
            if m and m.group(1) in INT_RANGE and t[2][0][1] in INT_RANGE:
                return ('const', m.group(1), t[2][0][2], None)      # lossless widening of a constant
        return t
    if g[0] != 'bin':
        return False, 'guard is not a comparison: %s' % fmt(g)[:100]
    g2 = ('bin', g[1], constify(g[2]), constify(g[3]))
    try:
        lin = L.guard_ge0(g2, truth_rejects, atom)
    except L.Unknown as e:
        return False, 'the guard does not compare the very value that is cast (%s): guard %s, cast operand %s' % (e, fmt(g)[:80], fmt(x)[:60])
    want = L.Lin({'X': 1}, -(U64MAX + 1))      # X - (MAX+1) >= 0  <=>  X > MAX
    try:
        if L.equivalent(lin, want):
            return True, ''
        if L.entails(want, lin):
            return False, 'the guard also rejects values that fit into 64 bits (over-rejection): %r' % lin
        return False, 'the guard lets values above u64::MAX through to the truncating cast: %r' % lin
    except L.Unknown as e:
        return False, str(e)


def _elem_guard_exact(ab, Ta, g, truth_rejects, x):
    """per-element predicate g of any()/all(): a comparison equivalent to x > u64::MAX (x <= u64::MAX), or the outcome
    test of a checked conversion `u64::try_from(x).is_err()` (`.is_ok()`) of the same x (std: Err iff x does not fit)."""
    neg = False
    while g[0] == 'un' and g[1] == 'Not':
        g, neg = g[2], not neg
    if g[0] == 'call' and isinstance(g[1], str) and g[1] in ('core::result::Result::is_ok', 'core::result::Result::is_err') and len(g[2]) == 1:
        c = peel(g[2][0])
        m = _TRYFROM.match(c[1]) if c[0] == 'call' and isinstance(c[1], str) else None
        if not m or len(c[2]) != 1:
            return False, 'the element test is not the outcome of a checked integer conversion: %s' % fmt(g)[:100]
        bi = _call_block(ab, Ta, c)
        src = _tryfrom_src(ab, bi) if bi is not None else None
        if m.group(1) != 'u64' or src != 'u128':
            return False, 'checked conversion is %s -> %s, expected u128 -> u64' % (src, m.group(1))
        if norm(c[2][0]) != norm(x):
            return False, 'the element test converts %s but the value sent is %s' % (fmt(c[2][0])[:60], fmt(x)[:60])
        says_too_big = (g[1].endswith('is_err')) != neg
        if says_too_big != truth_rejects:
            return False, 'the element test has the wrong polarity (values that fit are rejected, too large ones are cast)'
        return True, ''
    return _cmp_exact(g, truth_rejects != neg, x)


def _guard_exact(T, b, okb, x):
    if okb is None:
        return False, 'construction of the value not found'
    gs = guards_of(T, okb) or []
    for dt, labels, sbi in gs:
        d = norm(dt)
        for lab in labels:
            if lab[0] != 'bool':
                continue
            # on the edge towards the cast the guard has truth lab[1]; reject truth is the opposite
            verdict, why = _cmp_exact(d, not lab[1], x)
            if verdict:
                # rejected edge returns InvalidInput
                dt2, edges = T.switch_facts(sbi)
                rej = [q for q, labs in edges.items() if ('bool', not lab[1]) in labs]
                from .. import symb
                r = set(leaf for y in ret_terms(T, rej) for _, leaf in symb.split_cases(y))
                if r and all(_is_invalid_input(y) for y in r):
                    return True, ''
                return False, 'the rejected edge does not return an InvalidInput error'
            last = why
    return False, (last if gs else 'the truncating cast is not guarded at all')


class _Filter:
    """Report proxy that drops obligations of some rules (used when another property borrows part of a rule set)."""

    def __init__(self, rep, drop):
        self._r = rep
        self._drop = drop

    def ob(self, rule, *a, **k):
        if rule in self._drop:
            return True
        return self._r.ob(rule, *a, **k)

    def bad(self, rule, *a, **k):
        if rule in self._drop:
            return False
        return self._r.bad(rule, *a, **k)

    def unknown(self, rule, *a, **k):
        if rule in self._drop:
            return False
        return self._r.unknown(rule, *a, **k)

    def __getattr__(self, n):
        return getattr(self._r, n)
