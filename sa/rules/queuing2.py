"""Queuing sink, second half: handle drop / stop protocol (C08-R5, C09), sentinel (C11), handler plumbing (C16)."""
from .. import cfg as C
from ..terms import Terms, norm, fmt, walk, field_of
from .common import *
from .qmodel import *
from .qmodel import _path_has_field
from .queuing import LoopModel, _field_value, rule_builder_frame


def drop_impl(cad, adt):
    for i in cad.impls_of(DROP_TRAIT):
        if i.get('self_adt') == adt:
            for it in i['items']:
                return cad.bodies.get(it['path'])
    return None


def has_clone(cad, adt):
    return any(i.get('self_adt') == adt for i in cad.impls_of(CLONE_TRAIT))


def by_value_adts(cad, adt, seen=None):
    """Local ADTs contained by value (not behind Arc/Rc/Box/&) in `adt`, transitively, including itself."""
    seen = seen if seen is not None else []
    if adt in seen:
        return seen
    seen.append(adt)
    for f in adt_fields(cad, adt) or []:
        ty = f['ty']
        if ty in cad.adts:
            by_value_adts(cad, ty, seen)
        else:
            head = ty.split('<', 1)[0]
            if head in cad.adts and head != adt:
                by_value_adts(cad, head, seen)
    return seen


def arc_held_adts(cad, adt):
    out = []
    for f in adt_fields(cad, adt) or []:
        inner = arc_inner(f['ty'])
        if inner and inner in cad.adts:
            out.append((f['name'], inner))
    return out


def calls_stop(cad, b, stop_path):
    """(must, may): does every / some path of body b (with local callees inlined) call the stop method?"""
    ib = inl(cad, b, never=lambda x: x.path == stop_path)
    sb = [bi for bi, t in ib.calls() if t.get('resolved') == stop_path and not ib.blocks[bi]['cleanup']]
    if not sb:
        return False, False, ib, sb
    cnt = count_events(ib, lambda x: x in sb)
    return 0 not in cnt, True, ib, sb


# ------------------------------------------------------------------ C08-R5 / R5b
def rule_handle_drop(m, rep, rid='R5'):
    cad = m.cad
    stop = m.stop.path
    # every ADT whose Drop must-reach stop
    stoppers = []
    for i in cad.impls_of(DROP_TRAIT):
        adt = i.get('self_adt')
        b = drop_impl(cad, adt)
        if b is None:
            continue
        must, may, ib, sb = calls_stop(cad, b, stop)
        if may:
            stoppers.append((adt, b, must))
            rep.analysed(b)
    rep.floor(rid, 'Drop impls that stop the worker', len(stoppers), 1)
    # handle types: Clone ADTs sharing Arc<worker>
    handles = [a for a in cad.adts if has_clone(cad, a) and any(inner == m.worker for _, inner in arc_held_adts(cad, a))]
    if Q not in handles:
        rep.note('QueuingMetricSink is not Clone any more')
        handles.append(Q)
    for h in sorted(set(handles)):
        name = h.rsplit('::', 1)[-1]
        rep.sites()
        offenders = []
        conditional = []
        for adt in by_value_adts(cad, h):
            for sadt, b, must in stoppers:
                if sadt == adt:
                    if has_clone(cad, h):
                        (offenders if must else conditional).append((adt, b))
        if offenders:
            for adt, b in offenders:
                rep.bad(rid, name, b.where(),
                        'dropping ANY clone of %s runs %s, which stops the worker all clones share: metrics accepted '
                        'afterwards on a surviving handle are never delivered' % (name, b.short()))
        else:
            msg = 'no by-value part of the cloneable handle stops the worker on drop'
            if conditional:
                msg += ' (conditional stop in %s - guard not analysed)' % [b.short() for _, b in conditional]
            rep.good(rid, name, '', msg)
    # R5b: stop is called from drop glue only, and the guard is owned by the handle behind an Arc, created once in build
    callers = [(b, bi) for b in cad.all_bodies for bi, t in b.calls() if t.get('resolved') == stop]
    bad = [(b, bi) for b, bi in callers if b.impl_trait != DROP_TRAIT]
    rep.ob('R5b', 'stop-called-from-drop-only', not bad and bool(callers), bad[0][0].where(bad[0][1]) if bad else '',
           'the stop method is called from Drop impls only' if not bad else
           'stop() is called from %s (not a destructor of the last handle)' % [b.short() for b, _ in bad])
    for sadt, b, must in stoppers:
        sname = sadt.rsplit('::', 1)[-1]
        if sadt == Q or sadt in by_value_adts(cad, Q):
            continue
        held = [fn for fn, inner in arc_held_adts(cad, Q) if inner == sadt]
        okh = len(held) == 1
        rep.ob('R5b', '%s/held-by-handle-behind-arc' % sname, okh, b.where(),
               'the handle owns the stop guard through one Arc field' if okh else 'the stop guard %s is not an Arc field of the handle' % sname)
        if not okh:
            continue
        rep.ob('R5b', '%s/not-clone' % sname, not has_clone(cad, sadt), b.where(), 'the guard itself cannot be cloned')
        others = [a for a in cad.adts if a != Q and any(sadt in f['ty'] for f in adt_fields(cad, a) or [])]
        rep.ob('R5b', '%s/no-other-owner' % sname, not others, '', 'no other type stores the guard' if not others else 'also stored in %s' % others)
        # build: one Arc::new(guard) moved into the returned handle
        T = Terms(m.build)
        rts = ret_terms(T, [0])
        okb = False
        if len(rts) == 1 and list(rts)[0][0] == 'adt':
            g = dict(list(rts)[0][3]).get(held[0])
            okb = g is not None and term_callee_is(g, 'alloc::sync::Arc::new') and g[2][0][0] == 'adt' and g[2][0][1] == sadt
            if okb:
                wv = [v for n, v in g[2][0][3]]
                wk = dict(list(rts)[0][3]).get(m.f_worker)
                okb = any(_same_arc(v, wk) for v in wv)
        made = [bi for bi, blk in enumerate(m.build.blocks) for s in blk['stmts']
                if s['k'] == 'assign' and s['rv']['k'] == 'agg' and s['rv'].get('path') == sadt]
        rep.ob('R5b', '%s/build-creates-one-guard-for-the-handle' % sname, okb and len(made) == 1, m.build.where(),
               'build() creates one guard over the same worker and moves it into the handle' if okb and len(made) == 1 else
               'build() does not hand exactly one guard over the handle\'s own worker to the returned handle')


def _same_arc(a, b):
    def root(t):
        t = norm(t)
        while True:
            if t[0] in ('ref', 'unsize'):
                t = t[1]
            elif t[0] == 'call' and t[1] == '<alloc::sync::Arc as core::clone::Clone>::clone':
                t = t[2][0]
            else:
                return t
    return a is not None and b is not None and root(a) == root(b)


def rule_last_drop_stops(m, rep, rid='R0'):
    """The stop request is issued unconditionally when the last handle goes: the Drop that reaches the stop method does so
    on every path (no `if !thread::panicking()`, no early return), and it belongs to the handle / its shared guard."""
    cad = m.cad
    stop = m.stop.path
    found = 0
    for i in cad.impls_of(DROP_TRAIT):
        adt = i.get('self_adt')
        b = drop_impl(cad, adt)
        if b is None:
            continue
        must, may, ib, sb = calls_stop(cad, b, stop)
        if not may:
            continue
        found += 1
        owned = adt == Q or adt in by_value_adts(cad, Q) or any(inner == adt for _, inner in arc_held_adts(cad, Q))
        rep.ob(rid, '%s/drop-always-requests-stop' % adt.rsplit('::', 1)[-1], must and owned, b.where(),
               'dropping the last handle always calls the worker\'s stop method' if must and owned else
               ('%s::drop calls stop() only on some paths: the last drop may leave the worker running forever (wrapped sink never dropped/flushed)' % adt.rsplit('::', 1)[-1]
                if owned else '%s is not owned by the handle' % adt))
    rep.floor(rid, 'destructors that request the stop', found, 1)


# ------------------------------------------------------------------ C09-R1..R3 stop protocol
def rule_stop(m, rep):
    cad = m.cad
    b = inl(cad, m.stop)
    T = Terms(b)
    sends = m.sends(b, T)
    rep.sites(len(sends))
    pills = [(bi, kind) for bi, kind, pay in sends if pay[0] == 'adt' and pay[2] == m.v_marker]
    blocking = [(bi, kind) for bi, kind in pills if kind != 'try_send']
    rep.ob('R1', 'stop/never-blocks', not blocking, b.where(blocking[0][0]) if blocking else b.where(),
           'the stop marker is sent with try_send' if not blocking else 'stop() uses blocking `%s`: dropping a handle can block' % blocking[0][1])
    other_block = [bi for bi, t in b.calls() if callee_is(t, *BLOCKING)]
    rep.ob('R1', 'stop/no-blocking-call', not other_block, b.where(other_block[0]) if other_block else b.where(), 'no blocking primitive in stop()')
    pb = [bi for bi, _ in pills]
    cnt = count_events(b, lambda x: x in pb)
    ok = 0 not in cnt and bool(pb)
    rep.ob('R1', 'stop/always-attempts-marker', ok, b.where(),
           'every path through stop() tries to queue the stop marker (only a queued marker wakes a worker blocked on an '
           'empty queue)' if ok else 'a path through stop() never tries to queue the marker: an idle worker blocked in recv() is never woken')
    if not pb:
        return None
    # the first pill: dominates all other pills
    dom = C.dominators(b)
    first = [p for p in pb if all(p in dom.get(q, ()) for q in pb)]
    if not first:
        rep.unknown('R1', 'stop/first-marker', b.where(), 'no marker attempt dominates the others')
        return None
    first = first[0]
    flags = []
    for bi, t in b.calls():
        if b.blocks[bi]['cleanup']:
            continue
        if callee_is(t, 'core::sync::atomic::Atomic::store', 'core::sync::atomic::Atomic::swap', 'core::sync::atomic::Atomic::fetch_or'):
            ct = norm(T.call_term(bi))
            if ct[2][1] == ('const', 'bool', True, None):
                flags.append((bi, self_field_name(ct[2][0])))
    unbounded_only = False
    paths = outcome_paths(T, first, {'flag': set(f[0] for f in flags), 'pill': set(pb) - {first}})
    bad = []
    for k, fact, counts in paths:
        c = dict(counts)
        if fact in ('err', '?') and c['flag'] == 0:
            bad.append('try_send-Err-unhandled' if fact == 'err' else 'try_send-result-ignored')
    flagname = None
    if flags:
        names = set(f[1] for f in flags)
        flagname = list(names)[0] if len(names) == 1 else None
    if bad:
        rep.bad('R1', 'Worker::stop/' + sorted(set(bad))[0], b.where(first),
                'when the bounded queue is full the stop marker is lost and nothing else records the request: the worker '
                'never leaves its loop, the wrapped sink is never dropped/flushed')
    else:
        rep.good('R1', 'Worker::stop/marker-or-flag', b.where(first),
                 'if the marker cannot be queued a sticky flag `%s` records the stop request' % flagname)
    if flagname is not None:
        # the flag and the queue form a store-then-look / take-then-look pair (stop: set the flag, then find the queue still full;
        # worker: take an entry, then read the flag): only sequentially consistent accesses exclude that both sides miss each other
        weak = []
        for bi, fn_ in flags:
            o_ = norm(T.call_term(bi))[2][2]
            if not (o_[0] == 'adt' and o_[2] == 'SeqCst'):
                weak.append((bi, fmt(o_)))
        rep.ob('R1', 'stop/flag-store-is-seqcst', not weak, b.where(weak[0][0]) if weak else b.where(flags[0][0]),
               'the sticky flag is set with Ordering::SeqCst' if not weak else
               'the sticky flag is set with %s: the worker may take the last entry and still read the flag as unset, then block forever' % weak[0][1])
        # ... and nobody has asked for a stop before the worker starts
        from .queuing import _nested_get
        news = role_names(cad).constructors(m.worker)
        init_ok = False
        for nb_ in news:
            rts = ret_terms(Terms(inl(cad, nb_)), [0])
            if len(rts) == 1 and list(rts)[0][0] == 'adt':
                v_ = _nested_get(list(rts)[0], flagname)
                if v_ is not None:
                    v_ = norm(v_)
                    # the flag may sit in a private struct (`shutdown: ShutdownState { requested, stopped }`, a `StopRequest` with a
                    # derived Default): every boolean atomic in its initial value starts as false
                    inits = []
                    for y in walk(v_):
                        if term_callee_is(y, 'core::sync::atomic::Atomic::new') and len(y[2]) == 1 and y[2][0][0] == 'const' and y[2][0][1] == 'bool':
                            inits.append(y[2][0][2] is False)
                        elif y[0] == 'call' and isinstance(y[1], str) and y[1].endswith('as core::default::Default>::default') and 'atomic::Atomic' in y[1] and not y[2]:
                            inits.append(True)      # AtomicBool::default() is false
                    init_ok = bool(inits) and all(inits)
        rep.ob('R1', 'stop/flag-starts-false', init_ok, news[0].where() if news else b.where(),
               'a new worker starts with the stop flag unset' if init_ok else
               'a new worker does not start with `%s` = false: it leaves its loop the first time it finds the queue empty' % flagname)
    return flagname


def rule_run_exit(m, rep, flagname, only=None):
    """R1b flag read before blocking, R2 termination after the loop, R3 drain before stop."""
    if only is not None:
        from .values import _Filter
        rep = _Filter(rep, drop=tuple(r for r in ('R1b', 'R2', 'R3') if r not in only))
    lm = LoopModel(m, rep, 'R2' if only is None else only[0])
    if not lm.ok:
        return
    body, T = lm.body, lm.T
    dom = C.dominators(body)
    # blocks after the loop
    after = reach(body, [s for q in lm.loop for s in body.succs(q, False) if s not in lm.loop])
    be = [e for e in C.back_edges(body) if e[0] in after and e[1] in after]
    blk = [bi for bi in after if body.blocks[bi]['term']['k'] == 'call' and callee_is(body.blocks[bi]['term'], *BLOCKING)]
    tk = [x for x in after if x == lm.t or x == lm.d]
    ok = not be and not blk and not tk
    rep.ob('R2', 'run/returns-after-loop', ok, body.where(),
           'after leaving the loop run() returns without blocking or looping again' if ok else
           'after the loop run() blocks/loops again (%s)' % (be or blk or tk))
    # marker edge leaves the loop: from the None edge of the dequeued Option, no path back to the dequeue
    none_targets = []
    for bi, blk_ in enumerate(body.blocks):
        if blk_['term']['k'] != 'switch' or bi not in lm.loop:
            continue
        sf = T.switch_facts(bi)
        dt, edges = sf
        x = norm(dt)
        if x[0] != 'discr':
            continue
        y = x[1]
        from .queuing import proj_root
        inner = proj_root(y)
        if inner == lm.dterm and y != lm.dterm:
            for s, labs in edges.items():
                if ('variant', m.v_marker) in labs:
                    none_targets.append(s)
    okm = bool(none_targets)
    for s in none_targets:
        paths_back = lm.d in reach(body, [s], stop=None) and _reaches_without_exit(body, s, lm.d, lm.loop)
        if paths_back:
            okm = False
    rep.ob('R2', 'run/marker-ends-loop', okm, body.where(lm.d),
           'the stop marker (None) leaves the loop' if okm else 'dequeuing the stop marker does not end the loop')
    if flagname is None:
        rep.note('stop() uses no flag: R1b/R3(flag) not applicable')
        return
    loads = []
    for bi, t in body.calls():
        if body.blocks[bi]['cleanup'] or bi not in lm.loop:
            continue
        if callee_is(t, 'core::sync::atomic::Atomic::load'):
            ct = norm(T.call_term(bi))
            if self_field_name(ct[2][0]) == flagname:
                loads.append((bi, ct))
    if not loads:
        rep.bad('R1b', 'run/reads-stop-flag', body.where(lm.d), 'run() never reads the stop flag `%s` inside its loop' % flagname)
        return
    weakl = [(l, fmt(ct_[2][1])) for l, ct_ in loads if not (ct_[2][1][0] == 'adt' and ct_[2][1][2] == 'SeqCst')]
    rep.ob('R1b', 'run/flag-load-is-seqcst', not weakl, body.where(weakl[0][0]) if weakl else body.where(loads[0][0]),
           'the worker reads the stop flag with Ordering::SeqCst' if not weakl else
           'the worker reads the stop flag with %s: after taking the last entry it may still see the flag unset and block forever' % weakl[0][1])
    if lm.dkind == 'blocking':
        okd = any(l in dom.get(lm.d, ()) for l, _ in loads)
        if not okd:
            # the test may sit in front of the loop and at the end of each iteration (`if !finished() { for m in rx.iter() { ..;
            # if finished() { break } } }`): what matters is that no path reaches the blocking receive - from the entry, or from
            # the previous receive - without a test of the flag
            lb = set(l for l, _ in loads)
            for bi, t in body.calls():
                if not body.blocks[bi]['cleanup'] and bi not in lm.loop and callee_is(t, 'core::sync::atomic::Atomic::load'):
                    if self_field_name(norm(T.call_term(bi))[2][0]) == flagname:
                        lb.add(bi)
            okd = C.must_pass(body, 0, {lm.d}, lb) and all(C.must_pass(body, s, {lm.d}, lb) for s in body.succs(lm.d, False))
            if okd:
                # ... and a test in front of the loop must not let the flag alone end the worker: from its "flag set" edge every
                # way out of run() that does not go through the receive passes the `receiver.is_empty()` == true edge (a
                # worker respawned after a panic starts here with the flag already set and metrics still queued)
                empt = set()
                for sw in range(len(body.blocks)):
                    if body.blocks[sw]['term']['k'] != 'switch' or body.blocks[sw]['cleanup']:
                        continue
                    dt_, edges_ = T.switch_facts(sw)
                    g_ = norm(dt_)
                    if term_callee_is(g_, 'crossbeam_channel::channel::Receiver::is_empty') and _path_has_field(g_[2][0], m.f_receiver):
                        empt |= set(s_ for s_, labs_ in edges_.items() if ('bool', True) in labs_ and ('bool', False) not in labs_)
                exits_ = set(C.exits(body, False))
                for l_ in lb:
                    lct_ = norm(T.call_term(l_))
                    for sw in range(len(body.blocks)):
                        if body.blocks[sw]['term']['k'] != 'switch' or body.blocks[sw]['cleanup']:
                            continue
                        dt_, edges_ = T.switch_facts(sw)
                        if norm(dt_) != lct_:
                            continue
                        for s_, labs_ in edges_.items():
                            if ('bool', True) in labs_ and not C.must_pass(body, s_, exits_, empt | {lm.d}):
                                okd = False
        rep.ob('R1b', 'run/flag-checked-before-blocking', okd, body.where(lm.d),
               'in every iteration the stop flag is tested before the blocking receive' if okd else
               'the blocking receive is not preceded by a test of the stop flag in the same iteration: a worker respawned '
               'after a panic on the last queued metric blocks forever')
    # flag exit must be guarded by is_empty(receiver) and leave the loop
    exits_ok = False
    guard_ok = False
    for l, lct in loads:
        for sw in range(len(body.blocks)):
            if body.blocks[sw]['term']['k'] != 'switch':
                continue
            dt, edges = T.switch_facts(sw)
            if norm(dt) != lct:
                continue
            for s, labs in edges.items():
                if ('bool', True) not in labs:
                    continue
                # region entered when flag is true: loop exit edges reachable before the dequeue
                region = reach(body, [s], stop=lambda q: q == lm.d)
                outs = [(q, x) for q in region if q in lm.loop for x in body.succs(q, False) if x not in lm.loop]
                if outs:
                    exits_ok = True
                g_all = True
                for q, x in outs:
                    gs = guards_of(T, x, entry=s) if x != s else []
                    has_empty = False
                    for gdt, labels, gbi in gs or []:
                        g = norm(gdt)
                        if term_callee_is(g, 'crossbeam_channel::channel::Receiver::is_empty') and \
                                _path_has_field(g[2][0], m.f_receiver) and ('bool', True) in labels:
                            has_empty = True
                    if not has_empty:
                        g_all = False
                if outs and g_all:
                    guard_ok = True
    rep.ob('R1b', 'run/flag-can-end-loop', exits_ok, body.where(loads[0][0]),
           'a set stop flag leads to a loop exit' if exits_ok else 'the stop flag is read but never ends the loop')
    rep.ob('R3', 'run/flag-exit-only-when-drained', guard_ok, body.where(loads[0][0]),
           'the flag ends the loop only when receiver.is_empty(): accepted metrics are drained first' if guard_ok else
           'the stop flag can end the loop while metrics are still queued (not guarded by receiver.is_empty())')


def _reaches_without_exit(body, start, target, loop):
    seen = set()
    st = [start]
    while st:
        b = st.pop()
        if b in seen:
            continue
        seen.add(b)
        if b == target:
            return True
        if b not in loop:
            continue
        for s in body.succs(b, False):
            st.append(s)
    return False


def rule_same_sender(m, rep, rid='R3'):
    """The marker travels on the same channel as the metrics (FIFO puts it behind everything accepted earlier)."""
    bs_, bp_ = inl(m.cad, m.stop), inl(m.cad, m.submit)
    Ts, Tp = Terms(bs_), Terms(bp_)
    s1 = m.sends(bs_, Ts)
    s2 = m.sends(bp_, Tp)
    ok = bool(s1) and bool(s2)
    rep.ob(rid, 'marker-shares-the-metric-channel', ok, m.stop.where(),
           'stop() and submit() send on the same `%s` field' % m.f_sender if ok else 'stop marker and metrics use different channels')


# ------------------------------------------------------------------ C09-R4 / R5
def rule_release(m, rep, rid='R4'):
    cad = m.cad
    # no cycle: worker does not own handles / guards / Arc<worker>
    bad = []
    for f in m.wfields:
        import re as _re
        holders = [m.worker, Q] + [a for a in cad.adts if any(inner == m.worker for _, inner in arc_held_adts(cad, a))]
        if any(_re.search(_re.escape(h) + r'(?![A-Za-z0-9_])', f['ty']) for h in holders):
            bad.append(f['name'])
    rep.ob(rid, 'worker-owns-no-handle', not bad, '', 'the worker holds no Arc to itself/handle/guard (no ownership cycle)' if not bad else 'cycle through worker fields %s' % bad)
    leaks = []
    nb = 0
    for b in cad.all_bodies:
        if not in_module_of(b, Q):
            continue
        nb += 1
        for bi, t in b.calls():
            if callee_is(t, 'core::mem::forget', 'alloc::sync::Arc::into_raw', 'alloc::boxed::Box::leak', 'alloc::boxed::Box::into_raw',
                         'core::mem::manually_drop::ManuallyDrop::new', 'alloc::sync::Arc::increment_strong_count',
                         'alloc::sync::Arc::from_raw'):
                leaks.append((b, bi))
    rep.ob(rid, 'no-leak-primitives', not leaks, leaks[0][0].where(leaks[0][1]) if leaks else '',
           'no forget/into_raw/leak/ManuallyDrop in the module' if not leaks else 'ownership is bypassed (forget/into_raw/leak)')
    # (a plain flag or counter in a static / thread_local owns nothing: only types that can hold a sink, a worker or a boxed
    # function count)
    statics = [c for c in cad.consts.values() if 'Static' in c['kind'] and 'queuing' in c['path'] and
               any(k_ in c.get('ty', '') for k_ in ('Arc<', 'Box<', 'dyn ', 'Vec<', 'Option<', 'Mutex<', 'RefCell<', m.worker, Q, 'Sender', 'Receiver'))
               and not c.get('ty', '').replace(' ', '').endswith(('Cell<bool>', 'Cell<usize>', 'Cell<u64>'))]
    rep.ob(rid, 'no-static-owner', not statics, '', 'no static in the module can own a sink')
    # build: Arc::new(sink) ends up only in the handle and in the task closure
    T = Terms(m.build)
    arcs = [bi for bi, t in m.build.calls() if callee_is(t, 'alloc::sync::Arc::new') and not m.build.blocks[bi]['cleanup']
            and norm(T.call_term(bi))[2][0] == ('param', 2)]
    ok = len(arcs) == 1
    rep.ob(rid, 'one-arc-of-wrapped-sink', ok, m.build.where(), 'build() wraps the sink in exactly one Arc')
    if ok:
        arc = norm(T.call_term(arcs[0]))
        uses = []
        for bi, t in m.build.calls():
            if m.build.blocks[bi]['cleanup'] or bi == arcs[0]:
                continue
            ct = norm(T.call_term(bi))
            if ct[0] != 'call' or len(ct) < 3:
                continue
            for ai, a in enumerate(ct[2]):
                if _hands_over(a, arc):
                    uses.append((bi, strip_generics(t.get('callee_full', '?')), ai))
        allowed = ('<alloc::sync::Arc as core::clone::Clone>::clone', 'alloc::sync::Arc::new',
                   strip_generics(m.spawn.path)) + tuple(strip_generics(p_) for p_ in m.worker_ctors)
        odd = [u for u in uses if u[1] not in allowed]
        rep.ob(rid, 'sink-arc-goes-to-handle-and-task-only', not odd, m.build.where(odd[0][0]) if odd else m.build.where(),
               'the Arc of the wrapped sink is only cloned into the task closure and moved into the handle' if not odd else
               'the wrapped sink\'s Arc is also given to %s' % [u[1] for u in odd])
    # the spawned closure owns just the Arc<worker>
    caps = [e for blk in m.spawn.blocks for s in blk['stmts'] if s['k'] == 'assign' and s['rv']['k'] == 'agg' and
            s['rv'].get('ak') == 'closure' for e in s['rv']['fields']]
    rep.ob(rid, 'thread-owns-only-the-worker', len(caps) == 1, m.spawn.where(), 'the thread closure captures %s' % caps)


def _hands_over(a, arc):
    """does argument term `a` give the callee the Arc itself (by value or by reference - it could clone it), as opposed to
    a borrow of what the Arc points to (`&*arc`, a method call on the wrapped sink)?"""
    a = norm(a)
    if a == arc:
        return True
    if a[0] in ('ref', 'unsize', 'conv', 'mutated'):
        return _hands_over(a[1], arc)
    if a[0] in ('deref', 'autoderef', 'load'):
        return False            # the pointee, not the pointer
    if a[0] in ('adt', 'tuple', 'closure', 'array'):
        parts = [v for _, v in a[3]] if a[0] == 'adt' else ([v for _, v in a[2]] if a[0] == 'closure' else list(a[1]))
        return any(_hands_over(v, arc) for v in parts)
    if a[0] == 'call':
        return a[1] == '<alloc::sync::Arc as core::clone::Clone>::clone' and any(_hands_over(x, arc) for x in a[2])
    return False


def rule_drop_nonblocking(m, rep, rid='R5'):
    cad = m.cad
    roots = []
    for adt in by_value_adts(cad, Q) + [inner for _, inner in arc_held_adts(cad, Q)]:
        d = drop_impl(cad, adt)
        if d is not None:
            roots.append(d)
    if not rep.floor(rid, 'Drop impls under the handle', len(roots), 1):
        return
    bodies = transitive_local(cad, roots)
    bad = []
    for b in bodies:
        rep.analysed(b)
        for bi, blk in enumerate(b.blocks):
            t = blk['term']
            if blk['cleanup']:
                continue
            if t['k'] == 'call':
                rep.sites()
                if callee_is(t, *BLOCKING):
                    bad.append((b, bi, 'may block in %s' % strip_generics(t['callee_full'])))
                if callee_is(t, SINK_TRAIT + '::emit', SINK_TRAIT + '::flush', SINK_TRAIT + '::stats') and \
                        (not t.get('resolved_local') or t.get('resolved_kind') == 'virtual'):
                    bad.append((b, bi, 'runs the wrapped sink on the dropping thread (%s may block or panic)' % t['callee'].rsplit('::', 1)[-1]))
                if t.get('indirect') or callee_is(t, 'core::ops::function::Fn::call', 'core::ops::function::FnMut::call_mut',
                                                  'core::ops::function::FnOnce::call_once') and not t.get('resolved_local'):
                    bad.append((b, bi, 'runs caller-supplied code on the dropping thread'))
                if callee_is(t, 'core::result::Result::unwrap', 'core::result::Result::expect', 'core::option::Option::unwrap',
                             'core::option::Option::expect', 'core::panicking::panic', 'core::panicking::panic_fmt',
                             'std::rt::begin_panic', 'core::panicking::assert_failed', 'core::result::unwrap_failed'):
                    bad.append((b, bi, 'may panic in %s' % strip_generics(t['callee_full'])))
            elif t['k'] == 'assert' and not t['msg'].startswith(('Misaligned', 'NullPointer')):
                bad.append((b, bi, 'may panic (%s)' % t['msg']))
    if bad:
        for b, bi, why in bad:
            rep.bad(rid, 'handle-drop/%s' % b.short(), b.where(bi), 'dropping a QueuingMetricSink %s' % why)
    else:
        rep.good(rid, 'handle-drop', roots[0].where(), 'drop glue of the handle reaches %d local bodies: no blocking call, no panic site' % len(bodies))


# ------------------------------------------------------------------ C11
def rule_sentinel(m, rep, count=True):
    """C11-R1/R2: the sentinel is armed before run(), disarmed only after run() returned normally, dropped on both the
    normal and the unwind path; its Drop respawns exactly one worker and counts exactly one panic iff still armed.
    The 'armed' state is whatever field cancel() overwrites (a bool, or an Option that cancel() sets to None)."""
    cad = m.cad
    S = m.sentinel
    b = m.run_caller if getattr(m, 'run_caller', None) is not None else m.spawn_closure
    rep.analysed(b)
    news = [bi for bi, t in b.calls() if not b.blocks[bi]['cleanup'] and t.get('resolved_local') and
            type_head(t.get('dest_ty', '')) == S]
    runs = [bi for bi, t in b.calls() if t.get('resolved') == m.run.path]
    cancels = []
    by_value = set()
    sent_methods = [x for x in cad.all_bodies if x.impl_self and type_head(x.impl_self) == S and x.impl_trait is None]
    sfields = [f['name'] for f in adt_fields(cad, S)]
    for x in sent_methods:
        Tx = Terms(x)
        sts = [(st, norm(Tx.store_value(st))) for st in Tx.stores() if st[0] == 's' and st[3][0] == 'field' and st[3][2] in sfields
               and peel(st[3][1]) == ('param', 1)]
        if not sts and x.arg_count >= 1 and type_head(x.locals[1]) == S and not x.locals[1].startswith('&'):
            # `fn cancel(mut self)`: the sentinel is taken by value, disarmed in place and dropped when the method returns
            for bi_, blk_ in enumerate(x.blocks):
                for si_, s_ in enumerate(blk_['stmts']):
                    if s_['k'] == 'assign' and s_['place']['l'] == 1 and len(s_['place']['p']) == 1 and s_['place']['p'][0][0] == 'field' and \
                            s_['place']['p'][0][2] in sfields and not blk_['cleanup']:
                        sts.append((('s', bi_, si_, ('field', ('param', 1), s_['place']['p'][0][2])), norm(Tx.rvalue_term(s_['rv'], bi_, si_))))
            by_value.add(x.path)
        if sts:
            cancels.append((x, sts))
    rep.sites(len(news) + len(runs))
    if len(news) != 1 or len(runs) != 1 or len(cancels) != 1 or len(cancels[0][1]) != 1:
        rep.unknown('R1', 'spawn-closure/shape', b.where(), 'expected one sentinel construction, one run() call, one cancel method with one store: %d/%d/%d' % (len(news), len(runs), len(cancels)))
        return
    cancel, csts = cancels[0]
    rep.analysed(cancel)
    flagf = csts[0][0][3][2]
    v_cancel = csts[0][1]
    nw, rn = news[0], runs[0]
    cc = [bi for bi, t in b.calls() if t.get('resolved') == cancel.path]
    dom = C.dominators(b, unwind=True)
    ok1 = nw in dom.get(rn, ())
    rep.ob('R1', 'sentinel-armed-before-run', ok1, b.where(nw), 'the sentinel is created before run() is entered' if ok1 else 'run() can start without an armed sentinel')
    rt = b.term(rn)
    normal = reach(b, [rt['target']], unwind=False) if rt.get('target') is not None else set()
    unw = reach(b, [rt['unwind']], unwind=True) if isinstance(rt.get('unwind'), int) else set()
    pre = [c for c in cc if rn in reach(b, [c])]
    ok2 = len(cc) == 1 and cc[0] in normal and cc[0] not in unw and rn in dom.get(cc[0], ()) and not pre
    rep.ob('R1', 'cancel-only-after-normal-return', ok2, b.where(cc[0]) if cc else b.where(),
           'cancel() is called once, after run() returned normally, never on the unwind path' if ok2 else
           'cancel() is misplaced (before run, on the unwind path, or missing): a panic would not respawn the worker / a normal exit would')
    # the thread does its job unconditionally: every way through the closure enters run() (a thread that may return at once -
    # "already stopped" - leaves what is queued behind), and every normal return of run() disarms the sentinel (a condition
    # on the cancel turns a clean stop into a respawn: a worker that lives, and holds the sink, forever)
    exits_ = set(C.exits(b, False))
    ok_run = C.must_pass(b, 0, exits_, {rn})
    rep.ob('R1', 'run-entered-on-every-path', ok_run, b.where(rn), 'the worker thread always enters run()' if ok_run else
           'the worker thread can return without entering run(): what is queued for it is never delivered')
    ok_cc = bool(cc) and rt.get('target') is not None and C.must_pass(b, rt['target'], exits_, set(cc))
    rep.ob('R1', 'cancel-after-every-normal-return', ok_cc, b.where(cc[0]) if cc else b.where(),
           'after run() returned normally the sentinel is always disarmed' if ok_cc else
           'after a normal return of run() the sentinel can stay armed: its destructor respawns a worker although nothing panicked')
    drops_n = [bi for bi in normal if b.blocks[bi]['term']['k'] == 'drop' and type_head(b.blocks[bi]['term']['ty']) == S]
    # an explicit `drop(sentinel)` is a drop
    drops_n += [bi for bi in normal if b.blocks[bi]['term']['k'] == 'call' and callee_is(b.blocks[bi]['term'], 'core::mem::drop') and
                any(type_head(a_) == S for a_ in b.blocks[bi]['term'].get('callee_args', []))]
    drops_u = [bi for bi in unw if b.blocks[bi]['term']['k'] == 'drop' and type_head(b.blocks[bi]['term']['ty']) == S]
    forget = [bi for bi, t in b.calls() if callee_is(t, 'core::mem::forget', 'ManuallyDrop::new')]
    if not drops_n and cancel.path in by_value:
        # moved into cancel(self): dropped there, at the end of the method
        drops_n = [bi for bi, blk in enumerate(cancel.blocks) if blk['term']['k'] == 'drop' and type_head(blk['term']['ty']) == S and not blk['cleanup']]
    ok3 = bool(drops_n) and bool(drops_u) and not forget
    rep.ob('R1', 'sentinel-dropped-on-both-paths', ok3, b.where(), 'the sentinel is dropped after run() returns and when it unwinds' if ok3 else 'the sentinel is not dropped on the unwind path / is forgotten')
    # the guarded body is only entered from the spawned thread
    if b.def_kind != 'Closure':
        callers = set(y.path for y in cad.all_bodies for _, t in y.calls() if t.get('resolved') == b.path)
        okc = callers == {m.spawn_closure.path}
        rep.ob('R1', 'guarded-body-only-on-spawned-thread', okc, b.where(), 'the function that runs the worker under the sentinel is called only from the spawned closure' if okc else 'called from %s' % sorted(callers))
    # constructor: armed value
    newb = cad.bodies.get(b.term(nw).get('resolved'))
    v_armed = None
    if newb is not None:
        rts = ret_terms(Terms(newb), [0])
        if len(rts) == 1 and list(rts)[0][0] == 'adt':
            v_armed = dict(list(rts)[0][3]).get(flagf)
    def kind_of(v):
        if v is None:
            return None
        if v[0] == 'const' and v[1] == 'bool':
            return ('bool', v[2])
        if v[0] == 'adt' and v[1] in ('core::option::Option',):
            return ('variant', v[2])
        return None
    ka, kc = kind_of(v_armed), kind_of(v_cancel)
    oka = ka is not None and kc is not None and ka[0] == kc[0] and ka[1] != kc[1]
    rep.ob('R1', 'sentinel-starts-armed-cancel-disarms', oka, cancel.where(), 'new(): %s = %s ; cancel(): %s = %s' % (flagf, fmt(v_armed) if v_armed else '?', flagf, fmt(v_cancel)) if oka else
           'cannot see an armed/disarmed pair for field %s: new() gives %s, cancel() stores %s' % (flagf, fmt(v_armed) if v_armed else '?', fmt(v_cancel)))
    if not oka:
        return
    # other stores to the armed field
    others = []
    for x in cad.all_bodies:
        if x.path in (cancel.path, m.sentinel_drop.path) or not in_module_of(x, Q):
            continue
        for bi, blk in enumerate(x.blocks):
            for si, s in enumerate(blk['stmts']):
                if s['k'] == 'assign' and any(e[0] == 'field' and e[2] == flagf for e in s['place']['p']) and S in x.locals[s['place']['l']]:
                    others.append((x, bi, si))
    rep.ob('R1', 'armed-flag-frame', not others, others[0][0].where(others[0][1], others[0][2]) if others else '', 'only cancel() (and the drop itself) writes the armed state')
    # R2: Sentinel::drop
    d = m.sentinel_drop
    ib = inl(cad, d, never=lambda x: x.path == m.spawn.path)
    T = Terms(ib)
    sp = set(bi for bi, t in ib.calls() if t.get('resolved') == m.spawn.path and not ib.blocks[bi]['cleanup'])
    pn = set(bi for bi, t in ib.calls() if not ib.blocks[bi]['cleanup'] and m.is_counter_op(norm(T.call_term(bi)), 'panics', 'fetch_add'))
    rep.sites(len(sp) + len(pn))
    act = None
    for bi, blk in enumerate(ib.blocks):
        if blk['term']['k'] != 'switch' or blk['cleanup']:
            continue
        dt, edges = T.switch_facts(bi)
        x = norm(dt)
        subject = x[1] if x[0] == 'discr' else x
        if subject[0] == 'call' and isinstance(subject[1], str) and subject[1] in ('core::option::Option::take', 'core::option::Option::replace', 'core::mem::replace', 'core::mem::take') and subject[2]:
            subject = subject[2][0]
        if _path_has_field(subject, flagf) and peel_root(subject) == ('param', 1):
            act = (bi, edges)
            break
    if act is None:
        rep.bad('R2', 'sentinel-drop/tests-armed-flag', d.where(), 'Sentinel::drop does not test the armed state (%s)' % flagf)
        return
    bi, edges = act
    t_edge = [s for s, labs in edges.items() if ka in labs]
    f_edge = [s for s, labs in edges.items() if kc in labs]
    okt = okf = False
    if t_edge and f_edge:
        ct = count_events(ib, lambda x: x in sp, starts=t_edge)
        cp = count_events(ib, lambda x: x in pn, starts=t_edge)
        cf = count_events(ib, lambda x: x in sp or x in pn, starts=f_edge)
        if not count:
            # properties that do not talk about the panic count (C08, C09) need the respawn only
            cp = {1}
            cf = count_events(ib, lambda x: x in sp, starts=f_edge)
        okt = ct == {1} and cp == {1}
        okf = cf == {0}
        pre = [x for x in (sp | pn if count else sp) if bi in reach(ib, [x])]
        okf = okf and not pre
        msg = 'armed: panics += 1 once and exactly one respawn; disarmed: nothing' if count else 'armed: exactly one respawn; disarmed: none'
        if not okt:
            msg = 'when the worker thread panicked the sentinel respawns %s time(s) and counts %s time(s) per path: every panic ' \
                  'must respawn exactly one worker (unconditionally) and be counted once' % (sorted(ct), sorted(cp))
        elif not okf:
            msg = 'a cancelled sentinel still respawns/counts'
    else:
        msg = 'the armed-state test has no armed/disarmed edges'
    rep.ob('R2', 'sentinel-drop/respawn-and-count-iff-armed', okt and okf, d.where(), msg)
    for s in sp:
        ct = norm(T.call_term(s))
        a = ct[2][0]
        while term_callee_is(a, '<alloc::sync::Arc as core::clone::Clone>::clone') and term_callee_is(peel(a[2][0]), '<alloc::sync::Arc as core::clone::Clone>::clone'):
            a = peel(a[2][0])       # a clone of a clone is a handle to the same worker
        oka2 = term_callee_is(a, '<alloc::sync::Arc as core::clone::Clone>::clone') and peel_root(a[2][0]) == ('param', 1)
        if not oka2 and a[0] != 'call':
            # the spawn function may take `&Arc<Worker>` and clone it itself: then the sentinel's own Arc is passed by reference
            oka2 = peel_root(a) == ('param', 1) and not any(y[0] == 'call' for y in walk(a))
        rep.ob('R2', 'sentinel-drop/respawns-same-worker', oka2, ib.where(s), 'respawn gets a clone of the sentinel\'s own Arc<worker>' if oka2 else 'respawn receives %s' % fmt(a))
    # the replacement thread is started like the first one: whatever else the spawn function is told (a stack size, a name,
    # a priority) is the same at the respawn site as in build()
    first = [norm(Terms(m.build).call_term(bi)) for bi, t_ in m.build.calls() if t_.get('resolved') == m.spawn.path and not m.build.blocks[bi]['cleanup']]
    if first and sp:
        extra0 = tuple(first[0][2][1:])
        same = all(tuple(norm(T.call_term(s))[2][1:]) == extra0 for s in sp) and all(tuple(f_[2][1:]) == extra0 for f_ in first)
        rep.ob('R2', 'sentinel-drop/respawn-configured-like-first-spawn', same, ib.where(sorted(sp)[0]),
               'the respawn passes the same settings to the spawn function as build() does' if same else
               'the replacement worker thread is started with other settings (%s) than the first one (%s)' % (
                   [fmt(x) for s in sp for x in norm(T.call_term(s))[2][1:]], [fmt(x) for x in extra0]))
    Tb = Terms(b)
    ra = norm(Tb.call_term(rn))[2][0]
    na = norm(Tb.call_term(nw))[2][0]
    def _unclone(t_):
        # a clone of the thread's Arc<worker> is a handle to the same worker (a sentinel that owns its handle)
        while term_callee_is(peel(t_), '<alloc::sync::Arc as core::clone::Clone>::clone'):
            t_ = peel(t_)[2][0]
        return t_
    ra, na = _unclone(ra), _unclone(na)
    okw = peel_root(ra) == peel_root(na) and peel_root(ra)[0] == 'param'
    rep.ob('R1', 'sentinel-guards-the-running-worker', okw, b.where(rn), 'sentinel and run() use the same worker')


def peel_root(t):
    """innermost base of an access path (through refs, derefs, fields, payloads, views)"""
    while True:
        if t[0] in ('ref', 'deref', 'unsize', 'autoderef', 'load', 'payload', 'field', 'mutated', 'conv'):
            t = t[1]
        elif t[0] == 'call' and isinstance(t[1], str) and len(t[2]) == 1 and (t[1].endswith('Deref>::deref') or t[1].rsplit('::', 1)[-1] in VIEW_FNS
                                                                               or t[1] in ('core::option::Option::take', 'core::mem::take')):
            t = t[2][0]
        else:
            return t


def rule_panic_propagates(m, rep, rid='R1'):
    """A panic of the wrapped sink must reach the sentinel (which counts it and restarts the worker): from the unwind
    edge of the wrapped emit in the task, and of the task call in run(), control only ever resumes unwinding - it is
    never caught and turned back into normal control flow (std::panic::catch_unwind is modelled as exactly that)."""
    cad = m.cad

    def swallowed(b, sites):
        bad = []
        for bi in sites:
            t = b.blocks[bi]['term']
            u = t.get('unwind')
            if not isinstance(u, int):
                if u in ('unreachable', 'terminate', 'abort') or (isinstance(u, dict)):
                    bad.append((bi, 'the unwind edge is cut (%s)' % (u,)))
                continue
            r = reach(b, [u], unwind=True)
            rets = [x for x in r if b.blocks[x]['term']['k'] == 'return']
            if rets:
                bad.append((bi, 'the panic is caught and the function returns normally'))
        return bad
    tb = inl(cad, m.task_closure)
    emits = [bi for bi, t in tb.calls() if not tb.blocks[bi]['cleanup'] and callee_is(t, SINK_TRAIT + '::emit')]
    rep.sites(len(emits))
    if not emits:
        rep.unknown(rid, 'panic-reaches-sentinel/task', tb.where(), 'no call of the wrapped emit found in the task')
    else:
        bad = swallowed(tb, emits)
        rep.ob(rid, 'panic-reaches-sentinel/task', not bad, tb.where(bad[0][0]) if bad else tb.where(emits[0]),
               'a panic of the wrapped emit unwinds out of the task' if not bad else
               'a panic raised by the wrapped sink never reaches the sentinel (%s): it is neither counted nor does it restart the worker' % bad[0][1])
    rb = inl(cad, m.run)
    Tr = Terms(rb)
    tcs = [bi for bi, _ in m.task_calls(rb, Tr)]
    rep.sites(len(tcs))
    if not tcs:
        rep.unknown(rid, 'panic-reaches-sentinel/run', rb.where(), 'no call of the task found in run()')
    else:
        bad = swallowed(rb, tcs)
        rep.ob(rid, 'panic-reaches-sentinel/run', not bad, rb.where(bad[0][0]) if bad else rb.where(tcs[0]),
               'a panic of the task unwinds out of run()' if not bad else 'run() swallows a panic of the task (%s)' % bad[0][1])


def rule_task_own_panics(m, rep, rid='R3'):
    """Only the wrapped sink (and a user handler) may panic inside the task: a panic site of the task's own - an
    `unwrap()` of a lock that an earlier panic poisoned, an index, an arithmetic assert - would make every metric after
    the first panic fail before it reaches the wrapped sink."""
    from .c20 import PANIC_CALLS, NOT_PANIC
    tb = inl(m.cad, m.task_closure)
    bad = []
    for bi, blk in enumerate(tb.blocks):
        if blk['cleanup'] or blk.get('dead'):
            continue
        t = blk['term']
        if t['k'] == 'assert' and not t['msg'].startswith(('Misaligned', 'NullPointer')):
            bad.append((bi, 'assert:' + t['msg']))
        elif t['k'] == 'call':
            k = strip_generics(t.get('callee_full', ''))
            if any(k == n_ or k.endswith(n_) for n_ in NOT_PANIC):
                continue
            if any(k == n_ or k.endswith(n_) for n_ in PANIC_CALLS):
                bad.append((bi, 'call:' + k))
    rep.sites(len(tb.blocks))
    rep.ob(rid, 'task-has-no-panic-site-of-its-own', not bad, tb.where(bad[0][0]) if bad else tb.where(),
           'inside the task only the wrapped sink / the user handler can panic' if not bad else
           'the task itself can panic at %s: once a panic of the wrapped sink has poisoned/invalidated that state, every later metric '
           'is consumed by a new panic instead of being delivered' % [x[1] for x in bad][:2])


def rule_loop_own_panics(m, rep, rid='R3'):
    """The worker loop itself (run() with its private helpers, the task call left out) has no panic site of its own: a panic
    there is counted as a panic of the wrapped sink and consumes a metric the wrapped sink never saw."""
    from .c20 import PANIC_CALLS, NOT_PANIC
    rb = inl(m.cad, m.run, never=lambda x: x.path == m.task_closure.path)
    bad = []
    for bi, blk in enumerate(rb.blocks):
        if blk['cleanup'] or blk.get('dead'):
            continue
        t = blk['term']
        if t['k'] == 'assert' and not t['msg'].startswith(('Misaligned', 'NullPointer')):
            bad.append((bi, 'assert:' + t['msg']))
        elif t['k'] == 'call':
            k = strip_generics(t.get('callee_full', ''))
            if any(k == n_ or k.endswith(n_) for n_ in NOT_PANIC):
                continue
            if any(k == n_ or k.endswith(n_) for n_ in PANIC_CALLS):
                bad.append((bi, 'call:' + k))
    rep.sites(len(rb.blocks))
    rep.ob(rid, 'loop-has-no-panic-site-of-its-own', not bad, rb.where(bad[0][0]) if bad else rb.where(),
           'inside the worker loop only the task can panic' if not bad else
           'the worker loop itself can panic at %s: the sentinel books it as a panic of the wrapped sink and the metric is lost' % [x[1] for x in bad][:2])


def rule_panics_getter(m, rep, rid='R4'):
    ok = m.counters.get('panics') is not None
    rep.ob(rid, 'panics-reads-the-incremented-counter', ok, '', 'QueuingMetricSink::panics() loads `%s`, the field the sentinel increments' % m.counters.get('panics'))


# ------------------------------------------------------------------ C16-R2/R3
def rule_handler_plumbing(m, rep):
    cad = m.cad
    # the handler setter stores the given handler, every other builder method carries it over (capacity is C10's)
    rule_builder_frame(cad, rep, QB, {'with_error_handler': (names(cad).qb_handler, 'some-box')}, rid='R2', value_only=True, protect=names(cad).qb_handler, protect_label='error_handler')
    T = Terms(m.build)
    clos = []
    for blk_i, blk in enumerate(m.build.blocks):
        for si, s in enumerate(blk['stmts']):
            if s['k'] == 'assign' and s['rv']['k'] == 'agg' and s['rv'].get('ak') == 'closure' and s['rv']['path'] == m.task_closure.path:
                clos.append(norm(T.rvalue_term(s['rv'], blk_i, si)))
    ok = False
    if len(clos) == 1:
        caps = dict(clos[0][2])
        want_h = ('field', ('param', 1), names(cad).qb_handler)
        hv = [v for n, v in caps.items() if v == want_h or (norm(v)[0] == 'adt' and any(v2 == want_h for _n2, v2 in norm(v)[3]))]
        ok = len(hv) == 1
    rep.ob('R2', 'build-moves-handler-into-task', ok, m.build.where(), 'the task closure captures self.error_handler unchanged' if ok else 'the configured handler does not reach the task closure')
    # every way to obtain a fresh builder (new(), Default) starts with no handler
    dflt = [i for i in cad.impls_of('core::default::Default') if i.get('self_adt') == QB]
    derived = len(dflt) == 1 and dflt[0]['derived']
    hty = [f['ty'] for f in adt_fields(cad, QB) if f['name'] == names(cad).qb_handler]
    opt_field = bool(hty) and type_head(hty[0]) == 'core::option::Option'

    def starts_none(body, depth=0):
        rts = ret_terms(Terms(inl(cad, body)), [0])
        if not rts:
            return False
        for r in rts:
            if r[0] == 'adt' and r[1] == QB:
                v = dict(r[3]).get(names(cad).qb_handler)
                v = norm(v) if v is not None else None
                if v is None or not (v[0] == 'adt' and v[2] == 'None' or term_callee_is(v, 'as core::default::Default>::default')):
                    return False
            elif term_callee_is(r, 'as core::default::Default>::default'):
                if not (derived and opt_field):
                    return False
            else:
                return False
        return True
    nb = cad.method(QB, 'new')
    srcs = list(nb)
    if not derived:
        srcs += [x for x in cad.all_bodies if x.impl_self and type_head(x.impl_self) == QB and 'Default' in (x.impl_trait or '') and x.name == 'default']
    okn = bool(nb) and all(starts_none(x) for x in srcs) and (derived or len(srcs) > len(nb) or not dflt)
    rep.ob('R2', 'no-handler-by-default', okn, nb[0].where() if nb else '', 'a fresh builder (new() / Default) has handler None')
    rule_task_only_in_run(m, rep, 'R3')


def rule_task_only_in_run(m, rep, rid='R3'):
    """the task closure is invoked only through the worker's task field, only in the run region (so every hand-off to the
    wrapped sink is one the loop dequeued, counted and guarded)."""
    cad = m.cad
    tcs = []
    for b in cad.all_bodies:
        if not in_module_of(b, Q):
            continue
        Tb = None
        for bi, t in b.calls():
            if callee_is(t, 'core::ops::function::Fn>::call', 'core::ops::function::FnMut>::call_mut', 'core::ops::function::FnOnce>::call_once') or \
                    (getattr(m, 'task_trait', None) and t.get('callee_trait') == m.task_trait):
                Tb = Tb or Terms(b)
                ct = norm(Tb.call_term(bi))
                if _path_has_field(ct[2][0], m.f_task):
                    tcs.append(b)
    region = private_region(cad, m.run, m.worker)
    ok = bool(tcs) and all(x.path in region for x in tcs)
    rep.ob(rid, 'task-invoked-only-by-run', ok, m.run.where(), 'the task (and with it the handler) runs only inside the worker loop, i.e. on the background thread' if ok else 'task called from %s' % [x.short() for x in tcs])