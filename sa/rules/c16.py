"""C16 - the queuing sink's error handler sees each wrapped-sink failure exactly once."""
from . import queuing as A
from . import queuing2 as B
from .qmodel import QModel

EXPLANATION = ('C16-R1 typestate on the task closure: handler call count is 1 on (emit->Err and handler Some) with that '
               'error, else 0; R2 with_error_handler stores Some(Box::new(f)), every builder method keeps the other '
               'fields, build moves the handler into the task; R3 the task runs only in the worker loop.')


def check(ctx, rep):
    m = QModel(ctx, rep)
    if not m.ok:
        return
    A.rule_task_closure(m, rep, 'R1', handler=True)
    # the wrapped sink is driven by the task only (never by emit on the caller's thread): its failures always meet the handler
    A.rule_isolation(m, rep, 'R1i')
    B.rule_handler_plumbing(m, rep)
