"""C04 - client-wide tags and container id decorate every metric, in order."""
from . import fmtout as F
from . import client as K

EXPLANATION = ('Value-flow rules on the seven *_with_tags bodies (sibling agreement by table): R1 default tags and default '
               'container id applied to every new builder; R2 order-preserving plumbing builder -> client -> with_tags -> '
               'formatter (append only, forward iteration, config moved unchanged); R3 per-call container id overrides; '
               'R4 incr/decr = count_with_tags(+-1); R5 nothing added without defaults; tags/container rendered per C01.')


def check(ctx, rep):
    fm = F.FormatterModel(ctx, rep)
    if not fm.ok:
        return
    K.rule_decoration(fm, rep, 'R1', kinds=False)
    K.rule_tag_plumbing(fm, rep, 'R2')
    # every line goes through the decorated builder: nobody else hands a line to the sink
    K.rule_send_metric_callers(fm, rep, 'R2c')
    # the line that reaches the sink is the decorated line: the client hands the formatted text over whole
    from .common import KeepOnly
    K.rule_send_metric(fm, KeepOnly(rep, ('/emits-the-metric-text',), 'R2s'))
    K.rule_container_override(fm, rep, 'R3')
    # ... and the metric object built from the formatted line keeps it verbatim (From<String> / as_metric_str of the seven
    # metric types): what the sink is given is the text that was formatted, whole
    from .common import KeepOnly as _KO
    F.rule_constructors(fm, _KO(rep, ('/string-kept-verbatim',), 'R2v'), 'R2v')
    K.rule_incr_decr(fm, rep, 'R4')
    K.rule_plain_forms(fm, rep, 'R4b')
    F.rule_setters(fm, rep, 'R2s', only=('tags', 'cid'))
    F.rule_format(fm, rep, 'R2f', scope='tags')
