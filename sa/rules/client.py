"""Client / builder rules: C03 (call counts, error flow), C04 (decoration flow), C01-R4/R6/R7, C02-R1..R3."""
from .. import cfg as C
from .. import linear as L
from ..terms import Terms, norm, fmt, walk, field_of
from .common import *
from .fmtout import strip_mut, MB, MV
from .queuing import rule_builder_frame, _field_value
from .sinks import is_whole_param

SC = 'cadence::client::StatsdClient'
SCB = 'cadence::client::StatsdClientBuilder'
SINK_TRAIT = 'cadence::sinks::core::MetricSink'
BACKEND = 'cadence::client::MetricBackend'
ME = 'cadence::types::MetricError'

# trait -> (tagged method, plain methods, formatter kind, metric type, value trait)
KIND_TABLE = [
    ('cadence::client::Counted', 'count_with_tags', 'count', 'Counter', 'cadence::types::Counter', 'cadence::client::ToCounterValue'),
    ('cadence::client::Timed', 'time_with_tags', 'time', 'Timer', 'cadence::types::Timer', 'cadence::client::ToTimerValue'),
    ('cadence::client::Gauged', 'gauge_with_tags', 'gauge', 'Gauge', 'cadence::types::Gauge', 'cadence::client::ToGaugeValue'),
    ('cadence::client::Metered', 'meter_with_tags', 'meter', 'Meter', 'cadence::types::Meter', 'cadence::client::ToMeterValue'),
    ('cadence::client::Histogrammed', 'histogram_with_tags', 'histogram', 'Histogram', 'cadence::types::Histogram', 'cadence::client::ToHistogramValue'),
    ('cadence::client::Distributed', 'distribution_with_tags', 'distribution', 'Distribution', 'cadence::types::Distribution', 'cadence::client::ToDistributionValue'),
    ('cadence::client::Setted', 'set_with_tags', 'set', 'Set', 'cadence::types::Set', 'cadence::client::ToSetValue'),
]


def tagged_bodies(cad):
    out = []
    for tr, meth, plain, kind, mty, vtr in KIND_TABLE:
        bs = [b for b in cad.all_bodies if b.impl_trait == tr and (b.impl_self or '') == SC and b.name == meth]
        out.append((tr, meth, plain, kind, mty, vtr, bs[0] if len(bs) == 1 else None))
    return out


# ------------------------------------------------------------------ C03
def rule_try_send(fm, rep, rid='R1'):
    cad = fm.cad
    b = fm.try_send
    rep.analysed(b)
    T = Terms(b)
    if b.blocks[0]['term']['k'] != 'switch':
        rep.unknown(rid, 'try_send/shape', b.where(), 'try_send does not start with a match on the builder state')
        return
    dt, edges = T.switch_facts(0)
    succ = [s for s, labs in edges.items() if ('variant', 'Success') in labs]
    err = [s for s, labs in edges.items() if ('variant', 'Error') in labs]
    if len(succ) != 1 or len(err) != 1:
        rep.unknown(rid, 'try_send/shape', b.where(), 'builder state match has edges %s' % edges)
        return
    fmts = [bi for bi, t in b.calls() if t.get('resolved') == fm.format.path and not b.blocks[bi]['cleanup']]
    sends = [bi for bi, t in b.calls() if callee_is(t, BACKEND + '::send_metric') and not b.blocks[bi]['cleanup']]
    rep.sites(len(fmts) + len(sends))
    cf = count_events(b, lambda x: x in fmts, starts=succ)
    cs = count_events(b, lambda x: x in sends, starts=succ)
    ok = cf == {1} and cs == {1}
    rep.ob(rid, 'try_send/one-format-one-send', ok, b.where(sends[0]) if sends else b.where(),
           'valid builder: the line is formatted once and handed to the client once' if ok else
           'valid builder: formatted %s times, sent %s times per call (must be exactly once each)' % (sorted(cf), sorted(cs)))
    ce = count_events(b, lambda x: x in fmts or x in sends, starts=err)
    rep.ob(rid, 'try_send/error-state-sends-nothing', ce == {0}, b.where(), 'rejected value: nothing formatted, nothing sent' if ce == {0} else 'a rejected value is still formatted/sent')
    rts = ret_terms(T, err)
    exp = ('adt', 'core::result::Result', 'Err', (('0', field_of(('payload', ('field', ('param', 1), 'repr'), 'Error'), '0', 0)),))
    rep.ob(rid, 'try_send/error-state-returns-that-error', rts == {exp}, b.where(), 'Error(err) => Err(err)' if rts == {exp} else 'returns %s' % [fmt(x) for x in rts])
    if not ok:
        return
    sb = sends[0]
    ct = norm(T.call_term(sb))
    metric = peel(ct[2][1])
    okm = term_callee_is(metric, '<T as core::convert::From>::from') and term_callee_is(metric[2][0], strip_generics(fm.format.path))
    rep.ob(rid, 'try_send/sends-the-formatted-line', okm, b.where(sb), 'send_metric(&T::from(format()))' if okm else 'send_metric receives %s' % fmt(ct[2][1])[:120])
    client = peel(ct[2][0])
    okc = any(y[0] == 'payload' and y[2] == 'Success' for y in walk(client))
    rep.ob(rid, 'try_send/uses-the-builders-client', okc, b.where(sb), 'sent through the client stored in the builder')
    ok_e, err_e, _ = outcomes(T, sb)
    if not ok_e or not err_e:
        rep.bad(rid, 'try_send/send-result-examined', b.where(sb), 'the result of send_metric is not examined')
        return
    r_ok = ret_terms(T, ok_e)
    r_err = ret_terms(T, err_e)
    g1 = r_ok == {('adt', 'core::result::Result', 'Ok', (('0', metric),))}
    rep.ob(rid, 'try_send/ok-only-after-accepted', g1, b.where(sb), 'Ok(metric) is returned only on the Ok edge of send_metric, with the very metric sent' if g1 else 'after a successful send returns %s' % [fmt(x)[:100] for x in r_ok])
    from .writer import _is_err_of
    g2 = bool(r_err) and all(_is_err_of(r, ct) for r in r_err)
    rep.ob(rid, 'try_send/refusal-returns-its-error', g2, b.where(sb), 'Err(e) of send_metric is returned (through From)' if g2 else 'after a refused send returns %s' % [fmt(x)[:100] for x in r_err])


def rule_send_metric(fm, rep, rid='R2'):
    cad = fm.cad
    bs = [b for b in cad.all_bodies if b.impl_trait == BACKEND and (b.impl_self or '') == SC and b.name == 'send_metric']
    b = one(rep, rid, 'impl MetricBackend for StatsdClient::send_metric', bs)
    if b is None:
        return
    rep.analysed(b)
    T = Terms(b)
    emits = [bi for bi, t in b.calls() if callee_is(t, SINK_TRAIT + '::emit') and not b.blocks[bi]['cleanup']]
    cnt = count_events(b, lambda x: x in emits)
    rep.sites(len(emits))
    ok = len(emits) == 1 and cnt == {1}
    rep.ob(rid, 'send_metric/exactly-one-emit', ok, b.where(emits[0]) if emits else b.where(),
           'one call, one emit' if ok else 'send_metric calls sink.emit %s times per call (retry / skip)' % sorted(cnt))
    if not ok:
        return
    e = emits[0]
    ct = norm(T.call_term(e))
    okr = self_field_name(ct[2][0]) == 'sink'
    okt = term_callee_is(peel(ct[2][1]), '<M as cadence::types::Metric>::as_metric_str') and peel(peel(ct[2][1])[2][0]) == ('param', 2)
    rep.ob(rid, 'send_metric/emits-the-metric-text', okr and okt, b.where(e), 'self.sink.emit(metric.as_metric_str())' if okr and okt else 'emit(%s, %s)' % (fmt(ct[2][0])[:60], fmt(ct[2][1])[:80]))
    ok_e, err_e, _ = outcomes(T, e)
    from .writer import _is_err_of
    if ok_e and err_e:
        r_ok, r_err = ret_terms(T, ok_e), ret_terms(T, err_e)
        g = all(r[0] == 'adt' and r[2] == 'Ok' for r in r_ok) and bool(r_ok) and all(_is_err_of(r, ct) for r in r_err) and bool(r_err)
    else:
        g = False
    rep.ob(rid, 'send_metric/result-tells-the-truth', g, b.where(e), 'Ok(()) iff the sink accepted; Err(MetricError::from(e)) with the sink\'s own error otherwise' if g else 'the emit result is not propagated faithfully (swallowed or replaced)')
    # who may call emit on the client's sink
    others = []
    for x in cad.all_bodies:
        if x.path == b.path or not (x.file.endswith('client.rs') or x.file.endswith('builder.rs') or x.file.endswith('types.rs')):
            continue
        for bi, t in x.calls():
            if callee_is(t, SINK_TRAIT + '::emit'):
                others.append((x, bi))
    rep.ob(rid, 'emit-only-in-send_metric', not others, others[0][0].where(others[0][1]) if others else '', 'no other client/builder code emits' if not others else 'the sink is also driven from %s' % [x.short() for x, _ in others])


def rule_error_type(fm, rep, rid='R3'):
    cad = fm.cad
    fr = [b for b in cad.all_bodies if b.impl_trait == 'core::convert::From' and (b.impl_self or '') == ME and b.name == 'from'
          and 'std::io::error::Error' in b.locals[1]]
    b = one(rep, rid, 'From<io::Error> for MetricError', fr)
    if b is not None:
        rep.analysed(b)
        rts = ret_terms(Terms(b), [0])
        ok = False
        if len(rts) == 1:
            r = list(rts)[0]
            rp = dict(r[3]).get('repr') if r[0] == 'adt' else None
            ok = rp is not None and rp[0] == 'adt' and dict(rp[3]).get('0') == ('param', 1)
            self_variant = rp[2] if ok else None
        rep.ob(rid, 'from-io-error-keeps-the-error', ok, b.where(), 'MetricError::from(io) stores the io::Error itself')
        kd = cad.method(ME, 'kind')
        kb = one(rep, rid, 'MetricError::kind', kd)
        if kb is not None and ok:
            rep.analysed(kb)
            T = Terms(kb)
            okk = False
            if kb.blocks[0]['term']['k'] == 'switch':
                dt, edges = T.switch_facts(0)
                res = {}
                for s, labs in edges.items():
                    for lab in labs:
                        if lab[0] == 'variant':
                            res[lab[1]] = ret_terms(T, [s])
                io_r = res.get(self_variant, set())
                okk = len(io_r) == 1 and list(io_r)[0][0] == 'adt' and list(io_r)[0][2] == 'IoError'
                other = [v for k, v in res.items() if k != self_variant]
                okk = okk and all(len(v) == 1 and list(v)[0][0] == 'field' for v in other)
            rep.ob(rid, 'kind-maps-io-to-IoError', okk, kb.where(), 'kind(): io variant -> ErrorKind::IoError, described variant -> its stored kind')
        src = [x for x in cad.all_bodies if x.impl_trait == 'core::error::Error' and (x.impl_self or '') == ME and x.name == 'source']
        sb = one(rep, rid, 'Error::source for MetricError', src)
        if sb is not None and ok:
            T = Terms(sb)
            okk = False
            if sb.blocks[0]['term']['k'] == 'switch':
                dt, edges = T.switch_facts(0)
                for s, labs in edges.items():
                    if ('variant', self_variant) in labs:
                        r = ret_terms(T, [s])
                        okk = len(r) == 1 and list(r)[0][0] == 'adt' and list(r)[0][2] == 'Some' and \
                            any(y[0] == 'payload' and y[2] == self_variant for y in walk(list(r)[0]))
            rep.ob(rid, 'source-exposes-the-io-error', okk, sb.where(), 'source() returns the stored io::Error')
    # (ErrorKind, &str) constructor keeps the kind
    fr2 = [b for b in cad.all_bodies if b.impl_trait == 'core::convert::From' and (b.impl_self or '') == ME and b.name == 'from'
           and 'ErrorKind' in b.locals[1]]
    b2 = one(rep, rid, 'From<(ErrorKind,&str)> for MetricError', fr2)
    if b2 is not None:
        rts = ret_terms(Terms(b2), [0])
        ok = len(rts) == 1 and any(y == ('field', ('param', 1), 0) for y in walk(list(rts)[0]))
        rep.ob(rid, 'described-error-keeps-its-kind', ok, b2.where(), 'MetricError::from((kind, desc)) stores kind')


def rule_quiet_send(fm, rep, rid='R4'):
    cad = fm.cad
    b = one(rep, rid, 'MetricBuilder::send', cad.method(MB, 'send'))
    ce = [x for x in cad.all_bodies if x.impl_trait == BACKEND and (x.impl_self or '') == SC and x.name == 'consume_error']
    cb = one(rep, rid, 'StatsdClient::consume_error', ce)
    if b is None or cb is None:
        return
    rep.analysed(b)
    rep.analysed(cb)
    # consume_error = exactly one call through self.errors with the parameter
    Tc = Terms(cb)
    hc = [bi for bi, t in cb.calls() if callee_is(t, 'core::ops::function::Fn>::call') and not cb.blocks[bi]['cleanup']]
    okc = len(hc) == 1 and count_events(cb, lambda x: x in hc) == {1}
    if okc:
        ct = norm(Tc.call_term(hc[0]))
        okc = self_field_name(ct[2][0]) == 'errors' and ct[2][1] == ('tuple', (('param', 2),))
    rep.ob(rid, 'consume_error/calls-handler-once', okc, cb.where(), 'consume_error(e) = (self.errors)(e), once' if okc else 'consume_error does not invoke the configured handler exactly once with its argument')
    T = Terms(b)
    if b.blocks[0]['term']['k'] != 'switch':
        rep.unknown(rid, 'send/shape', b.where(), 'send does not start with a match on the builder state')
        return
    dt, edges = T.switch_facts(0)
    succ = [s for s, labs in edges.items() if ('variant', 'Success') in labs]
    err = [s for s, labs in edges.items() if ('variant', 'Error') in labs]
    hs = [bi for bi, t in b.calls() if t.get('resolved') == cb.path and not b.blocks[bi]['cleanup']]
    tss = [bi for bi, t in b.calls() if t.get('resolved') == fm.try_send.path and not b.blocks[bi]['cleanup']]
    rep.sites(len(hs) + len(tss))
    # error state: handler exactly once with that error, no try_send
    c1 = count_events(b, lambda x: x in hs, starts=err)
    c2 = count_events(b, lambda x: x in tss, starts=err)
    bad = []
    if c1 != {1} or c2 != {0}:
        bad.append('rejected value: handler called %s times, try_send %s times' % (sorted(c1), sorted(c2)))
    for h in hs:
        if h in reach(b, err) and h not in reach(b, succ):
            ct = norm(T.call_term(h))
            if ct[2][1] != field_of(('payload', ('field', ('param', 1), 'repr'), 'Error'), '0', 0):
                bad.append('handler gets %s instead of the stored error' % fmt(ct[2][1]))
    c3 = count_events(b, lambda x: x in tss, starts=succ)
    if c3 != {1}:
        bad.append('valid builder: try_send called %s times' % sorted(c3))
    elif tss:
        paths = outcome_paths(T, tss[0], {'h': set(hs)})
        for k, fact, counts in paths:
            c = dict(counts)['h']
            if fact == 'ok' and c != 0:
                bad.append('handler invoked on success')
            if fact == 'err' and c != 1:
                bad.append('handler invoked %d times on failure' % c)
            if fact == '?':
                bad.append('a path ignores the result of try_send')
        tct = norm(T.call_term(tss[0]))
        for h in hs:
            if h in reach(b, succ):
                ct = norm(T.call_term(h))
                if ct[2][1] != field_of(('payload', tct, 'Err'), '0', 0):
                    bad.append('handler gets %s instead of the error returned by try_send' % fmt(ct[2][1])[:80])
    rep.ob(rid, 'send/handler-exactly-once-on-failure', not bad, b.where(), 'quiet send: handler once with the same error on any failure, never on success' if not bad else '; '.join(sorted(set(bad))))
    # no panic primitive in send / consume_error / try_send / send_metric
    pan = []
    for x in (b, cb, fm.try_send):
        for bi, t in x.calls():
            if callee_is(t, 'core::result::Result::unwrap', 'core::result::Result::expect', 'core::option::Option::unwrap', 'core::option::Option::expect',
                         'core::panicking::panic', 'core::panicking::panic_fmt', 'core::result::Result::unwrap_err'):
                pan.append((x, bi))
        for bi, blk in enumerate(x.blocks):
            if blk['term']['k'] == 'assert' and not blk['cleanup']:
                pan.append((x, bi))
    rep.ob(rid, 'send/no-panic-site', not pan, pan[0][0].where(pan[0][1]) if pan else b.where(), 'send, try_send and consume_error contain no unwrap/expect/panic/assert')


def rule_rejection(fm, rep, rid='R5'):
    cad = fm.cad
    n = 0
    fe = cad.method(MB, 'from_error')
    for tr, meth, plain, kind, mty, vtr, b in tagged_bodies(cad):
        if b is None:
            rep.anchor_lost(rid, 'impl %s for StatsdClient' % tr.rsplit('::', 1)[-1])
            continue
        n += 1
        rep.analysed(b)
        T = Terms(b)
        tv = [bi for bi, t in b.calls() if t.get('callee') == vtr + '::try_to_value' and not b.blocks[bi]['cleanup']]
        if len(tv) != 1:
            rep.bad(rid, '%s/converts-once' % meth, b.where(), 'value converted %d times' % len(tv))
            continue
        ok_e, err_e, _ = outcomes(T, tv[0])
        ct = norm(T.call_term(tv[0]))
        rts = ret_terms(T, err_e) if err_e else set()
        ok = False
        if len(rts) == 1:
            r = list(rts)[0]
            ok = term_callee_is(r, 'cadence::builder::MetricBuilder::from_error') and r[2][0] == field_of(('payload', ct, 'Err'), '0', 0) and peel(r[2][1]) == ('param', 1)
        rep.ob(rid, '%s/rejected-value-becomes-error-builder' % meth, ok, b.where(), 'Err(e) => MetricBuilder::from_error(e, self)' if ok else 'on a rejected value returns %s' % [fmt(x)[:100] for x in rts])
        okv = ct[2][0] == ('param', 3)
        rep.ob(rid, '%s/converts-the-argument' % meth, okv, b.where(tv[0]), 'try_to_value(value argument)')
    rep.floor(rid, 'tagged entry points', n, 7)
    if len(fe) == 1:
        rts = ret_terms(Terms(fe[0]), [0])
        ok = False
        if len(rts) == 1:
            r = dict(list(rts)[0][3]).get('repr') if list(rts)[0][0] == 'adt' else None
            ok = r is not None and r[0] == 'adt' and r[2] == 'Error' and dict(r[3])['0'] == ('param', 1) and peel(dict(r[3])['1']) == ('param', 2)
        rep.ob(rid, 'from_error-stores-error-state', ok, fe[0].where(), 'from_error(e, c) = builder in state Error(e, c)')
    else:
        rep.anchor_lost(rid, 'MetricBuilder::from_error')


def rule_plain_forms(fm, rep, rid='R6'):
    cad = fm.cad
    n = 0
    specs = [(tr, plain, meth) for tr, meth, plain, *_ in KIND_TABLE] + [
        ('cadence::client::CountedExt', 'incr', 'incr_with_tags'), ('cadence::client::CountedExt', 'decr', 'decr_with_tags')]
    for tr, plain, meth in specs:
        # the body StatsdClient uses: an override in its impl, else the trait default
        ov = [b for b in cad.all_bodies if b.impl_trait == tr and (b.impl_self or '') == SC and b.name == plain]
        df = [b for b in cad.all_bodies if b.j.get('trait_path') == tr and b.name == plain]
        b = ov[0] if ov else (df[0] if df else None)
        if b is None:
            rep.anchor_lost(rid, '%s::%s' % (tr, plain))
            continue
        n += 1
        rep.analysed(b)
        T = Terms(b)
        rts = ret_terms(T, [0])
        ok = False
        if len(rts) == 1:
            r = list(rts)[0]
            if term_callee_is(r, 'cadence::builder::MetricBuilder::try_send'):
                inner = r[2][0]
                if inner[0] == 'call' and inner[1].endswith('::' + meth):
                    args = inner[2]
                    ok = peel(args[0]) == ('param', 1) and peel(args[1]) == ('param', 2) and (len(args) == 2 or args[2] == ('param', 3))
        calls = [bi for bi, t in b.calls() if not b.blocks[bi]['cleanup']]
        ok = ok and len(calls) == 2
        rep.ob(rid, 'plain/%s' % plain, ok, b.where(), '%s(k, v) = %s(k, v).try_send()' % (plain, meth) if ok else '%s is not the tagged form followed by try_send' % plain)
    rep.floor(rid, 'plain call forms', n, 9)


def rule_client_immutable(fm, rep, rid='R7'):
    cad = fm.cad
    fields = adt_fields(cad, SC)
    bad = [f['name'] for f in fields if any(k in f['ty'] for k in ('Cell<', 'RefCell<', 'Mutex<', 'RwLock<', 'Atomic<', 'OnceCell', 'OnceLock'))
           and f['name'] in ('prefix', 'tags', 'container_id')]
    rep.ob(rid, 'client-config-has-no-interior-mutability', not bad, '', 'prefix/tags/container_id are plain data' if not bad else 'interior mutability in %s' % bad)
    muts = [b for b in cad.all_bodies if any(l.replace(' ', '') == '&mut' + SC for l in b.locals[1:b.arg_count + 1])]
    rep.ob(rid, 'no-mutating-client-method', not muts, muts[0].where() if muts else '', 'no function takes &mut StatsdClient' if not muts else '%s takes &mut StatsdClient' % [b.short() for b in muts])


# ------------------------------------------------------------------ C04 (+ C01-R4)
FMT_CTOR = 'cadence::builder::MetricFormatter::'


def rule_decoration(fm, rep, rid='R1', kinds=True):
    cad = fm.cad
    if kinds and not fm.need_roles(rep, ('prefix', 'key', 'val', 'type')):
        return
    n = 0
    for tr, meth, plain, kind, mty, vtr, b in tagged_bodies(cad):
        if b is None:
            rep.anchor_lost(rid, 'impl %s for StatsdClient' % tr.rsplit('::', 1)[-1])
            continue
        n += 1
        rep.analysed(b)
        T = Terms(b)
        tv = [bi for bi, t in b.calls() if t.get('callee') == vtr + '::try_to_value' and not b.blocks[bi]['cleanup']]
        if len(tv) != 1:
            continue
        ok_e, err_e, _ = outcomes(T, tv[0])
        vct = norm(T.call_term(tv[0]))
        rts = ret_terms(T, ok_e) if ok_e else set()
        if len(rts) != 1:
            rep.bad(rid, '%s/ok-arm' % meth, b.where(), 'the Ok arm returns %d shapes' % len(rts))
            continue
        r = list(rts)[0]
        wrappers = []
        x = r
        while x[0] == 'call' and isinstance(x[1], str) and x[1].startswith('cadence::builder::MetricBuilder::') and not x[1].endswith('::from_fmt'):
            wrappers.append((x[1].rsplit('::', 1)[-1], x[2][1:]))
            x = x[2][0]
        rep.sites()
        base_ok = term_callee_is(x, 'cadence::builder::MetricBuilder::from_fmt') and peel(x[2][1]) == ('param', 1)
        names = sorted(w[0] for w in wrappers)
        okw = names == ['with_container_id_opt', 'with_tags']
        okargs = True
        for nm, args in wrappers:
            if nm == 'with_tags':
                a = args[0]
                okargs = okargs and term_callee_is(a, 'cadence::client::StatsdClient::tags') and peel(a[2][0]) == ('param', 1)
            elif nm == 'with_container_id_opt':
                a = args[0]
                okargs = okargs and term_callee_is(a, 'core::option::Option::as_deref') and self_field_name(a[2][0]) == 'container_id'
        ok = base_ok and okw and okargs
        rep.ob(rid, '%s/default-tags-and-container-id-applied' % meth, ok, b.where(),
               'builder = from_fmt(..).with_tags(self.tags()).with_container_id_opt(self.container_id)' if ok else
               '%s applies %s to the new builder: default tags and/or default container id are missing for this kind' % (meth, names))
        if kinds and base_ok:
            f = x[2][0]
            okk = f[0] == 'call' and f[1] == FMT_CTOR + kind.lower()
            oka = okk and self_field_name(f[2][0]) == 'prefix' and peel(f[2][1]) == ('param', 2) and \
                f[2][2] == field_of(('payload', vct, 'Ok'), '0', 0)
            okt = mty in b.locals[0]
            rep.ob('R4', '%s/kind-wiring' % meth, bool(okk and oka and okt), b.where(),
                   '%s -> %s formatter(self.prefix, key, converted value) -> MetricBuilder<%s>' % (meth, kind, kind) if okk and oka and okt else
                   '%s builds %s (expected the %s formatter with prefix, key, value)' % (meth, fmt(f)[:100], kind))
    rep.floor(rid, 'tagged entry points', n, 7)
    if kinds:
        # formatter constructors carry the matching MetricType constant
        for tr, meth, plain, kind, mty, vtr, b in tagged_bodies(cad):
            cb = cad.bodies.get("cadence::builder::MetricFormatter::<'a>::" + kind.lower())
            if cb is None:
                rep.anchor_lost('R4', 'MetricFormatter::%s' % kind.lower())
                continue
            ib = inl(cad, cb)
            rts = ret_terms(Terms(ib), [0])
            ok = False
            if len(rts) == 1 and list(rts)[0][0] == 'adt':
                fs = dict(list(rts)[0][3])
                tv = fs.get(fm.roles['type'])
                ok = tv is not None and tv[0] == 'adt' and tv[2] == kind and peel(fs.get(fm.roles['prefix'])) == ('param', 1) and \
                    peel(fs.get(fm.roles['key'])) == ('param', 2) and fs.get(fm.roles['val']) == ('param', 3)
            rep.ob('R4', 'formatter-ctor/%s' % kind, ok, cb.where(), 'MetricFormatter::%s(p,k,v) has type %s and stores p,k,v' % (kind.lower(), kind) if ok else 'constructor %s does not produce a %s formatter of its arguments' % (kind.lower(), kind))


def rule_tag_plumbing(fm, rep, rid='R2'):
    cad = fm.cad
    if not fm.need_roles(rep, ('tags',)):
        return
    # builder setters
    for meth, shape in (('with_tag', 'kv'), ('with_tag_value', 'v'), ('with_container_id', 'cid')):
        b = one(rep, rid, 'StatsdClientBuilder::%s' % meth, cad.method(SCB, meth))
        if b is None:
            continue
        rep.analysed(b)
        T = Terms(b)
        if shape == 'cid':
            rts = ret_terms(T, [0])
            v = _field_value(list(rts)[0], 'container_id') if len(rts) == 1 else None
            ok = v is not None and v[0] == 'adt' and v[2] == 'Some' and term_callee_is(dict(v[3])['0'], 'as alloc::string::ToString>::to_string') \
                and peel(dict(v[3])['0'][2][0]) == ('param', 2)
            rep.ob(rid, 'builder/with_container_id', ok, b.where(), 'container_id = Some(id.to_string())' if ok else 'stores %s' % (fmt(v) if v else '?'))
            continue
        pushes = [bi for bi, t in b.calls() if callee_is(t, 'alloc::vec::Vec::push') and not b.blocks[bi]['cleanup']]
        ok = len(pushes) == 1 and count_events(b, lambda x: x in pushes) == {1}
        if ok:
            ct = norm(T.call_term(pushes[0]))
            item = ct[2][1]
            ok = self_field_name(strip_mut(ct[2][0])) == 'tags' and item[0] == 'tuple'
            if ok:
                k, v = item[1]

                def ts(t, p):
                    return term_callee_is(t, 'as alloc::string::ToString>::to_string') and peel(t[2][0]) == ('param', p)
                if shape == 'kv':
                    ok = k[0] == 'adt' and k[2] == 'Some' and ts(dict(k[3])['0'], 2) and ts(v, 3)
                else:
                    ok = k[0] == 'adt' and k[2] == 'None' and ts(v, 2)
        rep.ob(rid, 'builder/%s-appends' % meth, ok, b.where(), 'default tag appended at the end of the list' if ok else 'builder %s does not push exactly its arguments' % meth)
    rule_builder_frame(cad, rep, SCB, {'with_tag': ('tags', None), 'with_tag_value': ('tags', None), 'with_container_id': ('container_id', None),
                                       'with_error_handler': ('errors', None)}, rid=rid)
    # from_builder moves everything unchanged
    b = one(rep, rid, 'StatsdClient::from_builder', cad.method(SC, 'from_builder'))
    if b is not None:
        rep.analysed(b)
        rts = ret_terms(Terms(inl(cad, b)), [0])
        ok = False
        msg = ''
        if len(rts) == 1 and list(rts)[0][0] == 'adt':
            fs = dict(list(rts)[0][3])
            badf = [n for n, v in fs.items() if deep_peel(v) != ('field', ('param', 1), n)]
            ok = not badf
            msg = 'fields not moved unchanged from the builder: %s' % [(n, fmt(fs[n])[:80]) for n in badf]
        rep.ob(rid, 'from_builder-moves-config-unchanged', ok, b.where(), 'prefix, sink, errors, tags, container_id are moved as configured' if ok else msg)
    nb = one(rep, 'R5', 'StatsdClientBuilder::new', cad.method(SCB, 'new'))
    if nb is not None:
        rts = ret_terms(Terms(nb), [0])
        ok = False
        if len(rts) == 1 and list(rts)[0][0] == 'adt':
            fs = dict(list(rts)[0][3])
            ok = term_callee_is(fs.get('tags', ('x',)), 'alloc::vec::Vec::new') and fs.get('container_id', ('x',))[0] == 'adt' and fs['container_id'][2] == 'None'
            okp = term_callee_is(fs.get('prefix', ('x',)), 'cadence::client::StatsdClientBuilder::formatted_prefix') and peel(fs['prefix'][2][0]) == ('param', 1)
            rep.ob('R6', 'prefix-normalised-once', okp, nb.where(), 'builder.prefix = formatted_prefix(prefix argument)')
        rep.ob('R5', 'no-defaults-by-default', ok, nb.where(), 'a new builder has no default tags and no container id')
    # StatsdClient::tags : forward map over self.tags
    tb = one(rep, rid, 'StatsdClient::tags', cad.method(SC, 'tags'))
    if tb is not None:
        rep.analysed(tb)
        rts = ret_terms(Terms(tb), [0])
        ok = False
        if len(rts) == 1:
            r = list(rts)[0]
            if term_callee_is(r, 'as core::iter::traits::iterator::Iterator>::map') and term_callee_is(r[2][0], 'core::slice::iter', 'alloc::vec::Vec::iter'):
                ok = self_field_name(r[2][0][2][0]) == 'tags'
        rep.ob(rid, 'client-tags-forward-iteration', ok, tb.where(), 'self.tags.iter().map(..): configured order' if ok else 'default tags are not visited by a plain forward iter().map()')
        cl = cad.closures_of(tb.path)
        if len(cl) == 1:
            rts = ret_terms(Terms(cl[0]), [0])
            okc = False
            if len(rts) == 1 and list(rts)[0][0] == 'tuple':
                k, v = list(rts)[0][1]
                okc = term_callee_is(k, 'core::option::Option::as_deref') and deep_peel(k[2][0]) == ('field', ('param', 2), 0) and \
                    term_callee_is(v, 'alloc::string::String::as_str') and deep_peel(v[2][0]) == ('field', ('param', 2), 1)
            rep.ob(rid, 'client-tags-item-mapping', okc, cl[0].where(), '(k, v) -> (k.as_deref(), v.as_str())')
        else:
            rep.anchor_lost(rid, 'closure of StatsdClient::tags')
    # MetricBuilder::with_tags : forward loop, one with_tag / with_tag_value per item chosen by the key
    wb = one(rep, rid, 'MetricBuilder::with_tags', cad.method(MB, 'with_tags'))
    if wb is not None:
        rep.analysed(wb)
        T = Terms(wb)
        nx = [bi for bi, t in wb.calls() if callee_is(t, 'as core::iter::traits::iterator::Iterator>::next') and not wb.blocks[bi]['cleanup']]
        wt = [bi for bi, t in wb.calls() if callee_is(t, 'cadence::builder::MetricFormatter::with_tag') and not wb.blocks[bi]['cleanup']]
        wv = [bi for bi, t in wb.calls() if callee_is(t, 'cadence::builder::MetricFormatter::with_tag_value') and not wb.blocks[bi]['cleanup']]
        ok = len(nx) == 1 and len(wt) == 1 and len(wv) == 1
        if ok:
            nct = norm(T.call_term(nx[0]))
            src = strip_mut(nct[2][0])
            while src[0] == 'call' and src[1].endswith('IntoIterator>::into_iter'):
                src = strip_mut(src[2][0])
            ok = src == ('param', 2)
            item = field_of(('payload', nct, 'Some'), '0', 0)
            t1 = norm(T.call_term(wt[0]))
            t2 = norm(T.call_term(wv[0]))
            kterm = field_of(('payload', ('field', item, 0), 'Some'), '0', 0)
            ok = ok and peel(t1[2][1]) == kterm and peel(t1[2][2]) == ('field', item, 1) and peel(t2[2][1]) == ('field', item, 1)
            # between two next() calls exactly one of the two
            for a in (wt[0], wv[0]):
                again = any(x in reach(wb, wb.succs(a, False), stop=lambda q: q == nx[0]) for x in (wt[0], wv[0]))
                ok = ok and not again
            g1 = guards_of(T, wt[0]) or []
            ok = ok and any(norm(dt)[0] == 'discr' and ('variant', 'Some') in labels for dt, labels, _ in g1)
            g0 = guards_of(T, wt[0]) or []
            ok = ok and any(norm(dt)[0] == 'discr' and ('variant', 'Success') in labels for dt, labels, _ in g0)
        rep.ob(rid, 'with_tags-applies-each-default-in-order', ok, wb.where(), 'for tag in tags (forward): Some(k) -> with_tag(k, v), None -> with_tag_value(v)' if ok else 'with_tags does not apply every item once, in order, by its key')
    # formatter append
    for meth, shape in (('with_tag', 'kv'), ('with_tag_value', 'v')):
        b = cad.bodies.get("cadence::builder::MetricFormatter::<'a>::" + meth)
        if b is None:
            rep.anchor_lost(rid, 'MetricFormatter::%s' % meth)
            continue
        T = Terms(b)
        pushes = [bi for bi, t in b.calls() if callee_is(t, 'alloc::vec::Vec::push') and not b.blocks[bi]['cleanup']]
        ins = [bi for bi, t in b.calls() if callee_is(t, 'alloc::vec::Vec::insert', 'alloc::vec::Vec::push_front')]
        ok = len(pushes) == 1 and not ins and count_events(b, lambda x: x in pushes) == {1}
        if ok:
            ct = norm(T.call_term(pushes[0]))
            k, v = ct[2][1][1]
            if shape == 'kv':
                ok = k[0] == 'adt' and k[2] == 'Some' and peel(dict(k[3])['0']) == ('param', 2) and peel(v) == ('param', 3)
            else:
                ok = k[0] == 'adt' and k[2] == 'None' and peel(v) == ('param', 2)
            ok = ok and self_field_name(ct[2][0]) == fm.roles['tags']
        rep.ob(rid, 'formatter/%s-appends' % meth, ok, b.where(), 'tags.push(..): call order is line order')


def rule_container_override(fm, rep, rid='R3'):
    cad = fm.cad
    if not fm.need_roles(rep, ('cid',)):
        return
    b = cad.bodies.get("cadence::builder::MetricFormatter::<'a>::with_container_id")
    if b is None:
        rep.anchor_lost(rid, 'MetricFormatter::with_container_id')
        return
    rep.analysed(b)
    T = Terms(b)
    sts = [(st[1], st[2], st[3], norm(T.store_value(st))) for st in T.stores() if st[0] == 's']
    calls = [bi for bi, t in b.calls() if not b.blocks[bi]['cleanup']]
    sw = [bi for bi, blk in enumerate(b.blocks) if blk['term']['k'] == 'switch']
    ok = len(sts) == 1 and not calls and not sw and sts[0][2][0] == 'field' and sts[0][2][2] == fm.roles['cid'] and \
        sts[0][3][0] == 'adt' and sts[0][3][2] == 'Some' and peel(dict(sts[0][3][3])['0']) == ('param', 2)
    rep.ob(rid, 'container-id-last-wins', ok, b.where(), 'with_container_id is an unconditional store of Some(id): a per-call id replaces the default' if ok else
           'MetricFormatter::with_container_id is not an unconditional overwrite (a per-call id may not replace the client default)')
    ob = one(rep, rid, 'MetricBuilder::with_container_id_opt', cad.method(MB, 'with_container_id_opt'))
    if ob is not None:
        ib = inl(cad, ob)
        T2 = Terms(ib)
        sts = [(st[1], st[2], st[3], norm(T2.store_value(st))) for st in T2.stores() if st[0] == 's' and st[3][0] == 'field' and st[3][2] == fm.roles['cid']]
        ok = len(sts) == 1
        if ok:
            gs = guards_of(T2, sts[0][0]) or []
            ok = any(norm(dt)[0] == 'discr' and norm(dt)[1] == ('param', 2) and ('variant', 'Some') in labels for dt, labels, _ in gs) and \
                peel(dict(sts[0][3][3])['0']) == field_of(('payload', ('param', 2), 'Some'), '0', 0)
        rep.ob(rid, 'default-container-id-only-when-configured', ok, ob.where(), 'with_container_id_opt(Some(id)) sets id, None leaves the formatter alone')


def rule_incr_decr(fm, rep, rid='R4'):
    cad = fm.cad
    for meth, const in (('incr_with_tags', '1'), ('decr_with_tags', '-1')):
        ov = [b for b in cad.all_bodies if b.impl_trait == 'cadence::client::CountedExt' and (b.impl_self or '') == SC and b.name == meth]
        df = [b for b in cad.all_bodies if b.j.get('trait_path') == 'cadence::client::CountedExt' and b.name == meth]
        b = ov[0] if ov else (df[0] if df else None)
        if b is None:
            rep.anchor_lost(rid, 'CountedExt::%s' % meth)
            continue
        rep.analysed(b)
        rts = ret_terms(Terms(b), [0])
        ok = False
        if len(rts) == 1:
            r = list(rts)[0]
            ok = r[0] == 'call' and r[1].endswith('Counted>::count_with_tags') and peel(r[2][0]) == ('param', 1) and peel(r[2][1]) == ('param', 2) \
                and r[2][2][0] == 'const' and r[2][2][2] == const and r[2][2][1] == 'i64'
        rep.ob(rid, meth, ok, b.where(), '%s(k) = count_with_tags(k, %s)' % (meth, const) if ok else '%s returns %s' % (meth, [fmt(x) for x in rts]))
    cimpl = [i for i in cad.impls_of('cadence::client::CountedExt') if i.get('self_adt') == SC]
    rep.ob(rid, 'client-implements-CountedExt', len(cimpl) == 1, '', 'impl CountedExt for StatsdClient')


# ------------------------------------------------------------------ C01-R6 prefix
def rule_prefix(fm, rep, rid='R6'):
    cad = fm.cad
    b = one(rep, rid, 'StatsdClientBuilder::formatted_prefix', cad.method(SCB, 'formatted_prefix'))
    if b is None:
        return
    rep.analysed(b)
    T = Terms(b)
    sw = [bi for bi, blk in enumerate(b.blocks) if blk['term']['k'] == 'switch' and not blk['cleanup']]
    ok = False
    msg = 'formatted_prefix has an unexpected shape'
    if len(sw) == 1:
        dt, edges = T.switch_facts(sw[0])
        d = norm(dt)
        if term_callee_is(d, 'core::str::is_empty') and peel(d[2][0]) == ('param', 1):
            te = [s for s, labs in edges.items() if ('bool', True) in labs]
            fe = [s for s, labs in edges.items() if ('bool', False) in labs]
            r1 = ret_terms(T, te)
            r2 = ret_terms(T, fe)
            ok1 = len(r1) == 1 and term_callee_is(list(r1)[0], 'alloc::string::String::new')
            ok2 = False
            if len(r2) == 1:
                x = list(r2)[0]
                while term_callee_is(x, 'core::hint::must_use'):
                    x = x[2][0]
                if term_callee_is(x, 'alloc::fmt::format'):
                    from .fmtout import _wf_atoms
                    try:
                        atoms = _wf_atoms(x[2][0])
                        if len(atoms) == 2 and atoms[0][0] == 'arg' and atoms[0][1] == 'display' and atoms[0][3] and atoms[1] == ('lit', '.'):
                            a = peel(atoms[0][2])
                            if term_callee_is(a, 'core::str::trim_end_matches') and peel(a[2][0]) == ('param', 1):
                                pat = peel(a[2][1])
                                ok2 = (pat[0] == 'const' and pat[1] == 'char' and pat[2] == '46') or pat == ('str', '.')
                                if not ok2:
                                    msg = 'prefix trimmed with pattern %s' % fmt(pat)
                            else:
                                msg = 'non-empty prefix is rendered from %s: every trailing dot must be removed (trim_end_matches(\'.\')) before one dot is appended' % fmt(a)[:100]
                        else:
                            msg = 'prefix template is %s' % atoms
                    except Exception as e:
                        msg = str(e)
            ok = ok1 and ok2
            if ok:
                msg = 'empty -> "", otherwise trim_end_matches(\'.\') + "."'
    rep.ob(rid, 'prefix-normalisation', ok, b.where(), msg)
    # used by new() (checked in tag plumbing R6/prefix-normalised-once) and passed by the *_with_tags bodies (R4)


# ------------------------------------------------------------------ C01-R7 at least one value
def rule_nonempty(fm, rep, rid='R7'):
    """Every path that builds the sendable Success state passes an emptiness test of the value whose true edge is an error."""
    cad = fm.cad
    srcs = []
    for b in cad.all_bodies:
        if b.name != 'try_to_value' or not (b.impl_trait or '').startswith('cadence::client::To'):
            continue
        T = Terms(b)
        for r in ret_terms(T, [0]):
            if r[0] == 'adt' and r[2] == 'Ok':
                v = dict(r[3])['0']
                if v[0] == 'adt' and v[1] == MV and v[2].startswith('Packed'):
                    srcs.append('%s for %s' % (b.impl_trait.rsplit('::', 1)[-1], b.impl_self.replace('alloc::vec::', '').replace('core::time::', '')))
    rep.floor(rid, 'conversions producing packed values', len(srcs), 7)
    ff = cad.method(MB, 'from_fmt')
    b = one(rep, rid, 'MetricBuilder::from_fmt', ff)
    if b is None:
        return
    rep.analysed(b)
    ib = inl(cad, b)
    T = Terms(ib)
    # where is the Success state constructed?
    succ_blocks = []
    for bi, blk in enumerate(ib.blocks):
        for si, s in enumerate(blk['stmts']):
            if s['k'] == 'assign' and s['rv']['k'] == 'agg' and s['rv'].get('variant') == 'Success' and not blk['cleanup']:
                succ_blocks.append(bi)
    # anywhere else constructing Success?
    elsewhere = [x for x in cad.all_bodies if x.path != b.path for blk in x.blocks for s in blk['stmts']
                 if s['k'] == 'assign' and s['rv']['k'] == 'agg' and s['rv'].get('variant') == 'Success' and s['rv'].get('path', '').endswith('BuilderRepr')]
    rep.ob(rid, 'success-state-built-in-one-place', len(succ_blocks) == 1 and not elsewhere, b.where(), 'only from_fmt creates the sendable state')
    guarded = False
    why = 'no emptiness guard dominates the construction of the sendable builder state'
    for sbk in succ_blocks:
        for dt, labels, sbi in guards_of(T, sbk) or []:
            d = norm(dt)
            # count(val) == 0  false edge ;  or is_empty false
            cnt = None
            truth = None
            if d[0] == 'bin' and d[1] in ('Eq', 'Ne', 'Gt', 'Lt', 'Ge', 'Le'):
                def atom(t):
                    return 'n' if _is_count_of_val(t, fm, ib, T) else None
                for lab in labels:
                    if lab[0] == 'bool':
                        try:
                            g = L.guard_ge0(d, lab[1], atom)
                            if L.entails(g, L.Lin({'n': 1}, -1)):
                                guarded = True
                        except L.Unknown:
                            if d[1] in ('Eq', 'Ne') and atom(d[2]) and d[3][0] == 'const' and d[3][2] == '0':
                                if (d[1] == 'Ne') == lab[1]:
                                    guarded = True
            elif term_callee_is(d, '::is_empty') and ('bool', False) in labels:
                guarded = True
    if guarded:
        # the counting function must really count every packed variant
        cnt_ok, why2 = _count_is_len(fm)
        if not cnt_ok:
            guarded = False
            why = why2
    # the guard's other edge is an error
    if guarded:
        rts = ret_terms(T, [0])
        errs = [r for r in rts if r[0] == 'adt' and any(y[0] == 'adt' and y[2] == 'Error' for y in walk(r))]
        if not errs:
            guarded = False
            why = 'the empty case does not become the Error state'
    if guarded:
        rep.good(rid, 'packed-values-non-empty', b.where(), 'a value without elements becomes InvalidInput before the sendable state exists (%d packed sources)' % len(srcs))
    else:
        for s in sorted(set(srcs)):
            rep.bad(rid, s, b.where(), 'an empty Vec is accepted and rendered as "key:|type" - a line without any value (%s)' % why)


def _is_count_of_val(t, fm, body, T):
    t = norm(t)
    if t[0] == 'call' and isinstance(t[1], str) and t[1].endswith('MetricValue::count'):
        return True
    # inlined count(): phi of len(payload Packed*) | 1
    parts = flatten_phi(t)
    if len(parts) >= 2 and all((p[0] == 'const' and p[2] == '1') or (p[0] == 'call' and p[1].endswith('::len')) for p in parts):
        return True
    return False


def _count_is_len(fm):
    cad = fm.cad
    cb = cad.method(MV, 'count')
    if len(cb) != 1:
        return True, ''     # no helper: guard was on is_empty/len directly
    b = cb[0]
    T = Terms(b)
    if b.blocks[0]['term']['k'] != 'switch':
        return False, 'MetricValue::count has an unexpected shape'
    dt, edges = T.switch_facts(0)
    seen = {}
    for s, labs in edges.items():
        for lab in labs:
            names = [lab[1]] if lab[0] == 'variant' else (list(lab[1]) if lab[0] == 'variants' else [])
            for nm in names:
                seen[nm] = ret_terms(T, [s])
    for v in ('PackedSigned', 'PackedUnsigned', 'PackedFloat'):
        r = seen.get(v)
        ok = r is not None and len(r) == 1 and term_callee_is(list(r)[0], 'alloc::vec::Vec::len') and \
            any(y[0] == 'payload' and y[2] == v for y in walk(list(r)[0]))
        if not ok:
            return False, 'MetricValue::count() does not return the length of %s (returns %s): the emptiness guard misses that variant' % (
                v, [fmt(x) for x in (r or [])])
    return True, ''
