"""Client / builder rules: C03 (call counts, error flow), C04 (decoration flow), C01-R4/R6/R7, C02-R1..R3."""
from .. import cfg as C
from .. import linear as L
from ..terms import Terms, norm, fmt, walk, field_of
from .common import *
from .fmtout import strip_mut, MB, MV
from .queuing import rule_builder_frame, _field_value
from .sinks import is_whole_param
from .. import terms as _tm
_tm.KINDS.add('item')

SC = 'cadence::client::StatsdClient'
SCB = 'cadence::client::StatsdClientBuilder'
SINK_TRAIT = 'cadence::sinks::core::MetricSink'
BACKEND = 'cadence::client::MetricBackend'
ME = 'cadence::types::MetricError'

# trait -> (tagged method, plain methods, formatter kind, metric type, value trait)
KIND_TABLE = [
    ('cadence::client::Counted', 'count_with_tags', 'count', 'Counter', 'cadence::types::Counter', 'cadence::client::ToCounterValue'),
    ('cadence::client::Timed', 'time_with_tags', 'time', 'Timer', 'cadence::types::Timer', 'cadence::client::ToTimerValue'),
    ('cadence::client::Gauged', 'gauge_with_tags', 'gauge', 'Gauge', 'cadence::types::Gauge', 'cadence::client::ToGaugeValue'),
    ('cadence::client::Metered', 'meter_with_tags', 'meter', 'Meter', 'cadence::types::Meter', 'cadence::client::ToMeterValue'),
    ('cadence::client::Histogrammed', 'histogram_with_tags', 'histogram', 'Histogram', 'cadence::types::Histogram', 'cadence::client::ToHistogramValue'),
    ('cadence::client::Distributed', 'distribution_with_tags', 'distribution', 'Distribution', 'cadence::types::Distribution', 'cadence::client::ToDistributionValue'),
    ('cadence::client::Setted', 'set_with_tags', 'set', 'Set', 'cadence::types::Set', 'cadence::client::ToSetValue'),
]


def tagged_bodies(cad):
    out = []
    for tr, meth, plain, kind, mty, vtr in KIND_TABLE:
        bs = [b for b in cad.all_bodies if b.impl_trait == tr and (b.impl_self or '') == SC and b.name == meth]
        out.append((tr, meth, plain, kind, mty, vtr, bs[0] if len(bs) == 1 else None))
    return out


# ------------------------------------------------------------------ C03
def rule_try_send(fm, rep, rid='R1'):
    cad = fm.cad
    b = fm.try_send
    rep.analysed(b)
    T = Terms(b)
    if b.blocks[0]['term']['k'] != 'switch':
        rep.unknown(rid, 'try_send/shape', b.where(), 'try_send does not start with a match on the builder state')
        return
    dt, edges = T.switch_facts(0)
    succ = [s for s, labs in edges.items() if ('variant', names(cad).v_success) in labs]
    err = [s for s, labs in edges.items() if ('variant', names(cad).v_error) in labs]
    if len(succ) != 1 or len(err) != 1:
        rep.unknown(rid, 'try_send/shape', b.where(), 'builder state match has edges %s' % edges)
        return
    fmts = [bi for bi, t in b.calls() if t.get('resolved') == fm.format.path and not b.blocks[bi]['cleanup']]
    sends = [bi for bi, t in b.calls() if callee_is(t, BACKEND + '::send_metric') and not b.blocks[bi]['cleanup']]
    rep.sites(len(fmts) + len(sends))
    cf = count_events(b, lambda x: x in fmts, starts=succ)
    cs = count_events(b, lambda x: x in sends, starts=succ)
    ok = cf == {1} and cs == {1}
    rep.ob(rid, 'try_send/one-format-one-send', ok, b.where(sends[0]) if sends else b.where(),
           'valid builder: the line is formatted once and handed to the client once' if ok else
           'valid builder: formatted %s times, sent %s times per call (must be exactly once each)' % (sorted(cf), sorted(cs)))
    ce = count_events(b, lambda x: x in fmts or x in sends, starts=err)
    rep.ob(rid, 'try_send/error-state-sends-nothing', ce == {0}, b.where(), 'rejected value: nothing formatted, nothing sent' if ce == {0} else 'a rejected value is still formatted/sent')
    rts = ret_terms(T, err)
    exp = ('adt', 'core::result::Result', 'Err', (('0', field_of(('payload', ('field', ('param', 1), names(cad).mb_repr), names(cad).v_error), '0', 0)),))
    rep.ob(rid, 'try_send/error-state-returns-that-error', rts == {exp}, b.where(), 'Error(err) => Err(err)' if rts == {exp} else 'returns %s' % [fmt(x) for x in rts])
    if not ok:
        return
    sb = sends[0]
    ct = norm(T.call_term(sb))
    metric = peel(ct[2][1])
    okm = term_callee_is(metric, '<T as core::convert::From>::from') and term_callee_is(metric[2][0], strip_generics(fm.format.path))
    rep.ob(rid, 'try_send/sends-the-formatted-line', okm, b.where(sb), 'send_metric(&T::from(format()))' if okm else 'send_metric receives %s' % fmt(ct[2][1])[:120])
    client = peel(ct[2][0])
    okc = any(y[0] == 'payload' and y[2] == names(cad).v_success for y in walk(client))
    rep.ob(rid, 'try_send/uses-the-builders-client', okc, b.where(sb), 'sent through the client stored in the builder')
    rc = result_cases(T, sb)
    r_ok, r_err = rc['ok'], rc['err']
    if not r_ok or not r_err:
        rep.bad(rid, 'try_send/send-result-examined', b.where(sb), 'the result of send_metric is not examined')
        return
    # the error-state return is unconditional w.r.t. send_metric: allowed in '?'
    g1 = r_ok == {('adt', 'core::result::Result', 'Ok', (('0', metric),))}
    rep.ob(rid, 'try_send/ok-only-after-accepted', g1, b.where(sb), 'Ok(metric) is returned only on the Ok edge of send_metric, with the very metric sent' if g1 else 'after a successful send returns %s' % [fmt(x)[:100] for x in r_ok])
    from .writer import _is_err_of
    g2 = bool(r_err) and all(_is_err_of(r, ct) for r in r_err)
    rep.ob(rid, 'try_send/refusal-returns-its-error', g2, b.where(sb), 'Err(e) of send_metric is returned (through From)' if g2 else 'after a refused send returns %s' % [fmt(x)[:100] for x in r_err])


def rule_send_metric_callers(fm, rep, rid='R1c'):
    """Inside the library the line reaches the sink through one door only: MetricBackend::send_metric is called by
    MetricBuilder::try_send (and helpers only it calls) - no metric method sends something of its own on the side
    (an undecorated "reset" line, a second copy ..)."""
    cad = fm.cad
    from .qmodel import private_region
    region = private_region(cad, [fm.try_send]) | {fm.try_send.path}
    callers = []
    n = 0
    for b in cad.all_bodies:
        if b.file.endswith('/test.rs') or '::tests::' in b.path:
            continue
        for bi, t in b.calls():
            if callee_is(t, BACKEND + '::send_metric') and not b.blocks[bi]['cleanup']:
                n += 1
                if b.path not in region and not any(b.path.startswith(p_ + '::') for p_ in region):
                    callers.append((b, bi))
    rep.floor(rid, 'calls of MetricBackend::send_metric in the crate', n, 1)
    rep.sites(n)
    rep.ob(rid, 'send_metric-called-only-by-try_send', not callers, callers[0][0].where(callers[0][1]) if callers else '',
           'the only caller of send_metric in the library is MetricBuilder::try_send' if not callers else
           '%s hands a line to the sink on its own, outside the builder' % sorted(set(b.short() for b, _ in callers)))


def rule_handler_callers(fm, rep, rid='R4w'):
    """The handler has one door, too: inside the library `MetricBackend::consume_error` is called by the quiet
    `MetricBuilder::send` only (and helpers only it calls), and the stored handler itself is invoked by
    `StatsdClient::consume_error` only.  A second caller (a `Drop` impl reporting a failed flush, a metric method
    reporting on its own) invokes the handler with an error no quiet send produced - or after one that succeeded."""
    cad = fm.cad
    from .qmodel import private_region
    sends = cad.method(MB, 'send')
    ce = [x for x in cad.all_bodies if x.impl_trait == BACKEND and (x.impl_self or '') == SC and x.name == 'consume_error']
    if len(sends) != 1 or len(ce) != 1:
        return              # reported by R4
    region = private_region(cad, [sends[0]]) | {sends[0].path}
    hregion = private_region(cad, [ce[0]]) | {ce[0].path}
    hf = client_field(cad, 'errors')
    callers, direct = [], []
    n = 0
    for b in cad.all_bodies:
        if b.file.endswith('/test.rs') or '::tests::' in b.path:
            continue
        T = None
        for bi, t in b.calls():
            if b.blocks[bi]['cleanup']:
                continue
            if callee_is(t, BACKEND + '::consume_error') or t.get('resolved') == ce[0].path:
                n += 1
                if b.path not in region and not any(b.path.startswith(p_ + '::') for p_ in region):
                    # pure forwarding (`impl MetricBackend for Wrapper`: consume_error(e) = inner.consume_error(e)) passes on an
                    # error that somebody else produced: the producer is judged where it calls the wrapper
                    T = T or Terms(b)
                    ea = norm(T.call_term(bi))[2]
                    if not (len(ea) == 2 and strip_views(ea[1])[0] == 'param' and b.name == 'consume_error'):
                        callers.append((b, bi))
            elif callee_is(t, 'core::ops::function::Fn>::call') and (b.impl_self or '') == SC and \
                    b.path not in hregion and not any(b.path.startswith(p_ + '::') for p_ in hregion):
                T = T or Terms(b)
                ct = norm(T.call_term(bi))
                if hf is not None and on_self_path(strip_views(ct[2][0]), hf):
                    direct.append((b, bi))
    rep.floor(rid, 'calls of MetricBackend::consume_error in the crate', n, 1)
    rep.sites(n)
    rep.ob(rid, 'consume_error-called-only-by-send', not callers, callers[0][0].where(callers[0][1]) if callers else '',
           'the only caller of consume_error in the library is the quiet MetricBuilder::send' if not callers else
           '%s reports to the error handler on its own, outside the quiet send' % sorted(set(b.short() for b, _ in callers)))
    rep.ob(rid, 'handler-invoked-only-by-consume_error', not direct, direct[0][0].where(direct[0][1]) if direct else '',
           'the stored handler is invoked by StatsdClient::consume_error only' if not direct else
           '%s invokes the stored error handler directly' % sorted(set(b.short() for b, _ in direct)))


def rule_send_metric(fm, rep, rid='R2'):
    cad = fm.cad
    bs = [b for b in cad.all_bodies if b.impl_trait == BACKEND and (b.impl_self or '') == SC and b.name == 'send_metric']
    b = one(rep, rid, 'impl MetricBackend for StatsdClient::send_metric', bs)
    if b is None:
        return
    rep.analysed(b)
    b = inl(cad, b)
    T = Terms(b)
    emits = [bi for bi, t in b.calls() if callee_is(t, SINK_TRAIT + '::emit') and not b.blocks[bi]['cleanup']]
    cnt = count_events(b, lambda x: x in emits)
    rep.sites(len(emits))
    ok = len(emits) == 1 and cnt == {1}
    rep.ob(rid, 'send_metric/exactly-one-emit', ok, b.where(emits[0]) if emits else b.where(),
           'one call, one emit' if ok else 'send_metric calls sink.emit %s times per call (retry / skip)' % sorted(cnt))
    if not ok:
        return
    e = emits[0]
    ct = norm(T.call_term(e))
    okr = on_self_path(ct[2][0], client_field(cad, 'sink'))
    okt = term_callee_is(peel(ct[2][1]), '<M as cadence::types::Metric>::as_metric_str') and peel(peel(ct[2][1])[2][0]) == ('param', 2)
    rep.ob(rid, 'send_metric/emits-the-metric-text', okr and okt, b.where(e), 'self.sink.emit(metric.as_metric_str())' if okr and okt else 'emit(%s, %s)' % (fmt(ct[2][0])[:60], fmt(ct[2][1])[:80]))
    from .writer import _is_err_of
    rc = result_cases(T, e)
    r_ok, r_err = rc['ok'], rc['err']
    g = not rc['?'] and all(r[0] == 'adt' and r[2] == 'Ok' for r in r_ok) and bool(r_ok) and all(_is_err_of(r, ct) for r in r_err) and bool(r_err)
    rep.ob(rid, 'send_metric/result-tells-the-truth', g, b.where(e), 'Ok(()) iff the sink accepted; Err(MetricError::from(e)) with the sink\'s own error otherwise' if g else 'the emit result is not propagated faithfully (swallowed or replaced)')
    # who may call emit on the client's sink
    others = []
    # a function spliced into send_metric (analysed above as part of it) whose only callers in the crate are send_metric and
    # functions spliced into it is the same door, even when it is a public method (`emit_str(&self, line)`): calling it is not
    # a metric call, and no metric call reaches it another way
    spliced = set(p_ for p_, _, _ in (getattr(b, 'inlined', None) or [])) | {b.path}
    same_door = set()
    for p_ in spliced:
        callers_ = set(y.path for y in cad.all_bodies for _, t_ in y.calls() if t_.get('resolved') == p_)
        if p_ != b.path and callers_ and callers_ <= spliced:
            same_door.add(p_)
    for x in cad.all_bodies:
        if x.path == b.path or not (x.file.endswith('client.rs') or x.file.endswith('builder.rs') or x.file.endswith('types.rs')):
            continue
        if x.path in same_door:
            continue
        for bi, t in x.calls():
            if callee_is(t, SINK_TRAIT + '::emit'):
                others.append((x, bi))
    rep.ob(rid, 'emit-only-in-send_metric', not others, others[0][0].where(others[0][1]) if others else '', 'no other client/builder code emits' if not others else 'the sink is also driven from %s' % [x.short() for x, _ in others])


def _self_variant_switch(b, T):
    """first switch (in block order from the entry) on the variant of something stored in self"""
    seen = []
    st = [0]
    while st:
        bi = st.pop(0)
        if bi in seen:
            continue
        seen.append(bi)
        blk = b.blocks[bi]
        if blk['cleanup']:
            continue
        if blk['term']['k'] == 'switch':
            d = norm(T.switch_facts(bi)[0])
            if d[0] == 'discr' and field_path_of(d[1]) is not None:
                return bi
        st.extend(b.succs(bi, False))
    return None


def rule_error_type(fm, rep, rid='R3'):
    cad = fm.cad
    fr = [b for b in cad.all_bodies if b.impl_trait == 'core::convert::From' and (b.impl_self or '') == ME and b.name == 'from'
          and 'std::io::error::Error' in b.locals[1]]
    b = one(rep, rid, 'From<io::Error> for MetricError', fr)
    if b is not None:
        rep.analysed(b)
        rts = ret_terms(Terms(b), [0])
        ok = False
        if len(rts) == 1:
            r = list(rts)[0]
            rp = dict(r[3]).get(names(cad).me_repr) if r[0] == 'adt' else None
            ok = rp is not None and rp[0] == 'adt' and dict(rp[3]).get('0') == ('param', 1)
            self_variant = rp[2] if ok else None
        rep.ob(rid, 'from-io-error-keeps-the-error', ok, b.where(), 'MetricError::from(io) stores the io::Error itself')
        kd = cad.method(ME, 'kind')
        kb = one(rep, rid, 'MetricError::kind', kd)
        if kb is not None and ok:
            rep.analysed(kb)
            kb = inl(cad, kb)
            T = Terms(kb)
            okk = False
            sw0 = _self_variant_switch(kb, T)
            if sw0 is not None:
                dt, edges = T.switch_facts(sw0)
                res = {}
                for s, labs in edges.items():
                    for lab in labs:
                        if lab[0] == 'variant':
                            res[lab[1]] = ret_terms(T, [s])
                io_r = res.get(self_variant, set())
                okk = len(io_r) == 1 and list(io_r)[0][0] == 'adt' and list(io_r)[0][2] == 'IoError'
                other = [v for k, v in res.items() if k != self_variant]
                okk = okk and all(len(v) == 1 and list(v)[0][0] == 'field' for v in other)
            rep.ob(rid, 'kind-maps-io-to-IoError', okk, kb.where(), 'kind(): io variant -> ErrorKind::IoError, described variant -> its stored kind')
        src = [x for x in cad.all_bodies if x.impl_trait == 'core::error::Error' and (x.impl_self or '') == ME and x.name == 'source']
        sb = one(rep, rid, 'Error::source for MetricError', src)
        if sb is not None and ok:
            sb = inl(cad, sb)
            T = Terms(sb)
            okk = False
            sw0 = _self_variant_switch(sb, T)
            if sw0 is not None:
                dt, edges = T.switch_facts(sw0)
                for s, labs in edges.items():
                    if ('variant', self_variant) in labs:
                        r = ret_terms(T, [s])
                        okk = len(r) == 1 and list(r)[0][0] == 'adt' and list(r)[0][2] == 'Some' and \
                            any(y[0] == 'payload' and y[2] == self_variant for y in walk(list(r)[0]))
            rep.ob(rid, 'source-exposes-the-io-error', okk, sb.where(), 'source() returns the stored io::Error')
    # (ErrorKind, &str) constructor keeps the kind
    fr2 = [b for b in cad.all_bodies if b.impl_trait == 'core::convert::From' and (b.impl_self or '') == ME and b.name == 'from'
           and 'ErrorKind' in b.locals[1]]
    b2 = one(rep, rid, 'From<(ErrorKind,&str)> for MetricError', fr2)
    if b2 is not None:
        rts = ret_terms(Terms(b2), [0])
        ok = len(rts) == 1 and any(y == ('field', ('param', 1), 0) for y in walk(list(rts)[0]))
        rep.ob(rid, 'described-error-keeps-its-kind', ok, b2.where(), 'MetricError::from((kind, desc)) stores kind')


def rule_quiet_send(fm, rep, rid='R4'):
    """send(): on every path the error handler is invoked exactly once iff the send failed (rejected value or Err from
    try_send), with that very error; never on success.  No assumption on how send() is written."""
    cad = fm.cad
    b = one(rep, rid, 'MetricBuilder::send', cad.method(MB, 'send'))
    ce = [x for x in cad.all_bodies if x.impl_trait == BACKEND and (x.impl_self or '') == SC and x.name == 'consume_error']
    cb = one(rep, rid, 'StatsdClient::consume_error', ce)
    if b is None or cb is None:
        return
    rep.analysed(b)
    rep.analysed(cb)
    cb0 = cb
    cb = inl(cad, cb)
    Tc = Terms(cb)
    hc = [bi for bi, t in cb.calls() if callee_is(t, 'core::ops::function::Fn>::call') and not cb.blocks[bi]['cleanup']]
    cnt_h = count_events(cb, lambda x: x in hc)
    okc = len(hc) == 1 and cnt_h == {1}
    if len(hc) == 1 and cnt_h == {0, 1}:
        # an optional handler (`None` = discard): the paths without a call are exactly those where the stored handler is None
        gs = guards_of(Tc, hc[0]) or []
        okc = any(norm(dt)[0] == 'discr' and ('variant', 'Some') in labels and on_self_path(strip_views(norm(dt)[1]), client_field(cad, 'errors'))
                  for dt, labels, _ in gs)
    if okc:
        ct = norm(Tc.call_term(hc[0]))
        okc = on_self_path(strip_views(ct[2][0]), client_field(cad, 'errors')) and ct[2][1] == ('tuple', (('param', 2),))
    rep.ob(rid, 'consume_error/calls-handler-once', okc, cb.where(), 'consume_error(e) = (self.<handler>)(e), once' if okc else 'consume_error does not invoke the configured handler exactly once with its argument')
    # send with private helpers inlined, try_send and consume_error kept as events
    ib = inl(cad, b, never=lambda x: x.path in (fm.try_send.path, cb.path))
    T = Terms(ib)
    hs = [bi for bi, t in ib.calls() if t.get('resolved') == cb.path and not ib.blocks[bi]['cleanup']]
    tss = [bi for bi, t in ib.calls() if t.get('resolved') == fm.try_send.path and not ib.blocks[bi]['cleanup']]
    rep.sites(len(hs) + len(tss))
    bad = []
    stored_err = field_of(('payload', ('field', ('param', 1), names(cad).mb_repr), names(cad).v_error), '0', 0)
    if len(tss) > 1:
        bad.append('try_send is called from %d sites' % len(tss))
    if tss:
        ts = tss[0]
        tct = norm(T.call_term(ts))
        paths = outcome_paths(T, ts, {'h': set(hs)}, starts=[0])
        # paths from the entry: those that never reach try_send carry fact '?'
        for k, fact, counts in paths:
            c = dict(counts)['h']
            if fact == 'ok' and c != 0:
                bad.append('handler invoked on success')
            if fact == 'err' and c != 1:
                bad.append('handler invoked %d times after try_send failed' % c)
        cts = count_events(ib, lambda x: x == ts)
        if 2 in cts:
            bad.append('try_send can run twice')
        # paths that skip try_send must be the rejected-value state and report it once
        no_ts = outcome_paths(T, ts, {'h': set(hs), 'ts': {ts}}, starts=[0])
        for k, fact, counts in no_ts:
            c = dict(counts)
            if c['ts'] == 0 and c['h'] != 1:
                bad.append('a path neither sends nor reports (handler called %d times)' % c['h'])
            if c['ts'] == 1 and fact == '?' and c['h'] != 0:
                bad.append('handler invoked without examining the result of try_send')
        for h in hs:
            hct = norm(T.call_term(h))
            arg = hct[2][1]
            after_ts = h in reach(ib, ib.succs(ts, False))
            if after_ts and arg == field_of(('payload', tct, 'Err'), '0', 0):
                continue
            if not after_ts and arg == stored_err:
                gs = guards_of(T, h) or []
                if any(norm(dt)[0] == 'discr' and ('variant', names(cad).v_error) in labels for dt, labels, _ in gs):
                    continue
                bad.append('the stored error is reported without the builder being in the rejected state')
                continue
            if after_ts and arg == stored_err:
                bad.append('after try_send the handler gets the stored error instead of the returned one')
                continue
            bad.append('handler gets %s' % fmt(arg)[:80])
    else:
        bad.append('send() never calls try_send')
    rep.ob(rid, 'send/handler-exactly-once-on-failure', not bad, b.where(), 'quiet send: handler once with the same error on any failure, never on success' if not bad else '; '.join(sorted(set(bad))))
    pan = []
    for x in (b, cb, fm.try_send):
        for bi, t in x.calls():
            if callee_is(t, 'core::result::Result::unwrap', 'core::result::Result::expect', 'core::option::Option::unwrap', 'core::option::Option::expect',
                         'core::panicking::panic', 'core::panicking::panic_fmt', 'core::result::Result::unwrap_err'):
                pan.append((x, bi))
        for bi, blk in enumerate(x.blocks):
            if blk['term']['k'] == 'assert' and not blk['cleanup']:
                pan.append((x, bi))
    rep.ob(rid, 'send/no-panic-site', not pan, pan[0][0].where(pan[0][1]) if pan else b.where(), 'send, try_send and consume_error contain no unwrap/expect/panic/assert')


def rule_rejection(fm, rep, rid='R5'):
    cad = fm.cad
    n = 0
    fe = [names(cad).mb_from_error] if names(cad).mb_from_error is not None else []
    for tr, meth, plain, kind, mty, vtr, b in tagged_bodies(cad):
        if b is None:
            rep.anchor_lost(rid, 'impl %s for StatsdClient' % tr.rsplit('::', 1)[-1])
            continue
        n += 1
        rep.analysed(b)
        T = Terms(b)
        tv = [bi for bi, t in b.calls() if t.get('callee') == vtr + '::try_to_value' and not b.blocks[bi]['cleanup']]
        if len(tv) != 1:
            rep.bad(rid, '%s/converts-once' % meth, b.where(), 'value converted %d times' % len(tv))
            continue
        ok_e, err_e, _ = outcomes(T, tv[0])
        ct = norm(T.call_term(tv[0]))
        rts = ret_terms(T, err_e) if err_e else set()
        ok = False
        if len(rts) == 1:
            r = list(rts)[0]
            ok = bool(fe) and term_callee_is(r, strip_generics(fe[0].path)) and r[2][0] == field_of(('payload', ct, 'Err'), '0', 0) and peel(r[2][1]) == ('param', 1)
        rep.ob(rid, '%s/rejected-value-becomes-error-builder' % meth, ok, b.where(), 'Err(e) => MetricBuilder::from_error(e, self)' if ok else 'on a rejected value returns %s' % [fmt(x)[:100] for x in rts])
        okv = ct[2][0] == ('param', 3)
        rep.ob(rid, '%s/converts-the-argument' % meth, okv, b.where(tv[0]), 'try_to_value(value argument)')
    rep.floor(rid, 'tagged entry points', n, 7)
    if len(fe) == 1:
        rts = ret_terms(Terms(inl(cad, fe[0])), [0])
        ok = False
        if len(rts) == 1:
            r = dict(list(rts)[0][3]).get(names(cad).mb_repr) if list(rts)[0][0] == 'adt' else None
            r = norm(r) if r is not None else None
            ok = r is not None and r[0] == 'adt' and r[2] == names(cad).v_error and dict(r[3]).get('0') == ('param', 1) and \
                ('1' not in dict(r[3]) or peel(dict(r[3])['1']) == ('param', 2))
        rep.ob(rid, 'from_error-stores-error-state', ok, fe[0].where(), 'from_error(e, c) = builder in state Error(e, c)')
    else:
        rep.anchor_lost(rid, 'MetricBuilder::from_error')


def rule_plain_forms(fm, rep, rid='R6'):
    cad = fm.cad
    n = 0
    specs = [(tr, plain, meth) for tr, meth, plain, *_ in KIND_TABLE] + [
        ('cadence::client::CountedExt', 'incr', 'incr_with_tags'), ('cadence::client::CountedExt', 'decr', 'decr_with_tags')]
    for tr, plain, meth in specs:
        # the body StatsdClient uses: an override in its impl, else the trait default
        ov = [b for b in cad.all_bodies if b.impl_trait == tr and (b.impl_self or '') == SC and b.name == plain]
        df = [b for b in cad.all_bodies if b.j.get('trait_path') == tr and b.name == plain]
        b = ov[0] if ov else (df[0] if df else None)
        if b is None:
            rep.anchor_lost(rid, '%s::%s' % (tr, plain))
            continue
        n += 1
        rep.analysed(b)
        T = Terms(b)
        rts = ret_terms(T, [0])
        ok = False
        if len(rts) == 1:
            r = list(rts)[0]
            if term_callee_is(r, 'cadence::builder::MetricBuilder::try_send'):
                inner = r[2][0]
                if inner[0] == 'call' and inner[1].endswith('::' + meth):
                    args = inner[2]
                    ok = peel(args[0]) == ('param', 1) and peel(args[1]) == ('param', 2) and (len(args) == 2 or args[2] == ('param', 3))
        calls = [bi for bi, t in b.calls() if not b.blocks[bi]['cleanup']]
        ok = ok and len(calls) == 2
        rep.ob(rid, 'plain/%s' % plain, ok, b.where(), '%s(k, v) = %s(k, v).try_send()' % (plain, meth) if ok else '%s is not the tagged form followed by try_send' % plain)
    rep.floor(rid, 'plain call forms', n, 9)


def rule_client_immutable(fm, rep, rid='R7'):
    cad = fm.cad
    fields = adt_fields(cad, SC)
    bad = [f['name'] for f in fields if any(k in f['ty'] for k in ('Cell<', 'RefCell<', 'Mutex<', 'RwLock<', 'Atomic<', 'OnceCell', 'OnceLock'))
           and f['name'] in ('prefix', 'tags', 'container_id')]
    rep.ob(rid, 'client-config-has-no-interior-mutability', not bad, '', 'prefix/tags/container_id are plain data' if not bad else 'interior mutability in %s' % bad)
    muts = [b for b in cad.all_bodies if any(l.replace(' ', '') == '&mut' + SC for l in b.locals[1:b.arg_count + 1])]
    # a destructor gets `&mut self` by signature; it counts only if it writes a field of the client

    def _writes_field(b):
        return any(s['k'] == 'assign' and s['place']['l'] == 1 and any(e[0] == 'field' for e in s['place']['p'])
                   for blk in b.blocks for s in blk['stmts'])
    muts = [b for b in muts if not ((b.impl_trait or '').endswith('::Drop') and not _writes_field(b))]
    rep.ob(rid, 'no-mutating-client-method', not muts, muts[0].where() if muts else '', 'no function takes &mut StatsdClient' if not muts else '%s takes &mut StatsdClient' % [b.short() for b in muts])


# ------------------------------------------------------------------ C04 (+ C01-R4)
FMT_CTOR = 'cadence::builder::MetricFormatter::'


def mentions_client_field(cad, t, role, depth=0):
    """Does term t (an argument built inside a *_with_tags body) derive from the client's field of that role?
    Local helper calls taking only &self are expanded through their return term."""
    from .. import symb
    fpath = client_field_path(cad, role)
    for y in walk(t):
        if y[0] == 'field' and fpath and y[2] == fpath[-1] and field_path_of(y) == fpath:
            return True
        if depth < 2 and y[0] == 'call' and isinstance(y[1], str) and len(y[2]) == 1 and peel(y[2][0]) == ('param', 1):
            bb = symb._body(y[1])
            if bb is not None and bb.impl_self and type_head(bb.impl_self) == SC:
                if mentions_client_field(cad, symb.body_ret(bb), role, depth + 1):
                    return True
    return False


def builder_chain(cad, fm, b):
    """For a *_with_tags body: (value-conversion call term, from_fmt term, [(callee path, extra args)] wrappers) of the Ok arm,
    with private StatsdClient helpers that return a MetricBuilder inlined."""
    ib = inl(cad, b, only=lambda x: x.impl_self and type_head(x.impl_self) == SC and x.impl_trait is None and type_head(x.locals[0]) == MB)
    T = Terms(ib)
    return ib, T


def rule_decoration(fm, rep, rid='R1', kinds=True):
    from .. import symb
    cad = fm.cad
    if kinds and not fm.need_roles(rep, ('prefix', 'key', 'val', 'type')):
        return
    n = 0
    tag_callees, cid_callees, tag_args = set(), set(), []
    for tr, meth, plain, kind, mty, vtr, b in tagged_bodies(cad):
        if b is None:
            rep.anchor_lost(rid, 'impl %s for StatsdClient' % tr.rsplit('::', 1)[-1])
            continue
        n += 1
        rep.analysed(b)
        ib, T = builder_chain(cad, fm, b)
        tv = [bi for bi, t in ib.calls() if t.get('callee') == vtr + '::try_to_value' and not ib.blocks[bi]['cleanup']]
        if len(tv) != 1:
            continue
        vct = norm(T.call_term(tv[0]))
        rc = result_cases(T, tv[0])
        rts = rc['ok']
        if len(rts) != 1:
            rep.bad(rid, '%s/ok-arm' % meth, b.where(), 'the Ok arm returns %d shapes' % len(rts))
            continue
        r = list(rts)[0]
        wrappers = []
        x = r
        ffp = strip_generics(names(cad).mb_from_fmt.path) if names(cad).mb_from_fmt is not None else '?'
        while x[0] == 'call' and isinstance(x[1], str) and x[1].startswith('cadence::builder::MetricBuilder::') and x[1] != ffp and x[2]:
            wrappers.append((x[1], x[2][1:]))
            x = x[2][0]
        rep.sites()
        base_ok = x[0] == 'call' and x[1] == ffp and peel(x[2][1]) == ('param', 1)
        tags_w = [w for w in wrappers if any(mentions_client_field(cad, a, 'tags') for a in w[1])]
        cid_w = [w for w in wrappers if any(mentions_client_field(cad, a, 'container_id') for a in w[1])]
        other = [w for w in wrappers if w not in tags_w and w not in cid_w]
        ok = base_ok and len(tags_w) == 1 and len(cid_w) == 1 and not other and tags_w[0] != cid_w[0]
        why = []
        if not base_ok:
            why.append('the builder is not created by from_fmt(formatter, self)')
        if len(tags_w) != 1:
            why.append('the client default tags are applied %d times' % len(tags_w))
        if len(cid_w) != 1:
            why.append('the client default container id is applied %d times' % len(cid_w))
        if other:
            why.append('extra decoration %s' % [w[0].rsplit('::', 1)[-1] for w in other])
        rep.ob(rid, '%s/default-tags-and-container-id-applied' % meth, ok, b.where(),
               'new builder gets the client tags (via %s) and the client container id (via %s), each once' % (
                   tags_w[0][0].rsplit('::', 1)[-1], cid_w[0][0].rsplit('::', 1)[-1]) if ok else
               '%s: %s - default tags and/or default container id are missing or duplicated for this kind' % (meth, '; '.join(why)))
        if ok:
            tag_callees.add(tags_w[0][0])
            cid_callees.add(cid_w[0][0])
            tag_args.append((b, tags_w[0][1]))
        if kinds and base_ok:
            f = x[2][0]
            agg = symb.apply(('fn', f[1]), f[2]) if f[0] == 'call' and isinstance(f[1], str) else f
            okk = agg[0] == 'adt' and agg[1] == fm.F
            if okk:
                fs = dict(agg[3])
                tvv = fs.get(fm.roles['type'])
                okk = tvv is not None and tvv[0] == 'adt' and tvv[2] == kind and \
                    on_self_path(fs.get(fm.roles['prefix']), client_field(cad, 'prefix')) and \
                    peel(fs.get(fm.roles['key'])) == ('param', 2) and fs.get(fm.roles['val']) == field_of(('payload', vct, 'Ok'), '0', 0)
            okt = mty in b.locals[0]
            rep.ob('R4', '%s/kind-wiring' % meth, bool(okk and okt), b.where(),
                   '%s -> formatter{type: %s, prefix: self.prefix, key, converted value} -> MetricBuilder<%s>' % (meth, kind, kind) if okk and okt else
                   '%s builds %s (expected a %s formatter of client prefix, key, value)' % (meth, fmt(agg)[:120], kind))
    rep.floor(rid, 'tagged entry points', n, 7)
    fm._tag_callees, fm._cid_callees, fm._tag_args = tag_callees, cid_callees, tag_args


def _build_moves(cad, rep, rid, roles):
    """StatsdClientBuilder::build() (the public way from a configured builder to a client) hands every configured field
    to the client as it was configured - nothing is dropped, replaced or wrapped on the way"""
    bs = cad.method(SCB, 'build')
    b = one(rep, rid, 'StatsdClientBuilder::build', bs)
    if b is None:
        return
    rep.analysed(b)
    rts = ret_terms(Terms(inl(cad, b)), [0])
    ok = False
    msg = 'build() has %d return shapes' % len(rts)
    if len(rts) == 1 and list(rts)[0][0] == 'adt':
        badf = []
        for role in roles:
            cf, bf = client_field_path(cad, role), client_field_path(cad, role, SCB)
            if cf is None or bf is None or deep_peel(get_path(list(rts)[0], cf)) != mk_path(('param', 1), bf):
                badf.append('.'.join(cf) if cf else role)
        ok = not badf
        msg = 'build() does not hand over as configured: %s' % [(n_, fmt(get_path(list(rts)[0], tuple(n_.split('.'))))[:80]) for n_ in badf]
    rep.ob(rid, 'build-moves-config-unchanged/%s' % '+'.join(roles), ok, b.where(), 'build() moves %s from the builder into the client unchanged' % ', '.join(roles) if ok else msg)


def rule_handler_config(fm, rep, rid='R4c'):
    """the error handler the client calls is the function the user configured: with_error_handler stores its argument
    (boxed, nothing wrapped around it) and build() moves it into the client"""
    cad = fm.cad
    b = one(rep, rid, 'StatsdClientBuilder::with_error_handler', cad.method(SCB, 'with_error_handler'))
    if b is not None:
        rep.analysed(b)
        rts = ret_terms(Terms(inl(cad, b)), [0])
        bf = client_field_path(cad, 'errors', SCB)
        ok = False
        v = None
        if len(rts) == 1 and bf is not None:
            v = get_path(list(rts)[0], bf)
            x = v
            while x is not None and (x[0] in ('unsize', 'conv') or (x[0] == 'adt' and x[2] == 'Some' and len(x[3]) == 1)):
                x = x[1] if x[0] != 'adt' else x[3][0][1]      # an optional handler: Some(Box::new(handler))
            ok = x is not None and term_callee_is(x, 'alloc::boxed::Box::new') and peel(x[2][0]) == ('param', 2)
        rep.ob(rid, 'builder/with_error_handler-stores-the-handler', ok, b.where(), 'errors = Box::new(handler)' if ok else
               'with_error_handler stores %s instead of the handler it was given' % (fmt(v)[:120] if v is not None else '?'))
    _build_moves(cad, rep, rid, ('errors',))


def rule_tag_plumbing(fm, rep, rid='R2'):
    cad = fm.cad
    if not fm.need_roles(rep, ('tags',)):
        return
    # builder setters
    for meth, shape in (('with_tag', 'kv'), ('with_tag_value', 'v'), ('with_container_id', 'cid')):
        b = one(rep, rid, 'StatsdClientBuilder::%s' % meth, cad.method(SCB, meth))
        if b is None:
            continue
        rep.analysed(b)
        T = Terms(b)
        if shape == 'cid':
            rts = ret_terms(T, [0])
            v = _field_value(list(rts)[0], client_field_path(cad, 'container_id', SCB)) if len(rts) == 1 else None
            ok = v is not None and v[0] == 'adt' and v[2] == 'Some' and term_callee_is(dict(v[3])['0'], 'as alloc::string::ToString>::to_string') \
                and peel(dict(v[3])['0'][2][0]) == ('param', 2)
            rep.ob(rid, 'builder/with_container_id', ok, b.where(), 'container_id = Some(id.to_string())' if ok else 'stores %s' % (fmt(v) if v else '?'))
            continue
        pushes = [bi for bi, t in b.calls() if callee_is(t, 'alloc::vec::Vec::push') and not b.blocks[bi]['cleanup']]
        ok = len(pushes) == 1 and count_events(b, lambda x: x in pushes) == {1}
        if ok:
            ct = norm(T.call_term(pushes[0]))
            item = ct[2][1]
            ok = on_self_path(strip_mut(ct[2][0]), client_field(cad, 'tags', SCB)) and item[0] in ('tuple', 'adt')
            if ok and item[0] == 'adt':
                from .common import _tag_struct
                ts_ = _tag_struct(cad, item[1])
                ok = ts_ is not None and set(dict(item[3])) == set(ts_)
                if ok:
                    k, v = dict(item[3])[ts_[0]], dict(item[3])[ts_[1]]
            elif ok:
                k, v = item[1]
            if ok:

                def ts(t, p):
                    return term_callee_is(t, 'as alloc::string::ToString>::to_string') and peel(t[2][0]) == ('param', p)
                if shape == 'kv':
                    ok = k[0] == 'adt' and k[2] == 'Some' and ts(dict(k[3])['0'], 2) and ts(v, 3)
                else:
                    ok = k[0] == 'adt' and k[2] == 'None' and ts(v, 2)
        rep.ob(rid, 'builder/%s-appends' % meth, ok, b.where(), 'default tag appended at the end of the list' if ok else 'builder %s does not push exactly its arguments' % meth)
    rule_builder_frame(cad, rep, SCB, {'with_tag': (client_field(cad, 'tags', SCB), None), 'with_tag_value': (client_field(cad, 'tags', SCB), None),
                                       'with_container_id': (client_field(cad, 'container_id', SCB), None),
                                       'with_error_handler': (client_field(cad, 'errors', SCB), None)}, rid=rid)
    # from_builder moves everything unchanged
    b = one(rep, rid, 'StatsdClient::from_builder', [names(cad).sc_from_builder] if names(cad).sc_from_builder is not None else [])
    if b is not None:
        rep.analysed(b)
        rts = ret_terms(Terms(inl(cad, b)), [0])
        ok = False
        msg = ''
        if len(rts) == 1 and list(rts)[0][0] == 'adt':
            fs = dict(list(rts)[0][3])
            badf = []
            for role in ('sink', 'errors', 'tags', 'container_id'):      # the prefix has its own rule (R6, C01)
                cf, bf = client_field_path(cad, role), client_field_path(cad, role, SCB)
                if cf is None or bf is None or deep_peel(get_path(list(rts)[0], cf)) != mk_path(('param', 1), bf):
                    badf.append('.'.join(cf) if cf else role)
            ok = not badf
            msg = 'fields not moved unchanged from the builder: %s' % [(n, fmt(get_path(list(rts)[0], tuple(n.split('.'))))[:80]) for n in badf]
        rep.ob(rid, 'from_builder-moves-config-unchanged', ok, b.where(), 'sink, errors, tags, container_id are moved as configured' if ok else msg)
    _build_moves(cad, rep, rid, ('sink', 'tags', 'container_id'))
    nb = one(rep, 'R5', 'StatsdClientBuilder::new', [names(cad).scb_new] if names(cad).scb_new is not None else [])
    if nb is not None:
        rts = ret_terms(Terms(nb), [0])
        ok = False
        if len(rts) == 1 and list(rts)[0][0] == 'adt':
            fs = dict(list(rts)[0][3])
            r0 = list(rts)[0]
            vtags, vcid, vpre = (get_path(r0, client_field_path(cad, r_, SCB) or ('?',)) for r_ in ('tags', 'container_id', 'prefix'))
            ok = is_empty_vec(vtags) and vcid[0] == 'adt' and vcid[2] == 'None'
        rep.ob('R5', 'no-defaults-by-default', ok, nb.where(), 'a new builder has no default tags and no container id')
    # ---- how the default tags travel from the client field into the per-call formatter (by role, not by name)
    from .. import symb
    if not hasattr(fm, '_tag_callees'):
        from ..report import Report
        rule_decoration(fm, Report('scratch'), 'R1', kinds=False)
    # (a) the argument handed to the builder is an order-preserving view of the client's tag list
    for b_, args in fm._tag_args[:7]:
        okv = False
        why = ''
        for a in args:
            x = norm(a)
            # expand a local helper taking &self (e.g. StatsdClient::tags)
            if x[0] == 'call' and isinstance(x[1], str) and len(x[2]) == 1 and peel(x[2][0]) == ('param', 1) and symb._body(x[1]) is not None:
                x = symb.body_ret(symb._body(x[1]))
            v, why = _forward_view_of_tags(cad, x)
            okv = okv or v
        rep.ob(rid, '%s/default-tags-passed-in-order' % b_.name, okv, b_.where(), 'the builder receives a forward, complete view of the client tag list' if okv else
               'default tags are not handed over as a plain forward view of the configured list: %s' % why)
    # (b) the receiving builder method applies every item once, in order, by its key
    pushes_ok = set()
    for cp in sorted(fm._tag_callees):
        wb = symb._body(cp)
        if wb is None:
            rep.anchor_lost(rid, 'body of %s' % cp)
            continue
        rep.analysed(wb)
        ib = inl(cad, wb, never=lambda x: x.impl_self and type_head(x.impl_self) == fm.F)
        T = Terms(ib)
        nx = [bi for bi, t in ib.calls() if callee_is(t, 'as core::iter::traits::iterator::Iterator>::next') and not ib.blocks[bi]['cleanup']]
        kv, vo = [], []
        for bi, t in ib.calls():
            if ib.blocks[bi]['cleanup'] or not t.get('resolved_local'):
                continue
            role = _formatter_tag_method(cad, fm, t.get('resolved'))
            if role == 'kv':
                kv.append(bi)
            elif role == 'v':
                vo.append(bi)
        ok = len(nx) == 1 and len(kv) == 1 and len(vo) == 1
        why = 'expected one forward loop with one key:value and one bare-value application, found next=%d kv=%d v=%d' % (len(nx), len(kv), len(vo))
        if ok:
            nct = norm(T.call_term(nx[0]))
            from .fmtout import iter_source
            src, enum = iter_source(nct[2][0])
            src = strip_views(src)
            ok = src == ('param', 2) and not enum
            why = 'the loop iterates %s' % fmt(src)[:80]
            item = field_of(('payload', nct, 'Some'), '0', 0)
            if ok:
                t1 = norm(T.call_term(kv[0]))
                t2 = norm(T.call_term(vo[0]))

                def comp(x, idx):
                    """x is a view of component idx of the loop item"""
                    y = strip_views(x)
                    pth = []
                    while y != nct:
                        if y[0] == 'field':
                            pth.append(y[2])
                            y = strip_views(y[1])
                        elif y[0] == 'payload':
                            pth.append(('v', y[2]))
                            y = strip_views(y[1])
                        else:
                            return False
                    pth = list(reversed(pth))
                    return pth[:2] == [('v', 'Some'), '0'] and idx in pth[2:3] and all(q in (0, 1, '0', ('v', 'Some')) for q in pth)
                ok = comp(t1[2][1], 0) and comp(t1[2][2], 1) and comp(t2[2][1], 1)
                why = 'tag key/value do not come from the current item: %s / %s' % (fmt(t1[2][1])[:60], fmt(t1[2][2])[:60])
            if ok:
                for a in (kv[0], vo[0]):
                    again = any(x in reach(ib, ib.succs(a, False), stop=lambda q: q == nx[0]) for x in (kv[0], vo[0]))
                    ok = ok and not again
                oe = outcome_edges(T, nx[0])
                some_t = [s for (bb, s), v in oe.items() if v == 'ok']
                ok = ok and bool(some_t) and all(C.must_pass(ib, s, set(C.exits(ib, False)) | {nx[0]}, {kv[0], vo[0]}) for s in some_t)
                why = 'an item can be skipped or applied twice'
            if ok:
                g1 = guards_of(T, kv[0]) or []
                ok = any(norm(dt)[0] == 'discr' and ('variant', 'Some') in labels for dt, labels, _ in g1) and \
                    any(norm(dt)[0] == 'discr' and ('variant', names(cad).v_success) in labels for dt, labels, _ in g1)
                why = 'key:value application is not selected by the key being Some (on the Success state)'
        if not ok:
            ok2, why2 = _tags_applied_by_pushes(cad, fm, wb)
            if ok2:
                ok = True
                pushes_ok.add(cp)
            elif why2:
                why = why + ' ; ' + why2
        rep.ob(rid, 'default-tags-applied-each-once-in-order', ok, wb.where(), 'for item in tags (forward): Some(k) -> key:value tag, None -> bare tag' if ok else
               '%s does not apply every default tag once, in order, by its key: %s' % (cp.rsplit('::', 1)[-1], why))
    # (c) formatter methods append
    n_app = 0
    for x in cad.all_bodies:
        role = _formatter_tag_method(cad, fm, x.path)
        if role is None:
            continue
        n_app += 1
        T = Terms(x)
        pushes = [bi for bi, t in x.calls() if callee_is(t, 'alloc::vec::Vec::push') and not x.blocks[bi]['cleanup']]
        ins = [bi for bi, t in x.calls() if callee_is(t, 'alloc::vec::Vec::insert', 'alloc::vec::Vec::push_front', 'alloc::vec::Vec::swap', 'alloc::vec::Vec::sort_by_key',
                                                      'alloc::vec::Vec::dedup_by', 'alloc::vec::Vec::retain', 'alloc::vec::Vec::clear', 'alloc::vec::Vec::truncate')]
        ok = len(pushes) == 1 and not ins and count_events(x, lambda q: q in pushes) == {1}
        if ok:
            ct = norm(T.call_term(pushes[0]))
            k, v = ct[2][1][1]
            if role == 'kv':
                ok = k[0] == 'adt' and k[2] == 'Some' and peel(dict(k[3])['0']) == ('param', 2) and peel(v) == ('param', 3)
            else:
                ok = k[0] == 'adt' and k[2] == 'None' and peel(v) == ('param', 2)
        rep.ob(rid, 'formatter/%s-appends' % x.name, ok, x.where(), 'tags.push(..): call order is line order')
    if not (pushes_ok and pushes_ok == set(fm._tag_callees)):
        # (when the default tags are applied by direct pushes - checked above on the fully inlined body - the two
        # per-kind appender methods need not exist)
        rep.floor(rid, 'formatter tag appenders', n_app, 2)


def _tags_applied_by_pushes(cad, fm, wb):
    """Alternative shape for "every default tag applied once, in order, by its key": with everything inlined, one
    forward loop over the argument, and on every path through an iteration exactly one `tags.push((K, V))` where V is
    the item's value and K the item's key (the Option itself, or Some(k) / None selected by the item's key)."""
    from .fmtout import iter_source
    ib = inl(cad, wb)
    T = Terms(ib)
    nx = [bi for bi, t in ib.calls() if callee_is(t, 'as core::iter::traits::iterator::Iterator>::next') and not ib.blocks[bi]['cleanup'] and not ib.blocks[bi].get('dead')]
    if len(nx) != 1:
        return False, 'push form: %d iteration sites' % len(nx)
    nct = norm(T.call_term(nx[0]))
    src, enum = iter_source(nct[2][0])
    if strip_views(src) != ('param', 2) or enum:
        return False, 'push form: the loop iterates %s' % fmt(src)[:60]
    tagsf = fm.roles.get('tags')
    pushes, other = [], []
    for bi, t in ib.calls():
        if ib.blocks[bi]['cleanup'] or ib.blocks[bi].get('dead'):
            continue
        k = strip_generics(t.get('callee_full', ''))
        if not k.startswith('alloc::vec::Vec::'):
            continue
        ct = norm(T.call_term(bi))
        if not (ct[2] and any(y[0] == 'field' and y[2] == tagsf for y in walk(ct[2][0]))):
            continue
        if k == 'alloc::vec::Vec::push':
            pushes.append((bi, ct))
        elif k.rsplit('::', 1)[-1] not in ('len', 'is_empty', 'iter', 'capacity', 'as_slice', 'reserve'):
            other.append(k)
    if other or not pushes:
        return False, 'push form: tag list touched by %s, %d pushes' % (other, len(pushes))
    item = field_of(('payload', nct, 'Some'), '0', 0)

    def comp_of(x, idx):
        y = deep_peel(strip_views(x))
        return y == ('field', deep_peel(item), idx) or y == ('field', deep_peel(item), str(idx))
    for bi, ct in pushes:
        tv = ct[2][1]
        if tv[0] != 'tuple' or len(tv[1]) != 2:
            return False, 'push form: pushed value is %s' % fmt(tv)[:60]
        k_, v_ = tv[1]
        if not comp_of(v_, 1):
            return False, 'push form: tag value is %s, not the item value' % fmt(v_)[:60]
        if comp_of(k_, 0):
            continue
        gs = guards_of(T, bi) or []
        if k_[0] == 'adt' and k_[2] == 'Some':
            inner = deep_peel(strip_views(dict(k_[3])['0']))
            oki = inner[0] == 'field' and inner[1][0] == 'payload' and inner[1][2] == 'Some' and comp_of(inner[1][1], 0)
            okg = any(norm(dt)[0] == 'discr' and comp_of(norm(dt)[1], 0) and ('variant', 'Some') in labels for dt, labels, _ in gs)
            if not (oki and okg):
                return False, 'push form: key %s is not the item key' % fmt(k_)[:60]
        elif k_[0] == 'adt' and k_[2] == 'None':
            okg = any(norm(dt)[0] == 'discr' and comp_of(norm(dt)[1], 0) and ('variant', 'None') in labels for dt, labels, _ in gs)
            if not okg:
                return False, 'push form: a bare tag is pushed although the item has a key'
        else:
            return False, 'push form: key is %s' % fmt(k_)[:60]
    oe = outcome_edges(T, nx[0])
    some_t = [s for (bb, s), v in oe.items() if v == 'ok']
    pb = set(bi for bi, _ in pushes)
    if not some_t:
        return False, 'push form: result of next() not examined'
    cnt = count_events(ib, lambda q: q in pb, starts=some_t, stop=lambda q: q == nx[0]) if 'stop' in count_events.__code__.co_varnames else None
    if cnt is None:
        # count pushes on every path from the Some edge back to next() / to an exit
        ok_paths = all(C.must_pass(ib, s, set(C.exits(ib, False)) | {nx[0]}, pb) for s in some_t)
        twice = any(any(x in reach(ib, ib.succs(a, False), stop=lambda q: q == nx[0]) for x in pb) for a in pb)
        if not ok_paths or twice:
            return False, 'push form: an item can be skipped or applied twice'
    elif cnt != {1}:
        return False, 'push form: an item is applied %s times' % sorted(cnt)
    gsucc = guards_of(T, pushes[0][0]) or []
    if not any(norm(dt)[0] == 'discr' and ('variant', names(cad).v_success) in labels for dt, labels, _ in gsucc):
        return False, 'push form: not on the Success state'
    return True, ''


_FTM = {}


def _formatter_tag_method(cad, fm, path):
    """'kv' / 'v' if `path` is a formatter method whose effect is one push of (Some(..), ..) / (None, ..) to the tag list"""
    if path is None:
        return None
    _FTM = cad.__dict__.setdefault('_ftm_memo', {})
    key = path
    if key in _FTM:
        return _FTM[key]
    r = None
    b = cad.bodies.get(path)
    if b is not None and b.impl_self and type_head(b.impl_self) == fm.F and b.impl_trait is None:
        T = Terms(b)
        for bi, t in b.calls():
            if callee_is(t, 'alloc::vec::Vec::push') and not b.blocks[bi]['cleanup']:
                ct = norm(T.call_term(bi))
                if self_field_name(ct[2][0]) == fm.roles.get('tags') and ct[2][1][0] == 'tuple':
                    k = ct[2][1][1][0]
                    if k[0] == 'adt' and k[2] == 'Some':
                        r = 'kv'
                    elif k[0] == 'adt' and k[2] == 'None':
                        r = 'v'
    _FTM[key] = r
    return r


def _forward_view_of_tags(cad, x):
    """x is &self.tags / self.tags.iter() / self.tags.iter().map(|(k, v)| (k.as_deref(), v.as_str())) ..."""
    from .. import symb
    fpath = client_field_path(cad, 'tags')
    # the configured item: a (key, value) tuple, or a private struct of the same two parts
    KF, VF = 0, 1
    from .common import _tag_struct
    for f_ in adt_fields(cad, 'cadence::client::StatsdClient') or []:
        ty_ = f_['ty'].replace(' ', '')
        if ty_.startswith('alloc::vec::Vec<') and _tag_struct(cad, type_head(ty_[len('alloc::vec::Vec<'):-1])):
            KF, VF = _tag_struct(cad, type_head(ty_[len('alloc::vec::Vec<'):-1]))
    y = x
    for _ in range(8):
        y = peel(y)
        if y[0] == 'field' and fpath and y[2] == fpath[-1] and field_path_of(y) == fpath:
            return True, ''
        if y[0] == 'load':
            y = y[1]
            continue
        if y[0] == 'call' and isinstance(y[1], str):
            nm = y[1]
            if nm.endswith('Iterator>::map') and len(y[2]) == 2:
                clo = y[2][1]
                if clo[0] not in ('closure', 'fn'):
                    return False, 'map over a non-literal function'
                r = symb.apply(clo, (('item',),))
                okc = r[0] == 'tuple' and len(r[1]) == 2
                if okc:
                    k, v = r[1]
                    # `k.as_ref().map(String::as_str)` is `k.as_deref()`
                    k = norm(k)
                    if k[0] == 'call' and k[1] == 'core::option::Option::map' and len(k[2]) == 2:
                        f_ = k[2][1]
                        while f_[0] in ('ref', 'unsize'):
                            f_ = f_[1]
                        if f_[0] == 'fn' and f_[1] in ('alloc::string::String::as_str', '<alloc::string::String as core::ops::deref::Deref>::deref',
                                                       '<alloc::string::String as core::convert::AsRef<str>>::as_ref', '<alloc::string::String as core::convert::AsRef>::as_ref'):
                            k = k[2][0]
                    okc = deep_peel(strip_views(k)) == ('field', ('item',), KF) and deep_peel(strip_views(v)) == ('field', ('item',), VF)
                elif r[0] == 'phi':
                    # `match k { Some(k) => (Some(k.as_str()), v), None => (None, v) }` is as_deref() written out: both arms,
                    # the key of the Some arm a view of the item's own key
                    kinds = set()
                    okc = True
                    for leaf in flatten_phi(r):
                        if not (leaf[0] == 'tuple' and len(leaf[1]) == 2 and deep_peel(strip_views(leaf[1][1])) == ('field', ('item',), VF)):
                            okc = False
                            break
                        k = peel(leaf[1][0])
                        if k[0] == 'adt' and k[2] == 'None':
                            kinds.add('None')
                        elif k[0] == 'adt' and k[2] == 'Some' and \
                                deep_peel(strip_views(dict(k[3])['0'])) == ('field', ('payload', ('field', ('item',), KF), 'Some'), '0'):
                            kinds.add('Some')
                        else:
                            okc = False
                    okc = okc and kinds == {'None', 'Some'}
                if not okc:
                    return False, 'the mapping closure does not return (view of key, view of value): %s' % fmt(r)[:80]
                y = y[2][0]
                continue
            if len(y[2]) == 1 and any(nm.endswith(s) for s in VIEW_CALLS):
                y = y[2][0]
                continue
            return False, 'tags pass through %s' % nm
        return False, 'argument is %s' % fmt(y)[:80]
    return False, 'too deep'


def rule_container_override(fm, rep, rid='R3'):
    """A per-call container id replaces the default: the public setter stores unconditionally (last wins, checked by
    R9/setter) and the method the client uses for its default stores only when a default exists."""
    from .. import symb
    cad = fm.cad
    if not fm.need_roles(rep, ('cid',)):
        return
    if not hasattr(fm, '_cid_callees'):
        from ..report import Report
        rule_decoration(fm, Report('scratch'), 'R1', kinds=False)
    # public per-call setter: unconditional overwrite
    pb = one(rep, rid, 'MetricBuilder::with_container_id', cad.method(MB, 'with_container_id'))
    if pb is not None:
        rep.analysed(pb)
        ib = inl(cad, pb)
        T = Terms(ib)
        sts = [(st[1], st[2], st[3], norm(T.store_value(st))) for st in T.stores() if st[0] == 's' and st[3][0] == 'field' and st[3][2] == fm.roles['cid']]
        cond_calls = [bi for bi, t in ib.calls() if not ib.blocks[bi]['cleanup'] and any(k in t.get('callee', '') for k in ('get_or_insert', 'Option::or', 'is_none', 'is_some', 'Option::xor', 'Option::replace', 'Option::take'))]
        ok = len(sts) == 1 and not cond_calls and sts[0][3][0] == 'adt' and sts[0][3][2] == 'Some' and peel(dict(sts[0][3][3])['0']) == ('param', 2)
        if ok:
            # guarded only by the Success state, not by the old value
            for dt, labels, sbi in guards_of(T, sts[0][0]) or []:
                d = norm(dt)
                if d[0] == 'discr' and any(y[0] == 'field' and y[2] == fm.roles['cid'] for y in walk(d)):
                    ok = False
        rep.ob(rid, 'container-id-last-wins', ok, pb.where(), 'with_container_id is an unconditional store of Some(id): a per-call id replaces the default' if ok else
               'with_container_id is not an unconditional overwrite (a per-call id may not replace the client default)')
    for cp in sorted(fm._cid_callees):
        ob = symb._body(cp)
        if ob is None:
            rep.anchor_lost(rid, 'body of %s' % cp)
            continue
        rep.analysed(ob)
        ib = inl(cad, ob)
        T2 = Terms(ib)
        sts = [(st[1], st[2], st[3], norm(T2.store_value(st))) for st in T2.stores() if st[0] == 's' and st[3][0] == 'field' and st[3][2] == fm.roles['cid']]
        ok = len(sts) == 1
        if ok:
            gs = guards_of(T2, sts[0][0]) or []
            ok = any(norm(dt)[0] == 'discr' and strip_views(norm(dt)[1]) == ('param', 2) and ('variant', 'Some') in labels for dt, labels, _ in gs)
            v = sts[0][3]
            pay = dict(v[3])['0'] if v[0] == 'adt' and v[2] == 'Some' else None
            ok = ok and pay is not None and strip_views(pay) == field_of(('payload', ('param', 2), 'Some'), '0', 0)
        rep.ob(rid, 'default-container-id-only-when-configured', ok, ob.where(), '%s(Some(id)) sets id, None leaves the formatter alone' % cp.rsplit('::', 1)[-1] if ok else
               '%s does not set the container id exactly when a default is configured' % cp.rsplit('::', 1)[-1])


def rule_incr_decr(fm, rep, rid='R4'):
    cad = fm.cad
    for meth, const in (('incr_with_tags', '1'), ('decr_with_tags', '-1')):
        ov = [b for b in cad.all_bodies if b.impl_trait == 'cadence::client::CountedExt' and (b.impl_self or '') == SC and b.name == meth]
        df = [b for b in cad.all_bodies if b.j.get('trait_path') == 'cadence::client::CountedExt' and b.name == meth]
        b = ov[0] if ov else (df[0] if df else None)
        if b is None:
            rep.anchor_lost(rid, 'CountedExt::%s' % meth)
            continue
        rep.analysed(b)
        rts = ret_terms(Terms(b), [0])
        ok = False
        if len(rts) == 1:
            r = list(rts)[0]
            ok = r[0] == 'call' and r[1].endswith('Counted>::count_with_tags') and peel(r[2][0]) == ('param', 1) and peel(r[2][1]) == ('param', 2) \
                and r[2][2][0] == 'const' and r[2][2][2] == const and r[2][2][1] == 'i64'
        rep.ob(rid, meth, ok, b.where(), '%s(k) = count_with_tags(k, %s)' % (meth, const) if ok else '%s returns %s' % (meth, [fmt(x) for x in rts]))
    cimpl = [i for i in cad.impls_of('cadence::client::CountedExt') if i.get('self_adt') == SC]
    rep.ob(rid, 'client-implements-CountedExt', len(cimpl) == 1, '', 'impl CountedExt for StatsdClient')


# ------------------------------------------------------------------ C01-R6 prefix
def string_alternatives(T, t, depth=0):
    """Symbolic content of a String valued term: list of alternatives, each a list of atoms ('lit', s) | ('val', term);
    None if some step is not understood.  Handles String::new/with_capacity, format!(..), and a local filled by
    push_str / push calls (the `mutated` chain of reaching borrows)."""
    from .fmtout import _wf_atoms, OutEvents
    t = norm(t)
    while term_callee_is(t, 'core::hint::must_use'):
        t = norm(t[2][0])
    if depth > 8:
        return None
    if t[0] == 'phi':
        out = []
        for x in t[1]:
            r = string_alternatives(T, x, depth + 1)
            if r is None:
                return None
            out.extend(a for a in r if a not in out)
        return out
    if term_callee_is(t, 'alloc::string::String::new') or term_callee_is(t, 'alloc::string::String::with_capacity'):
        return [[]]
    # the same text in another owned form: Box<str> / Arc<str> (`format!(..).into_boxed_str()`, `Box::<str>::default()`)
    if t[0] == 'call' and isinstance(t[1], str) and len(t[2]) == 1 and (
            t[1] == 'alloc::string::String::into_boxed_str' or
            strip_generics(t[1]) in ('<alloc::boxed::Box<str> as core::convert::From<alloc::string::String>>::from', '<alloc::boxed::Box as core::convert::From>::from',
                                     '<alloc::sync::Arc as core::convert::From>::from', '<alloc::string::String as core::convert::Into>::into',
                                     '<T as core::convert::Into>::into')):
        return string_alternatives(T, t[2][0], depth + 1)
    if t[0] == 'call' and isinstance(t[1], str) and not t[2] and strip_generics(t[1]) in (
            '<alloc::boxed::Box as core::default::Default>::default', '<alloc::string::String as core::default::Default>::default',
            '<alloc::boxed::Box<str> as core::default::Default>::default'):
        return [[]]
    if t[0] == 'call' and t[1] in ('alloc::slice::concat', 'alloc::slice::<impl [T]>::concat') and len(t[2]) == 1:
        # `[a, "."].concat()`: the pieces one after the other
        a_ = t[2][0]
        while a_[0] in ('ref', 'unsize', 'deref'):
            a_ = a_[1]
        if a_[0] == 'array':
            atoms = []
            for piece in a_[1]:
                s_ = peel(piece)
                atoms.append(('lit', s_[1]) if s_[0] == 'str' else ('val', s_))
            return [atoms]
        return None
    if term_callee_is(t, 'alloc::fmt::format'):
        try:
            atoms = []
            for a in _wf_atoms(t[2][0]):
                if a[0] == 'lit':
                    atoms.append(('lit', a[1]))
                elif a[1] == 'display' and a[3]:
                    atoms.append(('val', peel(a[2])))
                else:
                    return None
            return [atoms]
        except Exception:
            return None
    if t[0] == 'mutated':
        base = string_alternatives(T, t[1], depth + 1)
        if base is None:
            return None
        bi = t[2][0]
        blk = T.body.blocks[bi]
        if blk['term']['k'] != 'call':
            return None
        ct = norm(T.call_term(bi))
        k = ct[1] if isinstance(ct[1], str) else ''
        if k in OutEvents.PUSH_STR and len(ct[2]) == 2:
            s = peel(ct[2][1])
            atom = ('lit', s[1]) if s[0] == 'str' else ('val', s)
        elif k in OutEvents.PUSH and len(ct[2]) == 2 and ct[2][1][0] == 'const' and ct[2][1][1] == 'char':
            atom = ('lit', chr(int(ct[2][1][2])))
        elif k in ('alloc::string::String::reserve', 'alloc::string::String::shrink_to_fit'):
            return base
        else:
            return None
        return [a + [atom] for a in base]
    return None


def _merge_lits(atoms):
    out = []
    for a in atoms:
        if a[0] == 'lit' and out and out[-1][0] == 'lit':
            out[-1] = ('lit', out[-1][1] + a[1])
        elif a[0] == 'lit' and a[1] == '':
            continue
        else:
            out.append(a)
    return out


def _prefix_stage(cad, body0, out_path, is_input):
    """How a constructor computes the prefix it stores from its input: 'copy' (a plain owned copy / move of the input),
    'normalised' ("" for empty input, else input without trailing dots + "."), or (None, why)."""
    b = inl(cad, body0)
    T = Terms(b)

    def plain_copy(v):
        v = norm(v)
        for _ in range(6):
            if is_input(v):
                return True
            if v[0] == 'call' and isinstance(v[1], str) and len(v[2]) == 1 and (
                    v[1].endswith('as alloc::string::ToString>::to_string') or v[1].endswith('as core::convert::From>::from') or
                    v[1].endswith('as core::convert::Into>::into') or v[1].endswith('ToOwned>::to_owned') or v[1].endswith('::to_owned') or
                    v[1].endswith('as core::clone::Clone>::clone') or v[1].endswith('alloc::string::String::from') or v[1].endswith('::to_string')):
                v = norm(v[2][0])
                continue
            if v[0] in ('ref', 'deref', 'conv', 'unsize', 'autoderef'):
                v = norm(v[1])
                continue
            return False
        return False
    rts = ret_terms(T, [0])
    vals = [get_path(r, out_path) for r in rts]
    if vals and all(plain_copy(v) for v in vals):
        return 'copy', '', b
    sw = []
    for bi, blk in enumerate(b.blocks):
        if blk['term']['k'] == 'switch' and not blk['cleanup'] and not blk.get('dead'):
            d = norm(T.switch_facts(bi)[0])
            if term_callee_is(d, 'core::str::is_empty', 'alloc::string::String::is_empty') and is_input(d[2][0]):
                sw.append(bi)
            elif d[0] == 'bin' and d[1] == 'Eq':
                # `prefix.len() == 0` (either way round)
                a_, c_ = (d[2], d[3]) if d[3][0] == 'const' else (d[3], d[2])
                if c_[0] == 'const' and str(c_[2]) == '0' and term_callee_is(a_, 'core::str::len', 'alloc::string::String::len') and is_input(a_[2][0]):
                    sw.append(bi)
    if len(sw) != 1:
        return None, 'the prefix normalisation has an unexpected shape', b
    dt, edges = T.switch_facts(sw[0])
    te = [s for s, labs in edges.items() if ('bool', True) in labs]
    fe = [s for s, labs in edges.items() if ('bool', False) in labs]

    def prefix_alts(starts):
        Tr = T.restrict(starts)
        outs = []
        for r in ret_terms(Tr, starts):
            alts = string_alternatives(Tr, get_path(r, out_path))
            if alts is None:
                return None
            outs.extend(_merge_lits(a) for a in alts)
        return outs
    a1, a2 = prefix_alts(te), prefix_alts(fe)
    if not (a1 is not None and bool(a1) and all(a == [] for a in a1)):
        return None, 'an empty prefix is not kept empty', b
    if a2 is None or not a2:
        return None, 'cannot follow how a non-empty prefix is rendered', b
    for atoms in a2:
        if not (len(atoms) == 2 and atoms[0][0] == 'val' and atoms[1] == ('lit', '.')):
            return None, 'prefix template is %s' % [(x[0], x[1] if x[0] == 'lit' else fmt(x[1])[:60]) for x in atoms], b
        a = peel(atoms[0][1])
        if not (term_callee_is(a, 'core::str::trim_end_matches') and is_input(a[2][0])):
            return None, 'non-empty prefix is rendered from %s: every trailing dot must be removed (trim_end_matches(\'.\')) before one dot is appended' % fmt(a)[:100], b
        pat = peel(a[2][1])
        if not ((pat[0] == 'const' and pat[1] == 'char' and pat[2] == '46') or pat == ('str', '.')):
            return None, 'prefix trimmed with pattern %s' % fmt(pat), b
    return 'normalised', '', b


def rule_prefix(fm, rep, rid='R6'):
    """The prefix the client formats with is "" for an empty argument, otherwise the argument without trailing dots plus
    one dot.  It travels argument -> builder constructor -> builder field -> client constructor -> client field; exactly
    one of the two constructors normalises (wherever the code lives, helpers inlined), the other one copies."""
    cad = fm.cad
    nb = one(rep, rid, 'StatsdClientBuilder::new', [names(cad).scb_new] if names(cad).scb_new is not None else [])
    fb = one(rep, rid, 'StatsdClient::from_builder', [names(cad).sc_from_builder] if names(cad).sc_from_builder is not None else [])
    bpath, cpath = client_field_path(cad, 'prefix', SCB), client_field_path(cad, 'prefix')
    if nb is None or fb is None:
        return
    if bpath is None or cpath is None:
        rep.anchor_lost(rid, 'prefix field of the builder / the client')
        return
    rep.analysed(nb)
    rep.analysed(fb)

    def in_arg(v):
        return peel(norm(v)) == ('param', 1) or strip_views(norm(v)) == ('param', 1)

    def in_builder_field(v):
        return field_path_of(strip_views(norm(v))) == bpath or field_path_of(norm(v)) == bpath
    k1, why1, b1 = _prefix_stage(cad, nb, bpath, in_arg)
    k2, why2, b2 = _prefix_stage(cad, fb, cpath, in_builder_field)
    for bb_ in (b1, b2):
        for p_, _, _ in getattr(bb_, 'inlined', None) or []:
            if p_ in cad.bodies:
                rep.analysed(cad.bodies[p_])
    ok = (k1, k2) in (('normalised', 'copy'), ('copy', 'normalised'))
    if ok:
        msg = 'empty -> "", otherwise trim_end_matches(\'.\') + "." (in %s), copied unchanged by the other constructor' % ('the builder constructor' if k1 == 'normalised' else 'the client constructor')
    elif (k1, k2) == ('copy', 'copy'):
        msg = 'the prefix is never normalised: builder and client both copy it'
    elif (k1, k2) == ('normalised', 'normalised'):
        msg = 'the prefix is normalised twice'
    else:
        msg = why1 or why2 or 'the prefix normalisation has an unexpected shape'
    rep.ob(rid, 'prefix-normalisation', ok, (nb if k1 != 'copy' else fb).where(), msg)
    rep.ob(rid, 'prefix-normalised-once', ok, nb.where(), 'client.prefix = normalised(prefix argument), exactly once on the way' if ok else 'the client does not store the once-normalised prefix argument')


# ------------------------------------------------------------------ C01-R7 at least one value
def rule_nonempty(fm, rep, rid='R7', check_kind=False):
    """Every path that builds the sendable Success state passes an emptiness test of the value whose true edge is an error."""
    cad = fm.cad
    srcs = []
    for b in cad.all_bodies:
        if b.name != 'try_to_value' or not (b.impl_trait or '').startswith('cadence::client::To'):
            continue
        T = Terms(inl(cad, b))
        from .. import symb
        for r in sorted(set(leaf for r0 in ret_terms(T, [0]) for _, leaf in symb.split_cases(r0)), key=str):
            if r[0] == 'adt' and r[2] == 'Ok':
                v = dict(r[3])['0']
                if v[0] == 'adt' and v[1] == MV and v[2].startswith('Packed'):
                    srcs.append('%s for %s' % (b.impl_trait.rsplit('::', 1)[-1], b.impl_self.replace('alloc::vec::', '').replace('core::time::', '')))
    rep.floor(rid, 'conversions producing packed values', len(srcs), 7)
    ff = [names(cad).mb_from_fmt] if names(cad).mb_from_fmt is not None else []
    b = one(rep, rid, 'MetricBuilder::from_fmt', ff)
    if b is None:
        return
    rep.analysed(b)
    # a private `fn is_empty(&MetricValue) -> bool` stays a call (judged per variant below)
    preds = [x for x in cad.all_bodies if x.def_kind in ('Fn', 'AssocFn') and x.arg_count == 1 and x.locals[0].strip() == 'bool' and
             x.locals[1].lstrip('&').strip() == MV and not x.impl_trait]
    # (jump threading without `==` folding: the rule looks for the emptiness comparison itself; with folding the scalar
    # paths, whose count is the constant 1, would be threaded past it)
    ib = inl(cad, b, thread='noeq', never=lambda x: x in preds)
    T = Terms(ib)
    # where is the Success state constructed?
    succ_blocks = []
    for bi, blk in enumerate(ib.blocks):
        for si, s in enumerate(blk['stmts']):
            if s['k'] == 'assign' and s['rv']['k'] == 'agg' and s['rv'].get('variant') == names(cad).v_success and s['rv'].get('path') == names(cad).mb_enum and not blk['cleanup']:
                succ_blocks.append(bi)
    # anywhere else constructing Success?
    elsewhere = [x for x in cad.all_bodies if x.path != b.path for blk in x.blocks for s in blk['stmts']
                 if s['k'] == 'assign' and s['rv']['k'] == 'agg' and s['rv'].get('variant') == names(cad).v_success and s['rv'].get('path') == names(cad).mb_enum]
    rep.ob(rid, 'success-state-built-in-one-place', len(succ_blocks) == 1 and not elsewhere, b.where(), 'only from_fmt creates the sendable state')
    guarded = False
    why = 'no emptiness guard dominates the construction of the sendable builder state'
    # paths on which the count is a known constant >= 1 (the scalar variants) are threaded past the emptiness test to its
    # "not empty" side: they do not count as ways around the guard
    by_pass = set()
    for bi_, blk_ in enumerate(ib.blocks):
        tm_ = blk_['term']
        if tm_.get('threaded') and tm_.get('from_switch') is not None and ib.blocks[tm_['from_switch']]['term']['k'] == 'switch':
            sw_ = tm_['from_switch']
            dt_, edges_ = T.switch_facts(sw_)
            nonempty_ = [s_ for s_, labs_ in edges_.items() if any(l_[0] == 'otherwise' and tuple(l_[1]) == ('0',) for l_ in labs_)]
            if _is_count_of_val(norm(dt_), fm, ib, T) and tm_['target'] in nonempty_:
                by_pass.add(bi_)
    for sbk in succ_blocks:
        for dt, labels, sbi in guards_of(T, sbk, removed=by_pass) or []:
            d = norm(dt)
            # count(val) == 0  false edge ;  or is_empty false
            cnt = None
            truth = None
            if d[0] == 'bin' and d[1] in ('Eq', 'Ne', 'Gt', 'Lt', 'Ge', 'Le'):
                def atom(t):
                    return 'n' if _is_count_of_val(t, fm, ib, T) else None
                for lab in labels:
                    if lab[0] == 'bool':
                        try:
                            g = L.guard_ge0(d, lab[1], atom)
                            if L.entails(g, L.Lin({'n': 1}, -1)):
                                guarded = True
                        except L.Unknown:
                            if d[1] in ('Eq', 'Ne') and atom(d[2]) and d[3][0] == 'const' and d[3][2] == '0':
                                if (d[1] == 'Ne') == lab[1]:
                                    guarded = True
            elif _is_count_of_val(d, fm, ib, T) and any(l[0] == 'otherwise' and tuple(l[1]) == ('0',) for l in labels):
                guarded = True          # `match count { 0 => reject, _ => .. }`: the "anything but 0" edge
            elif d[0] == 'call' and any(strip_generics(x.path) == d[1] for x in preds) and ('bool', False) in labels:
                okp, whyp = _emptiness_predicate(cad, [x for x in preds if strip_generics(x.path) == d[1]][0])
                if okp:
                    guarded = True
                else:
                    why = whyp
            elif term_callee_is(d, '::is_empty') and ('bool', False) in labels:
                guarded = True
    if guarded:
        # the counting function must really count every packed variant
        cnt_ok, why2 = _count_is_len(fm)
        if not cnt_ok:
            guarded = False
            why = why2
    # the guard's other edge is an error
    if guarded:
        rts = ret_terms(T, [0])
        errs = [r for r in rts if r[0] == 'adt' and any(y[0] == 'adt' and y[1] == names(cad).mb_enum and y[2] == names(cad).v_error for y in walk(r))]
        if not errs:
            guarded = False
            why = 'the empty case does not become the Error state'
        else:
            # ... of the invalid-input kind (C03: "an invalid-input-kind error when the value was rejected")
            kinds = set(y[2] for r in errs for y in walk(r) if y[0] == 'adt' and isinstance(y[1], str) and y[1].endswith('types::ErrorKind'))
            for bi_, t_ in ib.calls():
                if not ib.blocks[bi_]['cleanup']:
                    kinds |= set(y[2] for y in walk(norm(T.call_term(bi_))) if y[0] == 'adt' and isinstance(y[1], str) and y[1].endswith('types::ErrorKind'))
            if check_kind and kinds and kinds != {'InvalidInput'}:
                guarded = False
                why = 'the rejection of an empty list is reported with ErrorKind::%s, not InvalidInput' % sorted(kinds - {'InvalidInput'})[0]
    if guarded:
        # ... and nothing else is turned away here: every place in from_fmt that builds the Error state lies behind the
        # "empty" edge of the emptiness test and behind no other condition (a size limit, a kind whitelist ..)
        fe = names(cad).mb_from_error
        err_blocks = [bi for bi, t_ in ib.calls() if not ib.blocks[bi]['cleanup'] and fe is not None and t_.get('resolved') == fe.path]
        for bi, blk in enumerate(ib.blocks):
            for s in blk['stmts']:
                if s['k'] == 'assign' and s['rv']['k'] == 'agg' and s['rv'].get('variant') == names(cad).v_error and s['rv'].get('path') == names(cad).mb_enum and not blk['cleanup']:
                    err_blocks.append(bi)

        def empty_edge(d, labels):
            if _is_count_of_val(d, fm, ib, T):
                return ('int', 0) in labels
            if d[0] == 'bin':
                def atom(t_):
                    return 'n' if _is_count_of_val(t_, fm, ib, T) else None
                for lab in labels:
                    if lab[0] == 'bool':
                        try:
                            if L.entails(L.guard_ge0(d, lab[1], atom), L.Lin({'n': -1}, 0)):
                                return True
                        except L.Unknown:
                            if d[1] in ('Eq', 'Ne') and atom(d[2]) and d[3][0] == 'const' and d[3][2] == '0' and (d[1] == 'Eq') == lab[1]:
                                return True
                return False
            if d[0] == 'call' and (any(strip_generics(x.path) == d[1] for x in preds) or term_callee_is(d, '::is_empty')):
                return ('bool', True) in labels
            return False
        only = bool(err_blocks)
        for eb in err_blocks:
            gs_ = guards_of(T, eb) or []
            if not gs_ or not all(empty_edge(norm(dt), labels) for dt, labels, _ in gs_):
                only = False
        rep.ob(rid, 'rejects-only-empty-lists', only, b.where(), 'from_fmt turns a value away only when it is a list without elements' if only else
               'from_fmt also rejects values for another reason than "no elements": a valid value is refused and nothing is sent')
    if guarded:
        rep.good(rid, 'packed-values-non-empty', b.where(), 'a value without elements becomes InvalidInput before the sendable state exists (%d packed sources)' % len(srcs))
    else:
        for s in sorted(set(srcs)):
            rep.bad(rid, s, b.where(), 'an empty Vec is accepted and rendered as "key:|type" - a line without any value (%s)' % why)


def _emptiness_predicate(cad, pb):
    """pb: fn(&MetricValue) -> bool.  True for every packed variant exactly when its list is empty?"""
    T = Terms(pb)
    if pb.blocks[0]['term']['k'] != 'switch':
        # `self.count() == 0` (the counting function is checked by the caller: it must count every packed variant)
        cnt = names(cad).mv_count
        rts = ret_terms(T, [0])
        if cnt is not None and len(rts) == 1:
            r = list(rts)[0]
            if r[0] == 'bin' and r[1] == 'Eq':
                a, c = (r[2], r[3]) if r[3][0] == 'const' else (r[3], r[2])
                if c[0] == 'const' and str(c[2]) == '0' and a[0] == 'call' and a[1] == strip_generics(cnt.path) and len(a[2]) == 1 and peel(a[2][0]) == ('param', 1):
                    return True, ''
        return False, 'the emptiness predicate is not a match on the value'
    dt, edges = T.switch_facts(0)
    seen = {}
    for s, labs in edges.items():
        for lab in labs:
            nms = [lab[1]] if lab[0] == 'variant' else (list(lab[1]) if lab[0] == 'variants' else [])
            for nm in nms:
                seen[nm] = ret_terms(T, [s])
    for v in ('PackedSigned', 'PackedUnsigned', 'PackedFloat'):
        r = seen.get(v)
        ok = r is not None and len(r) == 1 and term_callee_is(list(r)[0], 'alloc::vec::Vec::is_empty') and \
            any(y[0] == 'payload' and y[2] == v for y in walk(list(r)[0]))
        if not ok:
            return False, 'the emptiness predicate does not test the list of %s (returns %s)' % (v, [fmt(x) for x in (r or [])])
    return True, ''


def _is_count_of_val(t, fm, body, T):
    t = norm(t)
    cnt = names(fm.cad).mv_count
    if t[0] == 'call' and isinstance(t[1], str) and cnt is not None and t[1] == strip_generics(cnt.path):
        return True
    # inlined count(): phi of len(payload Packed*) | 1
    parts = flatten_phi(t)
    if len(parts) >= 2 and all((p[0] == 'const' and p[2] == '1') or (p[0] == 'call' and p[1].endswith('::len')) for p in parts):
        return True
    return False


def _count_is_len(fm):
    cad = fm.cad
    cb = [role_names(cad).mv_count] if role_names(cad).mv_count is not None else []
    if len(cb) != 1:
        return True, ''     # no helper: guard was on is_empty/len directly
    b = cb[0]
    T = Terms(b)
    if b.blocks[0]['term']['k'] != 'switch':
        return False, 'MetricValue::count has an unexpected shape'
    dt, edges = T.switch_facts(0)
    seen = {}
    for s, labs in edges.items():
        for lab in labs:
            names = [lab[1]] if lab[0] == 'variant' else (list(lab[1]) if lab[0] == 'variants' else [])
            for nm in names:
                seen[nm] = ret_terms(T, [s])
    for v in ('PackedSigned', 'PackedUnsigned', 'PackedFloat'):
        r = seen.get(v)
        ok = r is not None and len(r) == 1 and term_callee_is(list(r)[0], 'alloc::vec::Vec::len') and \
            any(y[0] == 'payload' and y[2] == v for y in walk(list(r)[0]))
        if not ok:
            return False, 'MetricValue::count() does not return the length of %s (returns %s): the emptiness guard misses that variant' % (
                v, [fmt(x) for x in (r or [])])
    return True, ''
