"""Socket sinks: C13 (exact bytes, destination) and C14 (telemetry pairing / classification / shared counters)."""
from .. import cfg as C
from ..terms import Terms, norm, fmt, walk, field_of
from .common import *
from .sinks import SINK_TRAIT, SEND_CALLS, is_whole_param, adapters, buffered_sinks, _ctor_bodies

SS = 'cadence::sinks::core::SocketStats'
SOCK_SEND = ('std::net::udp::UdpSocket::send_to', 'std::os::unix::net::datagram::UnixDatagram::send_to',
             'std::net::udp::UdpSocket::send', 'std::os::unix::net::datagram::UnixDatagram::send',
             'std::os::unix::net::datagram::UnixDatagram::send_to_addr', 'std::os::unix::net::datagram::UnixDatagram::send_vectored')
UNBUFFERED_ADTS = [('cadence::sinks::udp::UdpMetricSink', 'core::net::socket_addr::SocketAddr', 'std::net::udp::UdpSocket'),
                   ('cadence::sinks::unix::UnixMetricSink', 'std::path::PathBuf', 'std::os::unix::net::datagram::UnixDatagram')]


def _field_of_type(cad, adt, ty):
    hits = [f['name'] for f in adt_fields(cad, adt) or [] if f['ty'] == ty or type_head(f['ty']) == ty]
    return hits[0] if len(hits) == 1 else None


def unbuffered(cad):
    """(adt, destination field, socket field) - fields found by their types"""
    # the destination field is whatever field the send site addresses (found in rule_unbuffered): its type is the
    # sink's business (SocketAddr / PathBuf / Box<Path> ...)
    return [(adt, None, _field_of_type(cad, adt, sty)) for adt, dty, sty in UNBUFFERED_ADTS]


def stats_update(cad):
    """the SocketStats method that classifies a send result: takes an io::Result<usize>"""
    return [b for b in cad.all_bodies if b.impl_self and type_head(b.impl_self) == SS and b.impl_trait is None and b.def_kind == 'AssocFn'
            and any(b.locals[i].replace(' ', '').startswith('core::result::Result<usize,std::io::error::Error>') for i in range(1, b.arg_count + 1))]


def stats_field(cad, adt):
    return _field_of_type(cad, adt, SS)


def _emit_of(cad, adt):
    impl = [i for i in cad.impls_of(SINK_TRAIT) if i.get('self_adt') == adt]
    if len(impl) != 1:
        return None, None
    items = {it['name']: it['path'] for it in impl[0]['items']}
    return cad.bodies.get(items.get('emit')), items


def rule_unbuffered(ctx, rep, rid='R1'):
    cad = ctx.cad
    dests = {}
    for adt, dest_field, sock_field in unbuffered(cad):
        name = adt.rsplit('::', 1)[-1]
        if sock_field is None:
            rep.anchor_lost(rid, 'socket field of %s' % name)
            continue
        b, items = _emit_of(cad, adt)
        if b is None:
            rep.anchor_lost(rid, 'impl MetricSink for %s' % name)
            continue
        rep.analysed(b)
        upd_path = [x.path for x in stats_update(cad)]
        b = inl(cad, b, never=lambda x: x.path in upd_path)
        T = Terms(b)
        sends = [bi for bi, t in b.calls() if callee_is(t, *SOCK_SEND) and not b.blocks[bi]['cleanup']]
        rep.sites(len(sends))
        cnt = count_events(b, lambda x: x in sends)
        ok = bool(sends) and cnt == {1}
        rep.ob(rid, '%s/one-datagram-per-emit' % name, ok, b.where(sends[0]) if sends else b.where(), 'exactly one send_to per emit' if ok else 'emit performs %s sends' % sorted(cnt))
        if not ok:
            continue
        dest_field = None
        first_bad = {}
        cts = []
        for sb_ in sends:
            ct = norm(T.call_term(sb_))
            cts.append(ct)
            okk = ct[1].endswith('::send_to') or ct[1].endswith('::send_to_addr')
            okp = is_whole_param(ct[2][1], 2) and not any(y[0] == 'call' and isinstance(y[1], str) and ('trim' in y[1] or 'index' in y[1].lower() or 'split' in y[1] or 'get' in y[1].rsplit('::', 1)[-1]) for y in walk(ct[2][1]))
            if not okp:
                first_bad.setdefault('payload', (sb_, 'payload is %s' % fmt(ct[2][1])[:100]))
            df = self_field_name(ct[2][2]) if okk else None
            okd = okk and df is not None and df != sock_field and self_field_name(ct[2][0]) == sock_field and dest_field in (None, df)
            if okd:
                dest_field = df
            else:
                first_bad.setdefault('dest', (sb_, 'destination is %s' % (fmt(ct[2][2])[:80] if okk else '(connected send)')))
        dests[adt] = dest_field
        rep.ob(rid, '%s/payload-is-the-metric-bytes' % name, 'payload' not in first_bad, b.where(first_bad.get('payload', (sends[0],))[0]),
               'payload = metric.as_bytes(), whole' if 'payload' not in first_bad else first_bad['payload'][1])
        rep.ob(rid, '%s/destination-is-the-configured-one' % name, 'dest' not in first_bad, b.where(first_bad.get('dest', (sends[0],))[0]),
               'sent on self.%s to self.%s' % (sock_field, dest_field) if 'dest' not in first_bad else first_bad['dest'][1])
        # result through SocketStats::update, returned
        rts = ret_terms(T, [0])
        okr = bool(rts) and all(any(term_callee_is(r_, strip_generics(u)) for u in upd_path) and any(x_ in cts for x_ in flatten_phi(r_[2][1])) for r_ in rts)
        rep.ob(rid, '%s/returns-socket-result' % name, okr, b.where(), 'returns update(send result, len): the socket\'s own count or error' if okr else 'emit returns %s' % [fmt(x)[:100] for x in rts])
        # destination field is written only in the constructor from the constructor's argument
        for cb in _ctor_bodies(cad, adt) if dest_field is not None else []:
            rep.analysed(cb)
            ib = inl(cad, cb)
            Tc = Terms(ib)
            rr = ret_terms(Tc, [0])
            okc = False
            msg = ''
            for r in rr:
                agg = r
                if r[0] == 'adt' and r[2] == 'Ok':
                    agg = dict(r[3])['0']
                if agg[0] == 'adt' and agg[1] == adt:
                    d = dict(agg[3]).get(dest_field)
                    if adt.endswith('UdpMetricSink'):
                        # first address yielded by to_socket_addrs(arg1)
                        okc = any(y[0] == 'call' and y[1].endswith('Iterator>::next') for y in walk(d)) and \
                            any(y[0] == 'call' and y[1].endswith('ToSocketAddrs>::to_socket_addrs') and peel(y[2][0]) == ('param', 1) for y in walk(d)) and \
                            not any(y[0] == 'call' and any(k in y[1] for k in ('::last', '::nth', '::skip', '::rev', '::max', '::min')) for y in walk(d))
                    else:
                        okc = _converted_from(d, ('param', 1))
                    msg = fmt(d)[:120]
                    oks = dict(agg[3]).get(sock_field) == ('param', 2)
                    okc = okc and oks
            rep.ob(rid, '%s::%s/destination-from-argument' % (name, cb.name), okc, cb.where(), 'destination = the constructor argument (first resolved address / the path), socket = the given socket' if okc else 'constructor stores %s' % msg)
    # frame: nobody else writes addr/path (fields private, only aggregates in constructors): stores through pointers
    offenders = []
    protected = set(x for a_, _, s_ in unbuffered(cad) for x in (dests.get(a_), s_) if x)
    for b in cad.all_bodies:
        if not any(in_module_of(b, a_) for a_, _, _ in UNBUFFERED_ADTS):
            continue
        for bi, blk in enumerate(b.blocks):
            for si, s in enumerate(blk['stmts']):
                if s['k'] == 'assign' and any(e[0] == 'deref' for e in s['place']['p']) and \
                        any(e[0] == 'field' and e[2] in protected for e in s['place']['p']):
                    offenders.append((b, bi, si))
    rep.ob(rid, 'destination-never-reassigned', not offenders, offenders[0][0].where(offenders[0][1], offenders[0][2]) if offenders else '', 'addr/path/socket are set once, at construction')


def rule_get_addr(ctx, rep, rid='R2'):
    cad = ctx.cad
    # the private resolver: the function of udp.rs that calls ToSocketAddrs::to_socket_addrs
    bs = [b for b in cad.all_bodies if in_module_of(b, UNBUFFERED_ADTS[0][0]) and b.def_kind in ('Fn', 'AssocFn') and '::tests::' not in b.path and
          any(callee_is(t, 'ToSocketAddrs>::to_socket_addrs', 'core::net::socket_addr::ToSocketAddrs::to_socket_addrs', 'std::net::socket_addr::ToSocketAddrs::to_socket_addrs') for _, t in b.calls())]
    b = one(rep, rid, 'udp::get_addr', bs)
    if b is None:
        return
    rep.analysed(b)
    b = inl(cad, b)         # a private `first_addr(candidates)` helper is part of the resolver
    T = Terms(b)
    nx = [bi for bi, t in b.calls() if callee_is(t, 'Iterator>::next') and not b.blocks[bi]['cleanup']]
    other = [bi for bi, t in b.calls() if not b.blocks[bi]['cleanup'] and any(t.get('callee', '').endswith(k) or (k + '<') in t.get('callee', '') for k in ('::last', '::nth', '::skip', '::rev', '::collect', '::max', '::min', '::filter'))]
    ok = len(nx) == 1 and not other and count_events(b, lambda x: x in nx) <= {0, 1}
    if ok:
        # what next() is called on is what to_socket_addrs() returned (through `?` and at most an identity into_iter())
        recv = norm(T.call_term(nx[0]))[2][0]
        cs = [y[1] for y in walk(recv) if y[0] == 'call' and isinstance(y[1], str)]
        ok = any(c.endswith('ToSocketAddrs>::to_socket_addrs') or c.endswith('ToSocketAddrs::to_socket_addrs') for c in cs) and \
            all(c.endswith(('ToSocketAddrs>::to_socket_addrs', 'ToSocketAddrs::to_socket_addrs', 'Try>::branch', 'IntoIterator>::into_iter')) for c in cs)
    rep.ob(rid, 'first-address', ok, b.where(nx[0]) if nx else b.where(), 'takes to_socket_addrs()?.next(): the first address' if ok else 'the destination is not the first resolved address')
    if ok:
        nct = norm(T.call_term(nx[0]))
        rc = result_cases(T, nx[0])
        rn, ro = rc['err'], rc['ok']
        # `?` on to_socket_addrs() returns before next() is reached: those returns carry no assumption about next()
        g = bool(rn) and all(r[0] == 'adt' and r[2] == 'Err' and any(y[0] == 'adt' and y[2] == 'InvalidInput' for y in walk(r)) for r in rn) and \
            ro == {('adt', 'core::result::Result', 'Ok', (('0', field_of(('payload', nct, 'Some'), '0', 0)),))}
        rep.ob(rid, 'none-is-invalid-input', g, b.where(), 'no address => InvalidInput; Some(a) => Ok(a)')


def rule_pairing(ctx, rep, rid='R1'):
    """C14-R1: every socket send in library code is classified by SocketStats::update with the same buffer's length,
    on every path."""
    cad = ctx.cad
    n = 0
    upd = stats_update(cad)
    if len(upd) != 1:
        rep.anchor_lost(rid, 'SocketStats::update')
        return
    # bodies that send, directly or through private helpers; helpers that are only called by such bodies are judged
    # inside their callers (inlined), where `stats`/`socket` are the caller's own fields
    direct = [x for x in cad.all_bodies if not x.file.endswith('test.rs') and
              any(callee_is(t, *SOCK_SEND) and not x.blocks[bi]['cleanup'] for bi, t in x.calls())]
    helper_paths = set()
    for x in direct:
        if x.j.get('reachable') or x.def_kind == 'Closure':
            continue
        if x.impl_trait is not None and not x.impl_trait.startswith('cadence::'):
            continue        # an impl of a std trait (io::Write ..) is an entry point
        callers = [y for y in cad.all_bodies for _, t in y.calls() if t.get('resolved') == x.path or
                   (x.impl_trait and strip_generics(t.get('callee_full', '')) == '<Self as %s>::%s' % (x.impl_trait, x.name))]
        if callers:
            helper_paths.add(x.path)
    # entry points: bodies that send themselves, or reach a sending helper once private helpers (incl. default methods of
    # private traits, devirtualised for the concrete Self) are inlined
    entries = []
    for x in cad.all_bodies:
        if x.file.endswith('test.rs') or x.path in helper_paths or x.def_kind == 'Closure':
            continue
        if x in direct or any(t.get('resolved') in helper_paths for _, t in x.calls()):
            entries.append(x)
        elif x.impl_self and x.impl_trait is not None and helper_paths and \
                any(t.get('resolved_local') for _, t in x.calls()):
            ib_ = inl(cad, x, never=lambda y: y.path == upd[0].path)
            if any(callee_is(t, *SOCK_SEND) and not ib_.blocks[bi]['cleanup'] for bi, t in ib_.calls()):
                entries.append(x)
    self_accounting = set()
    for b0 in entries:
        b = inl(cad, b0, never=lambda x: x.path == upd[0].path)
        sends = [bi for bi, t in b.calls() if callee_is(t, *SOCK_SEND) and not b.blocks[bi]['cleanup']]
        if not sends:
            continue
        rep.analysed(b0)
        T = Terms(b)
        ups = [bi for bi, t in b.calls() if t.get('resolved') == upd[0].path and not b.blocks[bi]['cleanup']]
        for sbi in sends:
            n += 1
            rep.sites()
            sct = norm(T.call_term(sbi))
            inst = '%s' % b.short().replace('cadence::sinks::', '')
            mine = [u for u in ups if norm(T.call_term(u))[2][1] == sct]
            mp = bool(mine) and C_must_pass(b, sbi, set(mine))
            if not mine:
                # the result is not handed to update(): the caller classifies it itself (match on the result, then private
                # record_* helpers).  Same obligation, stated on the counters: Ok edge -> bytes_sent += n|len, packets_sent += 1;
                # Err edge -> bytes_dropped += len, packets_dropped += 1; each exactly once on every path, nothing else.
                why_ = _accounts_itself(cad, b0, sct)
                if why_ is None:
                    rep.good(rid, '%s/every-attempt-classified' % inst, b.where(sbi), 'the caller books the send result itself: sent/dropped counters, once each, on every path')
                    self_accounting.add(b0.path)
                    continue
            rep.ob(rid, '%s/every-attempt-classified' % inst, mp, b.where(sbi),
                   'the send result goes to SocketStats::update on every path' if mp else
                   'a send attempt can complete without being recorded by SocketStats::update (some path skips the classification)')
            for u in mine:
                uct = norm(T.call_term(u))
                ln = uct[2][2]
                okl = ln[0] == 'call' and ln[1].endswith('::len') and strip_views(ln[2][0]) == strip_views(sct[2][1])
                rep.ob(rid, '%s/dropped-size-is-the-datagram-size' % inst, okl, b.where(u), 'update(.., len of the very buffer sent)' if okl else 'update is given %s as size of a %s datagram' % (fmt(ln)[:60], fmt(sct[2][1])[:60]))
                oks = self_field_name(uct[2][0]) is not None and self_field_name(uct[2][0]) == stats_field(cad, type_head(b.impl_self or ''))
                if not oks:
                    # the counters may sit deeper inside self (an adapter built around the unbuffered sink: self.sink.stats)
                    r_ = uct[2][0]
                    while r_[0] in ('ref', 'deref', 'field', 'load', 'autoderef'):
                        r_ = r_[1]
                    oks = r_ == ('param', 1) and leaf_field_name(uct[2][0]) is not None
                rep.ob(rid, '%s/uses-own-stats' % inst, oks, b.where(u), 'recorded in self.stats')
    rep.floor(rid, 'socket send sites', n, 4)
    # who may call incr_*
    bad = []
    # private helpers of SocketStats that are only called (transitively) from update count as part of update
    region = {upd[0].path}
    changed = True
    while changed:
        changed = False
        for x in cad.all_bodies:
            if x.path in region or not (x.impl_self and type_head(x.impl_self) == SS) or x.j.get('reachable'):
                continue
            callers = set(y.path for y in cad.all_bodies for _, t in y.calls() if t.get('resolved') == x.path)
            if callers and callers <= region and any(cc.path in region for cc in cad.all_bodies if any(t.get('resolved') == x.path for _, t in cc.calls())):
                if not x.name.startswith('incr_'):
                    region.add(x.path)
                    changed = True
    # counter-bumping helpers of SocketStats that are not public API may also be used by a caller that books its own send
    # (checked above, with those helpers inlined)
    bumpers = set(x.path for x in cad.all_bodies if x.impl_self and type_head(x.impl_self) == SS and not x.impl_trait and
                  any(callee_is(t_, 'core::sync::atomic::Atomic::fetch_add') or (t_.get('resolved') or '').startswith(SS + '::incr_') for _, t_ in x.calls()))
    region |= set(p_ for p_ in bumpers if p_ != upd[0].path and not cad.bodies[p_].name.startswith('incr_') and
                  all(y.path in region or y.path in self_accounting or y.path in bumpers for y in cad.all_bodies
                      for _, t_ in y.calls() if t_.get('resolved') == p_))
    for x in cad.all_bodies:
        for bi, t in x.calls():
            r = t.get('resolved') or ''
            if r.startswith(SS + '::incr_') and x.path not in region and not any(x.path.startswith(p_ + '::{closure') for p_ in region):
                bad.append((x, bi))
    rep.ob(rid, 'counters-incremented-only-by-update', not bad, bad[0][0].where(bad[0][1]) if bad else '', 'incr_* are called from update only' if not bad else 'counters also bumped from %s' % [x.short() for x, _ in bad])


def _accounts_itself(cad, b0, sct0):
    """None if body b0 (everything local inlined) books each outcome of its send exactly; else a reason."""
    roles = stat_roles(cad)
    if roles is None:
        return 'counter roles unknown'
    ib = inl(cad, b0)
    T = Terms(ib)
    sends = [bi for bi, t in ib.calls() if callee_is(t, *SOCK_SEND) and not ib.blocks[bi]['cleanup']]
    if len(sends) != 1:
        return '%d send sites after inlining' % len(sends)
    sbi = sends[0]
    sct = norm(T.call_term(sbi))
    ok_s, er_s, _sw = outcomes(T, sbi)
    if not ok_s or not er_s:
        return 'the send result is not examined'
    fa = {}
    for bi, t in ib.calls():
        if not ib.blocks[bi]['cleanup'] and callee_is(t, 'core::sync::atomic::Atomic::fetch_add', 'core::sync::atomic::Atomic::store',
                                                     'core::sync::atomic::Atomic::swap', 'core::sync::atomic::Atomic::fetch_sub'):
            fa[bi] = True
    n_ok = field_of(('payload', sct, 'Ok'), '0', 0)

    def is_len(a):
        a = a[4] if a[0] == 'cast' else a
        return a[0] == 'call' and isinstance(a[1], str) and a[1].endswith('::len') and strip_views(a[2][0]) == strip_views(sct[2][1])

    def amt_n(a):
        a2 = a[4] if a[0] == 'cast' else a
        return a2 == n_ok or is_len(a)

    def amt_one(a):
        return a[0] == 'const' and a[2] == '1'
    for starts, want, known in ((ok_s, {roles['bytes_sent']: amt_n, roles['packets_sent']: amt_one}, 'Ok'),
                                (er_s, {roles['bytes_dropped']: is_len, roles['packets_dropped']: amt_one}, 'Err')):
        Tr, seen = freach(T, list(starts), known={sct: known})
        got = {}
        for bi in fa:
            if bi in seen:
                ctr = norm(Tr.call_term(bi))
                got.setdefault(leaf_field_name(ctr[2][0]), []).append((ctr[1].rsplit('::', 1)[-1], ctr[2][1], bi))
        for fld, amount_ok in want.items():
            ops = got.get(fld, [])
            if len(ops) != 1 or ops[0][0] != 'fetch_add' or not amount_ok(ops[0][1]):
                return 'on the %s edge %s is updated by %s' % (known, fld, [(o_, fmt(a_)[:60]) for o_, a_, _ in ops])
            if not all(C.must_pass(ib, s_, set(C.exits(ib, False)), {ops[0][2]}) for s_ in starts):
                return 'on the %s edge %s is not updated on every path' % (known, fld)
        extra = [f_ for f_ in got if f_ not in want]
        if extra:
            return 'on the %s edge %s is touched as well' % (known, extra)
    return None


SOCK_TYPES = ('std::net::udp::UdpSocket::', 'std::os::unix::net::datagram::UnixDatagram::')
SOCK_HARMLESS = ('send_to', 'send_to_addr', 'try_clone', 'local_addr', 'peer_addr', 'take_error', 'as_raw_fd', 'as_fd')


def rule_socket_untouched(ctx, rep, rid='R4s'):
    """The socket belongs to the caller: apart from `send_to(bytes, stored destination)` the library neither reconfigures
    it (set_nonblocking, timeouts, ttl ..) nor binds it to a peer (connect + send) nor shuts it down.  A changed blocking
    mode or a connection made once decides later whether - and where - buffered lines can be sent."""
    cad = ctx.cad
    n = 0
    bad = []
    for b in cad.all_bodies:
        if b.file.endswith('/test.rs') or '::tests::' in b.path:
            continue
        for bi, t in b.calls():
            k = strip_generics(t.get('callee_full', '') or '')
            for st in SOCK_TYPES:
                if k.startswith(st):
                    n += 1
                    meth = k[len(st):]
                    if meth not in SOCK_HARMLESS and not b.blocks[bi]['cleanup']:
                        bad.append((b, bi, meth))
    rep.floor(rid, 'socket method calls in the library', n, 2)       # at least one UDP and one Unix send site
    rep.sites(n)
    rep.ob(rid, 'socket-only-sent-to', not bad, bad[0][0].where(bad[0][1]) if bad else '',
           'the only thing the library does with the caller\'s socket is send_to' if not bad else
           '%s' % sorted(set('%s calls %s() on the socket' % (b_.short(), m_) for b_, _, m_ in bad)))


def _payload_root(t):
    """as_bytes(&*metric) -> metric ; &*buf -> buf"""
    p = peel(t)
    if p[0] == 'call' and p[1].endswith('::as_bytes'):
        return p[2][0]
    return t


def C_must_pass(b, start, targets):
    succ = b.succs(start, False)
    return all(C.must_pass(b, s, set(C.exits(b, False)), targets) for s in succ)


UNSIGNED_BITS = {'u8': 8, 'u16': 16, 'u32': 32, 'u64': 64, 'usize': 64, 'u128': 128}


def peel_widening(v):
    """`load(..) as u64` -> (load(..), 'u32'): an integer cast between unsigned types standing between an atomic counter and the
    u64 figure it is reported as (the counter's own width is judged by the width rule, not by the shape rule); anything else is
    returned unchanged with width 'u64'"""
    w_ = 'u64'
    while True:
        if v[0] == 'cast' and v[1] == 'IntToInt' and v[2] in UNSIGNED_BITS and v[3] in UNSIGNED_BITS:
            if UNSIGNED_BITS[v[2]] < UNSIGNED_BITS[w_]:
                w_ = v[2]
            v = v[4]
        elif v[0] == 'call' and isinstance(v[1], str) and len(v[2]) == 1 and \
                v[1] in ('<u64 as core::convert::From>::from', '<u128 as core::convert::From>::from'):
            v = v[2][0]         # u64::from(narrower): the width is read off the counter's declared type (atomic_width)
        else:
            return v, w_


def atomic_width(cad, adt, field, seen='u64'):
    """declared width of an atomic counter field (`AtomicU16`, `Arc<AtomicU32>` ..), the narrower of it and what the casts showed"""
    import re as _re
    for f in adt_fields(cad, adt) or []:
        if f['name'] == field:
            m_ = _re.search(r'Atomic<(u\w+)>', f['ty'])
            if m_ and m_.group(1) in UNSIGNED_BITS and UNSIGNED_BITS[m_.group(1)] < UNSIGNED_BITS[seen]:
                return m_.group(1)
            if m_ and m_.group(1) == 'usize' and seen == 'u64':
                return 'usize'
    return seen


def stat_roles(cad):
    """public SinkStats field -> the private SocketStats counter it is read from (from `From<&SocketStats> for SinkStats`);
    None unless the four public figures come from four distinct counters"""
    # the snapshot function(s): `From<&SocketStats> for SinkStats` and/or an inherent `snapshot(&self) -> SinkStats`
    fr = [b for b in cad.all_bodies if b.def_kind in ('Fn', 'AssocFn') and b.arg_count == 1 and
          b.locals[1].lstrip('&').strip() == SS and b.locals[1].startswith('&') and b.locals[0].strip() == 'cadence::sinks::core::SinkStats']
    if not fr:
        return None
    res = None
    for f_ in fr:
        rts = ret_terms(Terms(inl(cad, f_)), [0])
        if len(rts) == 1 and term_callee_is(list(rts)[0], 'as core::convert::Into>::into', 'as core::convert::From>::from') and \
                peel(list(rts)[0][2][0]) == ('param', 1):
            continue            # a plain delegation to the conversion (judged there)
        if len(rts) != 1 or list(rts)[0][0] != 'adt':
            return None
        out = {}
        for n_, v in list(rts)[0][3]:
            v, w_ = peel_widening(v)
            if not term_callee_is(v, 'core::sync::atomic::Atomic::load'):
                return None
            out[n_] = leaf_field_name(v[2][0])
            cad.__dict__.setdefault('_stat_widths', {})[n_] = atomic_width(cad, SS, out[n_], w_)
        if len(out) != 4 or len(set(out.values())) != 4 or None in out.values():
            return None
        if res is not None and res != out:
            return None         # two snapshot functions that disagree
        res = out
    return res


def rule_classification(ctx, rep, rid='R2'):
    cad = ctx.cad
    roles = stat_roles(cad)
    if roles is None or not all(k in roles for k in ('bytes_sent', 'packets_sent', 'bytes_dropped', 'packets_dropped')):
        rep.unknown(rid, 'update/counter-roles', '', 'cannot tell which SocketStats counter feeds which public figure')
        return
    upd = stats_update(cad)
    if len(upd) != 1:
        return
    b = upd[0]
    rep.analysed(b)
    ib = inl(cad, b)
    T = Terms(ib)
    def through_views(x):
        # `res.as_ref()` / `&res`: the same result, looked at by reference
        x = norm(x)
        while True:
            if x[0] in ('ref', 'deref'):
                x = x[1]
            elif x[0] == 'call' and isinstance(x[1], str) and x[1] in ('core::result::Result::as_ref',) and len(x[2]) == 1:
                x = x[2][0]
            else:
                return x

    def unview(x):
        # payload seen through as_ref(): `*(res.as_ref() as Ok).0` is `(res as Ok).0`
        if not isinstance(x, tuple) or not x:
            return x
        x = tuple(unview(y) if isinstance(y, tuple) else y for y in x)
        if x[0] == 'deref' and x[1][0] == 'field' and x[1][1][0] == 'payload' and through_views(x[1][1][1]) == ('param', 2) and x[1][1][1] != ('param', 2):
            return ('field', ('payload', ('param', 2), x[1][1][2]), x[1][2])
        return x
    sw0 = None
    for bi_, blk_ in enumerate(ib.blocks):
        if blk_['cleanup'] or blk_.get('dead') or blk_['term']['k'] != 'switch':
            continue
        d_ = norm(T.switch_facts(bi_)[0])
        if d_[0] == 'discr' and through_views(d_[1]) == ('param', 2):
            sw0 = bi_
            break
    if sw0 is None:
        rep.unknown(rid, 'update/shape', b.where(), 'update does not match on its result parameter')
        return
    # nothing is counted before the result is looked at
    pre_ = reach(ib, [0], stop=lambda q: q == sw0)
    if any(callee_is(ib.blocks[q]['term'], 'core::sync::atomic::Atomic::fetch_add', 'core::sync::atomic::Atomic::store', 'core::sync::atomic::Atomic::swap', 'core::sync::atomic::Atomic::fetch_sub')
           for q in pre_ if q != sw0 and ib.blocks[q]['term']['k'] == 'call' and not ib.blocks[q]['cleanup']):
        rep.unknown(rid, 'update/shape', b.where(), 'update counts before it has looked at the result')
        return
    dt, edges = T.switch_facts(sw0)
    ok_s = [s for s, labs in edges.items() if ('variant', 'Ok') in labs]
    er_s = [s for s, labs in edges.items() if ('variant', 'Err') in labs]
    fa = {}
    for bi, t in ib.calls():
        if ib.blocks[bi]['cleanup']:
            continue
        if callee_is(t, 'core::sync::atomic::Atomic::fetch_add', 'core::sync::atomic::Atomic::store', 'core::sync::atomic::Atomic::swap', 'core::sync::atomic::Atomic::fetch_sub'):
            ct = norm(T.call_term(bi))
            fa[bi] = (ct[1].rsplit('::', 1)[-1], leaf_field_name(ct[2][0]), ct[2][1])
    n_ok = field_of(('payload', ('param', 2), 'Ok'), '0', 0)

    def check_side(starts, want, side):
        Tr, seen = freach(T, starts)
        got = {}
        for bi, (op, fld, amt) in fa.items():
            if bi in seen:
                # which counter / how much, as seen on this side (a counter picked by the match on the result is a phi
                # in general and one definite counter once the side is fixed)
                ctr = norm(Tr.call_term(bi))
                fld, amt = leaf_field_name(ctr[2][0]), norm(unview(ctr[2][1]))
                got.setdefault(fld, []).append((op, amt, bi))
        bad = []
        for fld, amount_ok in want.items():
            ops = got.get(fld, [])
            if len(ops) != 1 or ops[0][0] != 'fetch_add' or not amount_ok(ops[0][1]):
                bad.append('%s: %s' % (fld, [(o, fmt(a)) for o, a, _ in ops]))
            else:
                mp = all(C.must_pass(ib, s, set(C.exits(ib, False)), {ops[0][2]}) for s in starts)
                if not mp:
                    bad.append('%s not on every path' % fld)
        extra = [f for f in got if f not in want]
        if extra:
            bad.append('also touches %s' % extra)
        rep.ob(rid, 'update/%s-side' % side, not bad, b.where(), 'exactly the %s counters, one atomic fetch_add each' % side if not bad else
               'on the %s edge the counters are updated wrongly: %s' % (side, '; '.join(bad)))

    def core_amount(a):
        """the usize behind `x as u64` / `u64::try_from(x).unwrap_or(..)` (usize -> u64 cannot fail: the fallback is dead)"""
        from .values import checked_conv
        if a[0] == 'cast':
            # `x as u64`, `(x as u64) as usize`: integer casts that keep every value of a byte count; a cast to a
            # narrower type (`written as u16`) is not peeled - the amount is then not the byte count any more
            while a[0] == 'cast' and a[1] == 'IntToInt' and a[2] in UNSIGNED_BITS and a[3] in UNSIGNED_BITS and \
                    UNSIGNED_BITS[a[3]] >= UNSIGNED_BITS[a[2]]:
                a = a[4]
            return a
        alts = flatten_phi(a)
        conv = [checked_conv(y) for y in alts]
        srcs = set(c[1] for c in conv if c is not None and c[0] == 'u64')
        if len(srcs) == 1 and all(c is not None or y[0] == 'const' for c, y in zip(conv, alts)) and list(srcs)[0] in (n_ok, ('param', 3)):
            return list(srcs)[0]
        return a

    def amt_n(a):
        a2 = core_amount(a)
        return a2 == n_ok or a2 == ('param', 3)

    def amt_len(a):
        a2 = core_amount(a)
        return a2 == ('param', 3)

    def amt_one(a):
        return a[0] == 'const' and a[2] == '1'

    check_side(ok_s, {roles['bytes_sent']: amt_n, roles['packets_sent']: amt_one}, 'sent')
    check_side(er_s, {roles['bytes_dropped']: amt_len, roles['packets_dropped']: amt_one}, 'dropped')
    r_ok, r_er = ret_terms(T, ok_s), ret_terms(T, er_s)
    g = (r_ok == {('adt', 'core::result::Result', 'Ok', (('0', n_ok),))} or r_ok == {('param', 2)}) and \
        (r_er == {('adt', 'core::result::Result', 'Err', (('0', field_of(('payload', ('param', 2), 'Err'), '0', 0)),))} or r_er == {('param', 2)})
    rep.ob(rid, 'update/returns-result-unchanged', g, b.where(), 'update returns the socket result unchanged')
    # incr_X is a single fetch_add on field X
    for fld in ('bytes_sent', 'packets_sent', 'bytes_dropped', 'packets_dropped'):
        ms = cad.method(SS, 'incr_' + fld)
        if len(ms) != 1:
            continue
        mb_ = inl(cad, ms[0])
        Tm = Terms(mb_)
        calls = [norm(Tm.call_term(bi)) for bi, t in mb_.calls() if 'core::sync::atomic::Atomic::' in strip_generics(t.get('callee_full', '')) and not mb_.blocks[bi]['cleanup']]
        ok = len(calls) == 1 and calls[0][1].endswith('::fetch_add') and leaf_field_name(calls[0][2][0]) == fld
        rep.ob(rid, 'incr_%s/single-rmw-on-own-field' % fld, ok, ms[0].where(), 'one fetch_add on %s' % fld if ok else 'incr_%s does %s' % (fld, [fmt(c)[:80] for c in calls]))


def rule_shared_counters(ctx, rep, rid='R3'):
    cad = ctx.cad
    # From<&SocketStats> for SinkStats maps each field to the same-named field
    fr = [b for b in cad.all_bodies if b.impl_trait == 'core::convert::From' and (b.impl_self or '') == 'cadence::sinks::core::SinkStats' and b.name == 'from']
    if len(fr) > 1:
        # a by-value `From<SocketStats>` next to the by-reference one: the by-reference conversion is the snapshot, the
        # other one must come out the same (stat_roles requires all snapshot functions to agree)
        byref = [x for x in fr if x.locals[1].startswith('&')]
        fr = byref if len(byref) == 1 else fr
    b = one(rep, rid, 'From<&SocketStats> for SinkStats', fr)
    if b is not None:
        rep.analysed(b)
        rts = ret_terms(Terms(inl(cad, b)), [0])
        ok = False
        if len(rts) == 1 and list(rts)[0][0] == 'adt':
            ok = stat_roles(cad) is not None
        rep.ob(rid, 'snapshot-maps-field-to-same-field', ok, b.where(), 'the four public figures are loads of four distinct SocketStats counters (which one feeds which is then used by the classification rule)')
        if ok:
            import struct
            host64 = struct.calcsize('P') * 8 >= 64
            narrow = sorted('%s is kept in a %s' % (n_, w_) for n_, w_ in cad.__dict__.get('_stat_widths', {}).items()
                            if UNSIGNED_BITS[w_] < 64 or (w_ == 'usize' and not host64))
            rep.ob(rid, 'counter-as-wide-as-its-figure', not narrow, b.where(),
                   'every counter is at least as wide as the u64 figure it is reported as (usize counts as 64 bits on the analysed target)'
                   if not narrow else 'a counter narrower than the u64 it is reported as wraps while the sink is in use: %s' % '; '.join(narrow))
    # SocketStats Clone is derived over Arc fields (clones share)
    cl = [i for i in cad.impls_of('core::clone::Clone') if i.get('self_adt') == SS]
    fields = adt_fields(cad, SS) or []
    okc = len(cl) == 1 and cl[0]['derived'] and all(f['ty'].startswith('alloc::sync::Arc<') for f in fields) and len(fields) >= 1
    if not okc and len(cl) == 1 and not cl[0]['derived'] and all(f['ty'].startswith('alloc::sync::Arc<') for f in fields) and fields:
        # a hand-written Clone: every field of the clone is Arc::clone of the same field of the original
        cb_ = [cad.bodies.get(it['path']) for it in cl[0]['items'] if it['name'] == 'clone']
        if len(cb_) == 1 and cb_[0] is not None:
            rts_ = ret_terms(Terms(inl(cad, cb_[0])), [0])
            if len(rts_) == 1 and list(rts_)[0][0] == 'adt' and list(rts_)[0][1] == SS:
                fs_ = dict(list(rts_)[0][3])
                okc = set(fs_) == set(f['name'] for f in fields) and all(
                    term_callee_is(v_, '<alloc::sync::Arc as core::clone::Clone>::clone') and deep_peel(v_[2][0]) == ('field', ('param', 1), n_)
                    for n_, v_ in fs_.items())
    rep.ob(rid, 'clones-share-counters', okc, '', 'every field of SocketStats is an Arc and Clone is derived: a clone counts into the same cells')
    # ... and a new SocketStats has a cell of its own for every figure: a hand-written Default / constructor that hands the same Arc
    # (or a clone of it) to two fields makes two public figures count into one cell
    makers = [x for x in cad.all_bodies if x.def_kind in ('Fn', 'AssocFn') and x.locals[0].strip() == SS and
              not any(type_head(x.locals[i].lstrip('&').strip()) == SS for i in range(1, x.arg_count + 1)) and
              not (x.file.endswith('/test.rs') or '::tests::' in x.path)]
    alias = []
    for mb_ in makers:
        rep.analysed(mb_)
        for r_ in ret_terms(Terms(inl(cad, mb_)), [0]):
            if not (r_[0] == 'adt' and r_[1] == SS):
                continue
            seen_ = {}
            for n_, v_ in r_[3]:
                b_ = norm(v_)
                while term_callee_is(peel(b_), '<alloc::sync::Arc as core::clone::Clone>::clone'):
                    b_ = norm(peel(b_)[2][0])
                b_ = peel(b_)
                if b_ in seen_:
                    alias.append('%s: %s and %s are the same cell' % (mb_.short(), seen_[b_], n_))
                seen_[b_] = n_
    rep.ob(rid, 'a-cell-of-its-own-per-figure', not alias, makers[0].where() if makers and alias else '',
           'every way of making a SocketStats (%d hand-written; a derived Default makes each Arc afresh) gives each counter its own cell' % len(makers)
           if not alias else 'two counters share one cell: %s' % '; '.join(alias))
    # buffered constructors: adapter gets stats.clone() of the value kept in the sink
    n = 0
    for adt, field, adapter in buffered_sinks(cad):
        name = adt.rsplit('::', 1)[-1]
        sf = [f['name'] for f in adt_fields(cad, adt) if f['ty'] == SS]
        if not sf:
            continue        # spy sink: no socket statistics
        for cb in _ctor_bodies(cad, adt):
            ib = inl(cad, cb, never=lambda x: x.impl_trait in ('core::clone::Clone', 'core::default::Default') and (x.impl_self or '') == SS)
            T = Terms(ib)
            rr = ret_terms(T, [0])
            for r in rr:
                agg = dict(r[3])['0'] if (r[0] == 'adt' and r[2] == 'Ok') else r
                if not (agg[0] == 'adt' and agg[1] == adt):
                    continue
                n += 1
                own = dict(agg[3]).get(sf[0])
                ads = [y for y in walk(dict(agg[3]).get(field)) if y[0] == 'adt' and y[1] == adapter]
                ok = False
                if len(ads) == 1:
                    ast = dict(ads[0][3]).get(stats_field(cad, adapter))
                    ok = ast is not None and term_callee_is(ast, 'as core::clone::Clone>::clone') and peel(ast[2][0]) == own and \
                        term_callee_is(own, 'as core::default::Default>::default')
                if not ok and own is not None:
                    # general form: every SocketStats inside the new sink - the one stats() reads and whatever the write adapter
                    # holds (directly or inside a wrapped unbuffered sink) - is the value of ONE creation site or a
                    # clone(&..) of it (clones share the Arc'd counters), in either direction
                    def root_(x):
                        x = peel(x)
                        while term_callee_is(x, 'as core::clone::Clone>::clone') and len(x[2]) == 1:
                            x = peel(x[2][0])
                        return x
                    made = set(y for y in walk(agg) if y[0] == 'call' and isinstance(y[1], str) and
                               (y[1] == '<%s as core::default::Default>::default' % SS or y[1] in (SS + '::new', SS + '::default')))
                    wf = dict(agg[3]).get(field)
                    ok = len(made) == 1 and root_(own) in made and wf is not None and any(y in made for y in walk(wf))
                rep.ob(rid, '%s::%s/adapter-shares-sink-stats' % (name, cb.name), ok, cb.where(), 'adapter.stats = sink.stats.clone()' if ok else 'the adapter counts into different cells than the ones stats() reads')
    rep.floor(rid, 'buffered socket sink constructors', n, 4)
    # stats() of the four socket sinks returns a snapshot of self.stats
    k = 0
    for adt in ('cadence::sinks::udp::UdpMetricSink', 'cadence::sinks::udp::BufferedUdpMetricSink', 'cadence::sinks::unix::UnixMetricSink', 'cadence::sinks::unix::BufferedUnixMetricSink'):
        name = adt.rsplit('::', 1)[-1]
        impl = [i for i in cad.impls_of(SINK_TRAIT) if i.get('self_adt') == adt]
        items = {it['name']: it['path'] for it in impl[0]['items']} if len(impl) == 1 else {}
        if 'stats' not in items:
            rep.bad(rid, '%s/stats-overridden' % name, '', '%s does not override stats(): telemetry reads as zero' % name)
            continue
        sb = cad.bodies[items['stats']]
        rts = ret_terms(Terms(sb), [0])
        ok = len(rts) == 1 and (term_callee_is(list(rts)[0], 'as core::convert::Into>::into') or term_callee_is(list(rts)[0], 'as core::convert::From>::from')) and \
            self_field_name(list(rts)[0][2][0]) == stats_field(cad, adt)
        if not ok:
            # written out / through a snapshot helper: every public figure is a load of its own counter of self.stats
            roles_ = stat_roles(cad)
            rts = ret_terms(Terms(inl(cad, sb)), [0])
            if roles_ and len(rts) == 1 and list(rts)[0][0] == 'adt' and list(rts)[0][1] == 'cadence::sinks::core::SinkStats':
                fs_ = dict(list(rts)[0][3])
                ok = set(fs_) == set(roles_) and all(
                    term_callee_is(v_, 'core::sync::atomic::Atomic::load') and leaf_field_name(v_[2][0]) == roles_[n_] and
                    self_field_name(v_[2][0]) == stats_field(cad, adt) for n_, v_ in fs_.items())
        k += 1
        rep.ob(rid, '%s/stats-is-snapshot-of-own-counters' % name, ok, sb.where(), 'stats() = snapshot of self.stats (each figure loaded from its own counter)')
    rep.floor(rid, 'socket sinks with stats()', k, 4)


CONVERT_FNS = ('to_path_buf', 'into', 'from', 'as_ref', 'to_owned', 'into_boxed_path', 'to_string', 'into_boxed_str', 'as_path', 'borrow', 'clone')


def _converted_from(t, root):
    """t is `root` passed through representation conversions only (to_path_buf, into, Box::from, as_ref ...)"""
    t = norm(t)
    for _ in range(8):
        t = peel(t)
        if t == root:
            return True
        if t[0] == 'call' and isinstance(t[1], str) and len(t[2]) == 1 and strip_generics(t[1]).rstrip('>').rsplit('::', 1)[-1] in CONVERT_FNS:
            t = t[2][0]
            continue
        return False
    return False
