"""C13 - socket sinks put exactly the metric bytes on the wire."""
from . import sockets as K
from . import sinks as S
from . import writer as W

EXPLANATION = ('R1 unbuffered UDP/Unix emit = exactly one send_to of metric.as_bytes() whole to the address/path stored at '
               'construction from the constructor argument, result returned through SocketStats::update; R2 get_addr takes '
               'the first resolved address; R3 buffered sinks: adapters send each write whole in one datagram (A1), '
               'newline terminator (A3), flush override under the lock (D1), and the framing premises M1..M11 of C05 for the shared line writer (drop flushes: M11).')


def check(ctx, rep):
    rep.trust('UdpSocket/UnixDatagram::send_to sends one datagram with exactly the given bytes or fails')
    K.rule_unbuffered(ctx, rep)
    K.rule_get_addr(ctx, rep)
    K.rule_socket_untouched(ctx, rep, 'R4s')
    S.rule_A1(ctx, rep, 'R3-A1')
    S.rule_E1(ctx, rep, 'R3-E1')
    S.rule_A2_A3(ctx, rep)
    S.rule_lock_discipline(ctx, rep, 'R3-D1', methods=('flush',))
    # ... and a flush issued through a pointer to the sink (Arc/Box forwarding impls) reaches the sink's own flush
    S.rule_forwarding_impls(ctx, rep, 'R3-F1', methods=('flush',))
    # "datagrams of the form described in C05": the buffered UDP/Unix sinks share the line writer, so every framing
    # premise of C05 is a premise here as well
    m = W.WriterModel(ctx, rep)
    if m.ok:
        W.rule_M1(m, rep)
        W.rule_M2(m, rep, 'must')
        W.rule_M3(m, rep)
        W.rule_M4_M5_M6(m, rep, want=('M4', 'M5'))
        W.rule_M7(m, rep)
        W.rule_M8(m, rep)
        W.rule_M9(m, rep)
        W.rule_M10(m, rep)
        W.rule_M11(m, rep)
