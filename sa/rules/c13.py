"""C13 - socket sinks put exactly the metric bytes on the wire."""
from . import sockets as K
from . import sinks as S
from . import writer as W

EXPLANATION = ('R1 unbuffered UDP/Unix emit = exactly one send_to of metric.as_bytes() whole to the address/path stored at '
               'construction from the constructor argument, result returned through SocketStats::update; R2 get_addr takes '
               'the first resolved address; R3 buffered sinks: adapters send each write whole in one datagram (A1), '
               'newline terminator (A3), flush override under the lock (D1), drop flushes (M11).')


def check(ctx, rep):
    rep.trust('UdpSocket/UnixDatagram::send_to sends one datagram with exactly the given bytes or fails')
    K.rule_unbuffered(ctx, rep)
    K.rule_get_addr(ctx, rep)
    S.rule_A1(ctx, rep, 'R3-A1')
    S.rule_A2_A3(ctx, rep)
    S.rule_lock_discipline(ctx, rep, 'R3-D1', methods=('flush',))
    m = W.WriterModel(ctx, rep)
    if m.ok:
        W.rule_M9(m, rep)
        W.rule_M11(m, rep)
        W.rule_M8(m, rep)
