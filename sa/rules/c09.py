"""C09 - the last drop drains, then stops and releases the wrapped sink."""
from . import queuing as A
from . import queuing2 as B
from .qmodel import QModel

EXPLANATION = ('R1 the stop request cannot be lost (marker attempted on every path, sticky flag on the Err edge), R1b the '
               'flag is tested before blocking, R2 loop exit => run returns, R3 drain before stop (same channel / flag '
               'only with is_empty), R4 ownership: thread exit + last handle => wrapped sink dropped, R5 handle drop '
               'reaches no blocking call and no panic site. Typestate + ownership/call-graph rules over MIR.')


def check(ctx, rep):
    rep.trust('crossbeam-channel: try_send fails only when full/disconnected; FIFO; Receiver::recv wakes on a queued message')
    rep.trust('BufWriter flushes on drop (C06-M11)')
    m = QModel(ctx, rep)
    if not m.ok:
        return
    B.rule_last_drop_stops(m, rep)
    flag = B.rule_stop(m, rep)
    B.rule_run_exit(m, rep, flag)
    B.rule_same_sender(m, rep)
    # one stop request ends one loop: there is exactly one worker to stop (build() spawns one, the sentinel replaces it)
    from .common import KeepOnly
    A.rule_one_consumer(m, KeepOnly(rep, ('build-spawns-once', 'spawn-one-thread', 'spawn-sites'), 'R2w'), 'R2w', parts=('callers',))
    A.rule_loop(m, rep, 'R3loop', liveness=True)
    # whatever the wrapped sink answers, the task hands the metric over once and comes back (no retry loop)
    A.rule_task_closure(m, rep, 'R3loop', parts=('once',))
    B.rule_release(m, rep)
    B.rule_drop_nonblocking(m, rep)
    B.rule_handle_drop(m, rep, 'R5h')
    B.rule_sentinel(m, rep, count=False)
