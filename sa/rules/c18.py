"""C18 - the global default client is set once and read race-free (orderings are constants in MIR)."""
from .. import cfg as C
from ..terms import Terms, norm, fmt, walk, field_of
from ..witness import cargo_check
from .common import *
from .qmodel import private_region

EXPLANATION = ('R1 single-writer election: every access to the UnsafeCell in set() is dominated by the Ok edge of one strong '
               'compare_exchange(state, INITIAL, x) with x distinct from INITIAL and from the constant readers test; R2 the '
               'write is published by store(state, K, Release|SeqCst) on every path, nothing touches the cell afterwards; R3 '
               'get() reads the cell only under load(state, Acquire|SeqCst) == K, else returns None; R4 frame: no other '
               'store/RMW on state, no other cell access, constants pairwise distinct, new() = (INITIAL, None); R5 Sync/Send '
               'impls are bounded by T: Sync / T: Send (impl table + compile_fail twin). With the C++11 model: a reader '
               'that sees K synchronises-with the release store sequenced after the only write.')

H = 'cadence_macros::state::SingletonHolder'
AT = 'core::sync::atomic::Atomic::'
RMW = ('compare_exchange', 'compare_exchange_weak', 'swap', 'store', 'fetch_add', 'fetch_sub', 'fetch_or', 'fetch_and',
       'fetch_xor', 'fetch_max', 'fetch_min', 'fetch_update', 'fetch_nand', 'get_mut', 'into_inner', 'as_ptr')


def ordering(t):
    return t[2] if t[0] == 'adt' and t[1].endswith('Ordering') else None


def evalc(mac, t):
    """constant folding for the state constants: `Enum::Variant as usize` of a field-less local enum becomes its
    discriminant (possibly behind a const fn helper, already inlined)"""
    t = norm(t)
    # `Enum::Variant as usize` of an enum with explicit discriminants is lowered to `(<discriminant const> + 0) as usize`
    if t[0] == 'bin' and t[1] in ('Add', 'AddWithOverflow', 'AddUnchecked'):
        a_, b_ = evalc(mac, t[2]), evalc(mac, t[3])
        if a_[0] == 'const' and b_[0] == 'const':
            try:
                return ('const', a_[1], str(int(str(a_[2])) + int(str(b_[2]))), None)
            except ValueError:
                pass
    if t[0] == 'cast' and t[1] == 'IntToInt' and t[4][0] == 'bin':
        i_ = evalc(mac, t[4])
        if i_[0] == 'const':
            return ('const', t[3], i_[2], None)
    if t[0] == 'cast' and t[4][0] == 'discr':
        t = t[:4] + (t[4][1],)
    if t[0] == 'cast' and t[4][0] == 'adt' and not t[4][3]:
        a = mac.adts.get(t[4][1])
        if a and a['kind'] == 'Enum':
            for v in a['variants']:
                if v['name'] == t[4][2]:
                    return ('const', t[3], str(int(v['discr'])), None)
    if t[0] == 'cast' and t[4][0] == 'const' and t[1] in ('IntToInt',):
        return ('const', t[3], t[4][2], None)
    if t[0] == 'call' and isinstance(t[1], str) and strip_generics(t[1]) in mac.bodies and all(a[0] in ('adt', 'const') for a in t[2]):
        from .. import symb
        r = symb.apply(('fn', strip_generics(t[1])), t[2])
        if r[0] != 'call':
            return evalc(mac, r)
    return t


def cell_ptr(t, cellf):
    """is t the pointer UnsafeCell::get(&self.<cellf>) (or raw_get / get_mut)?"""
    return t[0] == 'call' and isinstance(t[1], str) and t[1] in ('core::cell::UnsafeCell::get', 'core::cell::UnsafeCell::raw_get', 'core::cell::UnsafeCell::get_mut') \
        and self_field_name(t[2][0]) == cellf


def _in_cell(loc, cellf):
    """does location term `loc` lie in the memory behind the cell pointer?  (the result of some other call - e.g. the old
    value returned by Option::replace(&mut *cell, ..) - is a value of its own, not the cell)"""
    if cell_ptr(loc, cellf):
        return True
    if loc[0] == 'call':
        return False
    return any(_in_cell(x, cellf) for x in loc[1:] if isinstance(x, tuple) and x and isinstance(x[0], str))


def cell_accesses(body, T, cellf):
    """blocks that read or write memory through the cell pointer: [(bb, kind)]"""
    out = []
    for bi, blk in enumerate(body.blocks):
        if blk['cleanup']:
            continue
        for si, s in enumerate(blk['stmts']):
            if s['k'] != 'assign':
                continue
            if any(e[0] == 'deref' for e in s['place']['p']):
                loc = norm(T.place_loc(s['place'], bi, si))
                if any(cell_ptr(y, cellf) for y in walk(loc)):
                    out.append((bi, 'write'))
            rv = s['rv']
            if rv['k'] in ('use', 'copy_for_deref') or (rv['k'] == 'ref'):
                pl = rv.get('place') or (rv.get('op') or {}).get('place')
                if pl and any(e[0] == 'deref' for e in pl['p']):
                    loc = norm(T.place_loc(pl, bi, si))
                    root = loc
                    if any(cell_ptr(y, cellf) for y in walk(loc)) and rv['k'] != 'ref':
                        out.append((bi, 'read'))
        t = blk['term']
        n = len(blk['stmts'])
        if t['k'] == 'drop':
            loc = norm(T.place_loc(t['place'], bi, n))
            if _in_cell(loc, cellf):
                out.append((bi, 'write'))
        elif t['k'] == 'call':
            ct = norm(T.call_term(bi))
            if ct[0] == 'call' and not cell_ptr(ct, cellf):
                for a in ct[2]:
                    if a[0] == 'ref' and len(a) > 2 and a[2] and any(y[0] == 'deref' and cell_ptr(y[1], cellf) for y in walk(a)):
                        out.append((bi, 'write'))       # `&mut *cell` handed to a function (Option::replace, mem::replace ..)
                    elif any(y[0] == 'deref' and cell_ptr(y[1], cellf) for y in walk(a)):
                        out.append((bi, 'read'))
    return out


def check(ctx, rep, upto=None):
    rep.trust('C++11 memory model as implemented by Rust atomics; Arc::clone of a fully initialised Arc')
    mac = ctx.mac
    fields = adt_fields(mac, H)
    if fields is None:
        rep.anchor_lost('R0', 'SingletonHolder')
        return
    cellf = [f['name'] for f in fields if f['ty'].startswith('core::cell::UnsafeCell<')]
    statef = [f['name'] for f in fields if f['ty'].startswith('core::sync::atomic::Atomic<')]
    state_ty = None
    if not statef:
        # the atomic may be wrapped in a private newtype / struct with the protocol steps as methods
        from .qmodel import nested_fields
        for f in fields:
            h = type_head(f['ty'])
            if h in mac.adts and h != H and any(x['ty'].startswith('core::sync::atomic::Atomic<') for x in nested_fields(mac, h)):
                statef.append(f['name'])
                state_ty = h
    if not cellf:
        # the cell may be wrapped in a private newtype (`slot: Slot<T>` with unsafe read()/write() helpers, analysed inlined)
        from .qmodel import nested_fields as _nf
        for f in fields:
            h = type_head(f['ty'])
            if h in mac.adts and h != H and any(x['ty'].startswith('core::cell::UnsafeCell<') for x in _nf(mac, h)):
                cellf.append(f['name'])
    if len(cellf) != 1 or len(statef) != 1:
        rep.anchor_lost('R0', 'cell/state fields of SingletonHolder (%s/%s)' % (cellf, statef))
        return
    cellf, statef = cellf[0], statef[0]
    # what the cell holds: Option<Arc<T>> or a private two-variant enum of the same shape (`Slot { Vacant, Occupied(Arc<T>) }`)
    EMPTY, FULL = 'None', 'Some'
    cty_ = next((f['ty'] for f in fields if f['name'] == cellf), '')
    if cty_.startswith('core::cell::UnsafeCell<'):
        ih_ = type_head(cty_[len('core::cell::UnsafeCell<'):-1])
        ia_ = mac.adts.get(ih_)
        if ia_ and ia_['kind'] == 'Enum' and len(ia_['variants']) == 2:
            e_ = [v for v in ia_['variants'] if not v['fields']]
            f_ = [v for v in ia_['variants'] if len(v['fields']) == 1 and v['fields'][0]['ty'].startswith('alloc::sync::Arc<')]
            if len(e_) == 1 and len(f_) == 1:
                EMPTY, FULL = e_[0]['name'], f_[0]['name']
    m = {}
    for name in ('set', 'get', 'is_set', 'new'):
        bs = mac.method(H, name)
        if len(bs) != 1:
            rep.anchor_lost('R0', 'SingletonHolder::%s' % name)
            return
        m[name] = bs[0]
        rep.analysed(bs[0])
    if not any('"unsafe_code"' in a for a in []):
        pass
    # ---- new(): initial constant
    rts = ret_terms(Terms(inl(mac, m['new'])), [0])
    E = None
    oknew = False
    if len(rts) == 1 and list(rts)[0][0] == 'adt':
        fs = dict(list(rts)[0][3])
        st, cv = fs.get(statef), fs.get(cellf)
        if st is not None and not term_callee_is(st, AT + 'new'):
            inner_new = [y for y in walk(st) if term_callee_is(y, AT + 'new')]
            st = inner_new[0] if len(inner_new) == 1 else st
        if st is not None and term_callee_is(st, AT + 'new') and evalc(mac, st[2][0])[0] == 'const':
            E = evalc(mac, st[2][0])[2]
        if cv is not None and not term_callee_is(cv, 'core::cell::UnsafeCell::new'):
            inner_cell = [y for y in walk(cv) if term_callee_is(y, 'core::cell::UnsafeCell::new')]
            cv = inner_cell[0] if len(inner_cell) == 1 else cv          # the cell inside its private wrapper
        oknew = E is not None and cv is not None and term_callee_is(cv, 'core::cell::UnsafeCell::new') and cv[2][0][0] == 'adt' and cv[2][0][2] == EMPTY
    rep.ob('R4', 'new/initial-state', oknew, m['new'].where(), 'new() = (state: INITIAL=%s, value: None)' % E if oknew else 'new() does not start as (constant state, None)')
    if E is None:
        return
    # every other way to obtain a holder starts in the same state: a derived Default zero-initialises the state word
    dflt = [i for i in mac.impls_of('core::default::Default') if i.get('self_adt') == H]
    for i in dflt:
        if i.get('derived'):
            okd = str(E) == '0'
            rep.ob('R4', 'default/initial-state', okd, m['new'].where(),
                   'derived Default: state word 0 = INITIAL' if okd else
                   'a holder built by the derived Default starts with state 0, which is not INITIAL (%s): it is born in another protocol state' % E)
        else:
            db = [mac.bodies.get(it['path']) for it in i['items'] if it['name'] == 'default']
            okd = False
            if db and db[0] is not None:
                rr = ret_terms(Terms(inl(mac, db[0])), [0])
                if len(rr) == 1 and list(rr)[0][0] == 'adt':
                    fs2 = dict(list(rr)[0][3])
                    st2 = fs2.get(statef)
                    news2 = [y for y in walk(st2)] if st2 is not None else []
                    news2 = [y for y in news2 if term_callee_is(y, AT + 'new')]
                    okd = len(news2) == 1 and evalc(mac, news2[0][2][0])[0] == 'const' and evalc(mac, news2[0][2][0])[2] == E
                    cv2 = fs2.get(cellf)
                    okd = okd and cv2 is not None and term_callee_is(cv2, 'core::cell::UnsafeCell::new') and cv2[2][0][0] == 'adt' and cv2[2][0][2] == EMPTY
            rep.ob('R4', 'default/initial-state', okd, m['new'].where(), 'Default::default() = (INITIAL, None)' if okd else 'Default::default() does not start as (INITIAL, None)')
    # ---- get() (and any other method of the holder that reads the cell): R3
    def reader_check(rname, rbody, view_ok=False):
        gb = inl(mac, rbody)
        Tg = Terms(gb)
        acc = cell_accesses(gb, Tg, cellf)
        rep.sites(len(acc))
        K = None
        okg = bool(acc)
        okg_any = bool(acc)      # the same, whatever the ordering of the load (the part C17 needs: a value only when COMPLETE)
        K_any = None
        why = '%s() never reads the cell' % rname
        for bi, kind in acc:
            if kind == 'write':
                okg = okg_any = False
                why = '%s() writes the cell' % rname
                continue
            gs = guards_of(Tg, bi) or []
            good = good_any = False
            for dt, labels, sbi in gs:
                d = norm(dt)
                if term_callee_is(d, AT + 'load') and self_field_name(d[2][0]) == statef and len(labels) == 1 and list(labels)[0][0] == 'int':
                    # `match state.load(..) { COMPLETE => .., _ => .. }`: a switch on the loaded value itself
                    o = ordering(d[2][1])
                    good_any = True
                    K_any = str(list(labels)[0][1])
                    if o in ('Acquire', 'SeqCst'):
                        good = True
                        K = str(list(labels)[0][1])
                    else:
                        why = 'the state is loaded with Ordering::%s before the cell is read: seeing COMPLETE does not ' \
                              'synchronise with the writer\'s release store, the read of the cell races with the initialising write' % o
                if d[0] == 'bin' and d[1] in ('Eq', 'Ne'):
                    a, b = d[2], d[3]
                    ld, cst = (a, b) if term_callee_is(a, AT + 'load') else (b, a)
                    cst = evalc(mac, cst)
                    if term_callee_is(ld, AT + 'load') and self_field_name(ld[2][0]) == statef and cst[0] == 'const':
                        want_truth = (d[1] == 'Eq')
                        if ('bool', want_truth) in labels:
                            o = ordering(ld[2][1])
                            good_any = True
                            K_any = cst[2]
                            if o in ('Acquire', 'SeqCst'):
                                good = True
                                K = cst[2]
                            else:
                                why = 'the state is loaded with Ordering::%s before the cell is read: seeing COMPLETE does not ' \
                                      'synchronise with the writer\'s release store, the read of the cell races with the initialising write' % o
            if not good_any:
                okg_any = False
            if not good:
                okg = False
                if why.endswith('never reads the cell'):
                    why = 'a read of the cell is not dominated by `state.load(Acquire) == COMPLETE`'
        rep.ob('R3', rname + '/acquire-before-read', okg, rbody.where(), 'the cell is read only after load(state, Acquire|SeqCst) == %s' % K if okg else why)
        rep.ob('R3', rname + '/read-only-when-complete', okg_any, rbody.where(), 'the cell is read only after the state was found to be %s' % K_any if okg_any else
               'a read of the cell is not dominated by a test of the state for one value')
        if okg_any:
            # the other edge returns None without touching the cell
            for sbi in range(len(gb.blocks)):
                if gb.blocks[sbi]['term']['k'] != 'switch' or gb.blocks[sbi]['cleanup']:
                    continue
                dt, edges = Tg.switch_facts(sbi)
                d = norm(dt)
                if d[0] == 'bin' and any(term_callee_is(x, AT + 'load') for x in (d[2], d[3])):
                    neg = [s for s, labs in edges.items() if ('bool', d[1] != 'Eq') in labs]
                    r = ret_terms(Tg, neg)
                    okn = bool(r) and all(x[0] == 'adt' and x[2] == 'None' for x in r) and not any(bi in reach(gb, neg) for bi, _ in acc)
                    rep.ob('R3', rname + '/none-until-complete', okn, rbody.where(), 'any other state => None, cell untouched' if okn else 'get() can return something / touch the cell before the state is COMPLETE')
            rts = ret_terms(Tg, [0])
            somes = [r for r in rts if not (r[0] == 'adt' and r[2] == 'None')]
            def clone_of_cell(r):
                # Option<Arc<T>>::clone(&*cell)  or  Some(Arc::clone(<view into *cell>))
                if r[0] == 'adt' and r[2] == 'Some' and r[3]:
                    r = norm(r[3][0][1])
                return r[0] == 'call' and isinstance(r[1], str) and r[1].endswith('core::clone::Clone>::clone') and len(r[2]) == 1 and \
                    any(cell_ptr(y, cellf) for y in walk(r[2][0]))
            def view_of_cell(r):
                # a borrowing reader: Option::as_ref(&*cell) / Option::as_deref / Some(&<place in *cell>), nothing computed
                while r[0] in ('ref', 'deref', 'autoderef', 'unsize') or (r[0] == 'payload') or \
                        (r[0] == 'call' and isinstance(r[1], str) and r[1] in ('core::option::Option::as_ref', 'core::option::Option::as_deref') and len(r[2]) == 1):
                    r = norm(r[2][0]) if r[0] == 'call' else norm(r[1])
                return bool(cell_ptr(r, cellf)) or (r[0] == 'adt' and r[2] == 'Some' and r[3] and view_of_cell(norm(r[3][0][1])))
            okc = all(clone_of_cell(r) or (view_ok and view_of_cell(norm(r))) for r in somes) and bool(somes)
            rep.ob('R3', rname + '/returns-clone-of-stored', okc, rbody.where(), 'returns a clone of the stored Option<Arc<T>> (always the same instance)')
        return gb, Tg, (K if K is not None else K_any), acc

    gb, Tg, K, acc = reader_check('get', m['get'])
    # is_set agrees with get's test
    ib = inl(mac, m['is_set'])
    Ti = Terms(ib)
    r = ret_terms(Ti, [0])
    oki = False
    if len(r) == 1:
        d = list(r)[0]
        if d[0] == 'bin' and d[1] == 'Eq':
            ld, cst = (d[2], d[3]) if term_callee_is(d[2], AT + 'load') else (d[3], d[2])
            cst = evalc(mac, cst)
            oki = term_callee_is(ld, AT + 'load') and self_field_name(ld[2][0]) == statef and cst[0] == 'const' and (K is None or cst[2] == K) \
                and ordering(ld[2][1]) in ('Acquire', 'SeqCst')
    if not oki:
        # `matches!(self.state.load(Acquire), COMPLETE)`: a switch on the loaded value, true on the COMPLETE edge only
        for bi_, blk_ in enumerate(ib.blocks):
            if blk_['term']['k'] != 'switch' or blk_['cleanup']:
                continue
            dt_, edges_ = Ti.switch_facts(bi_)
            d_ = norm(dt_)
            if term_callee_is(d_, AT + 'load') and self_field_name(d_[2][0]) == statef and ordering(d_[2][1]) in ('Acquire', 'SeqCst'):
                t_edges = [s_ for s_, labs_ in edges_.items() if any(l_[0] == 'int' and (K is None or str(l_[1]) == str(K)) for l_ in labs_)]
                f_edges = [s_ for s_ in edges_ if s_ not in t_edges]
                rt_ = ret_terms(Ti, t_edges) if t_edges else set()
                rf_ = ret_terms(Ti, f_edges) if f_edges else set()
                oki = len(t_edges) == 1 and bool(rt_) and all(x[0] == 'const' and str(x[2]).lower() == 'true' for x in rt_) and \
                    bool(rf_) and all(x[0] == 'const' and str(x[2]).lower() == 'false' for x in rf_)
    rep.ob('R3', 'is_set/acquire-load-of-complete', oki, ib.where(), 'is_set() = (load(state, Acquire|SeqCst) == COMPLETE)' if oki else 'is_set() is not an acquire load compared with COMPLETE')
    if K is None:
        return
    # ---- set(): R1, R2
    sb = inl(mac, m['set'])
    Ts = Terms(sb)
    acc = cell_accesses(sb, Ts, cellf)
    rep.sites(len(acc))
    cas = []
    stores = []
    others = []
    for bi, t in sb.calls():
        if sb.blocks[bi]['cleanup']:
            continue
        k = strip_generics(t.get('callee_full', ''))
        if not k.startswith(AT):
            continue
        ct = norm(Ts.call_term(bi))
        if self_field_name(ct[2][0]) != statef:
            continue
        op = k[len(AT):]
        if op == 'compare_exchange':
            cas.append((bi, ct))
        elif op == 'store':
            stores.append((bi, ct))
        elif op == 'swap' and evalc(mac, ct[2][1])[0] == 'const' and evalc(mac, ct[2][1])[2] == K:
            # `state.swap(COMPLETE, ..)` used to publish: a store whose old value is returned (the election stays the CAS;
            # a swap to any other value is still an "other RMW")
            stores.append((bi, ct))
        elif op != 'load':
            others.append((bi, op))
    ok1 = len(cas) == 1 and not others
    if not ok1:
        rep.bad('R1', 'set/one-strong-cas', m['set'].where(), 'the writer is not elected by exactly one strong compare_exchange on the state (found %d, other RMWs: %s): '
                'a swap/weak CAS/load+store lets a later set disturb a completed one or two setters write concurrently' % (len(cas), [o for _, o in others]))
        return
    cbi, cct = cas[0]
    exp, new = evalc(mac, cct[2][1]), evalc(mac, cct[2][2])
    okc = exp[0] == 'const' and exp[2] == E and new[0] == 'const' and new[2] not in (E, K)
    rep.ob('R1', 'set/cas-from-initial-to-private-state', okc, sb.where(cbi),
           'compare_exchange(INITIAL=%s -> %s), neither INITIAL nor COMPLETE=%s' % (E, new[2], K) if okc else
           'CAS goes %s -> %s (INITIAL is %s, readers test %s): readers could see COMPLETE before the value is written / the election can succeed twice' % (fmt(exp), fmt(new), E, K))
    oe = outcome_edges(Ts, cbi)
    ok_t = [s for (b_, s), v in oe.items() if v == 'ok']
    er_t = [s for (b_, s), v in oe.items() if v == 'err']
    if not ok_t or not er_t:
        rep.bad('R1', 'set/cas-result-examined', sb.where(cbi), 'the result of the CAS is not examined')
        return
    # every cell access dominated by an ok edge
    okd = bool(acc)
    for bi, kind in acc:
        eds = edge_dominators(sb, bi) or []
        if not any(oe.get(e) == 'ok' for e in eds):
            okd = False
    rep.ob('R1', 'set/cell-touched-only-by-the-winner', okd, m['set'].where(), 'every access to the cell is dominated by the Ok edge of the CAS' if okd else 'the cell is accessed without having won the CAS')
    _, er_reach = freach(Ts, er_t, known={cct: 'Err'})
    bad = [bi for bi, _ in acc if bi in er_reach] + [bi for bi, _ in stores if bi in er_reach]
    rep.ob('R1', 'set/loser-leaves-everything-alone', not bad, m['set'].where(), 'a failed CAS returns without touching cell or state' if not bad else 'a losing set still writes the cell/state')
    # R2 publish
    writes = [bi for bi, kind in acc if kind == 'write']
    pub = [(bi, ct) for bi, ct in stores if evalc(mac, ct[2][1])[0] == 'const' and evalc(mac, ct[2][1])[2] == K]
    okp = len(pub) >= 1 and len(stores) == len(pub)
    why = ''
    if not okp:
        why = 'set() stores %s to the state (readers wait for %s)' % ([fmt(ct[2][1]) for _, ct in stores], K)
    else:
        for bi, ct in pub:
            o = ordering(ct[2][2])
            if o not in ('Release', 'SeqCst') and not (o == 'AcqRel' and ct[1].endswith('::swap')):
                okp = False
                why = 'COMPLETE is published with Ordering::%s: the write of the value is not ordered before the flag, readers may see COMPLETE and a half-written cell' % o
        pubb = set(bi for bi, _ in pub)
        for w in writes:
            if w in pubb and sb.blocks[w]['term']['k'] == 'call':
                continue        # the write is a statement of the block whose terminator is the publishing store
            if not all(C.must_pass(sb, s, set(C.exits(sb, False)), pubb) for s in sb.succs(w, False)):
                okp = False
                why = 'a path writes the value and returns without publishing COMPLETE'
        for bi in pubb:
            late = [a for a, _ in acc if a in reach(sb, sb.succs(bi, False))]
            early = [w for w in writes if bi in reach(sb, [bi]) and w in reach(sb, sb.succs(bi, False))]
            if late:
                okp = False
                why = 'the cell is accessed after COMPLETE was published'
        if not writes:
            okp = False
            why = 'set() never writes the cell'
    rep.ob('R2', 'set/release-publish-after-write', okp, m['set'].where(), 'store(state, COMPLETE, Release|SeqCst) follows the write on every path, nothing after it' if okp else why)
    if writes:
        # value written is Some(Arc::new(param))
        vals = [norm(Ts.store_value(st)) for st in Ts.stores() if st[0] == 's' and any(cell_ptr(y, cellf) for y in walk(norm(st[3])))]
        for bi, kind in acc:
            if kind == 'write' and sb.blocks[bi]['term']['k'] == 'call':
                ct = norm(Ts.call_term(bi))
                if ct[0] == 'call' and ct[2] and ct[2][0][0] == 'ref' and any(cell_ptr(y, cellf) for y in walk(ct[2][0])):
                    # std: Option::replace(c, v) / insert(c, v) store Some(v); mem::replace(c, x) stores x
                    if term_callee_is(ct, 'core::option::Option::replace', 'core::option::Option::insert') and len(ct[2]) == 2:
                        vals.append(('adt', 'core::option::Option', 'Some', (('0', ct[2][1]),)))
                    elif term_callee_is(ct, 'core::mem::replace') and len(ct[2]) == 2:
                        vals.append(ct[2][1])
                    else:
                        vals.append(('unknown', ct[1]))
        okv = bool(vals) and all(v[0] == 'adt' and v[2] in ('Some', FULL) and (v[2] == FULL or v[1] == 'core::option::Option') and term_callee_is(dict(v[3])['0'], 'alloc::sync::Arc::new') and dict(v[3])['0'][2][0] == ('param', 2) for v in vals)
        rep.ob('R2', 'set/stores-the-given-client', okv, m['set'].where(), 'cell := Some(Arc::new(val))')
    # ---- R4 frame over the crate
    offenders = []
    nbodies = 0
    # private helpers of set()/get()/is_set() were analysed inlined at their only call sites
    allowed = {m['new'].path}
    for n_ in ('set', 'get', 'is_set'):
        allowed |= private_region(mac, m[n_], within_type=H)
    # methods of a private wrapper type around the cell / the state (Slot::read, Slot::write ..) that only set()/get()/is_set()
    # and their helpers call were analysed inlined there as well
    wrappers_ = set(type_head(f['ty']) for f in fields if f['name'] in (cellf, statef) and type_head(f['ty']) in mac.adts)
    changed_ = True
    while changed_:
        changed_ = False
        for x_ in mac.all_bodies:
            if x_.path in allowed or not (x_.impl_self and type_head(x_.impl_self) in wrappers_) or x_.impl_trait:
                continue
            callers_ = set(y_.path for y_ in mac.all_bodies for _, t_ in y_.calls() if t_.get('resolved') == x_.path)
            if callers_ and callers_ <= allowed | {m[n_].path for n_ in ('set', 'get', 'is_set', 'new')}:
                allowed.add(x_.path)
                changed_ = True
    # other public methods of the holder that read the cell (`get_ref()`): readers like get(), held to the same rules
    extra_readers = []
    base_ = {m[n_].path for n_ in ('set', 'get', 'is_set', 'new')}
    for x_ in mac.all_bodies:
        if x_.path in allowed | base_ or x_.def_kind != 'AssocFn' or x_.impl_trait or not (x_.impl_self and type_head(x_.impl_self) == H):
            continue
        if any(strip_generics(t_.get('callee_full', '')).startswith('core::cell::UnsafeCell::') for _, t_ in x_.calls()):
            rb_, Tr_, Kr_, _acc = reader_check(x_.short().rsplit('::', 1)[-1], x_, view_ok=True)
            rep.ob('R3', x_.short().rsplit('::', 1)[-1] + '/same-complete-value', Kr_ == K, x_.where(), 'tests the same COMPLETE value as get()')
            extra_readers.append((x_, rb_, Tr_))
            allowed.add(x_.path)
            allowed |= private_region(mac, x_, within_type=H)
    # closures written inside those bodies (`self.is_set().then(|| unsafe { &*self.value.get() }.clone())`) that were spliced
    # into the analysed body at their call: judged there, with the ordering rules
    spliced_ = set(x_[0] for ib_ in [sb, gb, ib] + [e_[1] for e_ in extra_readers] for x_ in (getattr(ib_, 'inlined', None) or []))
    for x_ in mac.all_bodies:
        if x_.def_kind == 'Closure' and x_.path in spliced_ and any(x_.path.startswith(a_ + '::{closure') for a_ in allowed | {m[n_].path for n_ in ('set', 'get', 'is_set')}):
            allowed.add(x_.path)
    m_all = dict(m)
    for x_, rb_, Tr_ in extra_readers:
        m_all['reader:' + x_.path] = x_
    for n_, ib_, T_ in [('get', gb, Tg), ('is_set', ib, Ti)] + [('reader:' + x_.path, rb_, Tr_) for x_, rb_, Tr_ in extra_readers]:
        for bi, t in ib_.calls():
            k = strip_generics(t.get('callee_full', ''))
            if k.startswith(AT) and k[len(AT):] in RMW and not ib_.blocks[bi]['cleanup']:
                ct = norm(T_.call_term(bi))
                if any(y[0] == 'field' and y[2] == statef for y in walk(ct[2][0])):
                    offenders.append((m_all[n_], None, 'modifies the state'))
    # the state cell is only ever used as the receiver of an atomic operation inside set/get/is_set: a reference to it
    # that is stored in a value (a drop guard ..) or handed to another function could modify it from code not analysed here
    def mentions_state(x):
        # a reference to the state cell itself (results of calls are values, not the cell)
        if not isinstance(x, tuple) or not x:
            return False
        if x[0] == 'field' and x[2] == statef and peel_all(x[1]) == ('param', 1):
            return True
        if x[0] == 'call':
            return False
        return any(mentions_state(y) for y in x if isinstance(y, tuple))

    def peel_all(x):
        while x[0] in ('ref', 'deref', 'unsize', 'autoderef', 'load'):
            x = x[1]
        return x
    for n_, ib_, T_ in [('set', sb, Ts), ('get', gb, Tg), ('is_set', ib, Ti)] + [('reader:' + x_.path, rb_, Tr_) for x_, rb_, Tr_ in extra_readers]:
        for bi, blk in enumerate(ib_.blocks):
            if blk['cleanup'] or blk.get('dead'):
                continue
            for si, s in enumerate(blk['stmts']):
                if s['k'] == 'assign' and s['rv']['k'] == 'agg' and s['rv'].get('ak') in ('adt', 'tuple', 'closure', 'array'):
                    v = norm(T_.rvalue_term(s['rv'], bi, si))
                    if mentions_state(v):
                        offenders.append((m_all[n_], None, 'stores a reference to the state in a value (%s): it can be modified from a destructor / another function' % fmt(v)[:60]))
            t = blk['term']
            if t['k'] == 'call':
                k = strip_generics(t.get('callee_full', ''))
                ct = norm(T_.call_term(bi))
                for ai, a in enumerate(ct[2] if ct[0] == 'call' else ()):
                    if mentions_state(a) and not (k.startswith(AT) and ai == 0):
                        offenders.append((m_all[n_], None, 'hands a reference to the state to %s' % k))
    for b in mac.all_bodies:
        nbodies += 1
        if b.path in allowed:
            continue
        if state_ty is not None:
            if b.impl_self and type_head(b.impl_self) == state_ty:
                continue        # the wrapper's own methods: judged where they are used (inlined into set/get/is_set)
            if b.def_kind not in ('Const', 'Static', 'AnonConst'):
                for bi, t in b.calls():
                    rb = mac.bodies.get(t.get('resolved') or '')
                    if rb is not None and rb.impl_self and type_head(rb.impl_self) == state_ty and rb.impl_trait is None and \
                            type_head(rb.locals[0]) != state_ty:
                        offenders.append((b, bi, 'drives the state through %s' % rb.short()))
        T = None
        for bi, t in b.calls():
            k = strip_generics(t.get('callee_full', ''))
            if k.startswith(AT) and k[len(AT):] in RMW:
                T = T or Terms(b)
                ct = norm(T.call_term(bi))
                if any(y[0] == 'field' and y[2] == statef for y in walk(ct[2][0])):
                    offenders.append((b, bi, 'modifies the state'))
            if k.startswith('core::cell::UnsafeCell::') and k.rsplit('::', 1)[-1] in ('get', 'raw_get', 'get_mut', 'into_inner'):
                offenders.append((b, bi, 'reaches into the cell'))
    rep.floor('R4', 'bodies in cadence-macros', nbodies, 10)
    rep.ob('R4', 'frame', not offenders, (offenders[0][0].where(offenders[0][1]) if offenders[0][1] is not None else offenders[0][0].where()) if offenders else '', 'only set() writes state/cell, only get() reads the cell' if not offenders else
           '%s %s' % (offenders[0][0].short(), offenders[0][2]))
    # is_set does not touch the cell
    acc_i = cell_accesses(ib, Ti, cellf)
    rep.ob('R4', 'is_set/no-cell-access', not acc_i, ib.where(), 'is_set() only loads the state')
    distinct = len({E, K, new[2]}) == 3
    rep.ob('R4', 'constants-distinct', distinct, '', 'INITIAL=%s, LOADING=%s, COMPLETE=%s are pairwise distinct' % (E, new[2], K))
    # who sets: within the crate the holder's set() is reached from the public set_global_default() only - no read path
    # (a macro helper, a lazy "default" installer) may install a client, or `is_set` turns true without anybody having set one
    setters = []
    for b in mac.all_bodies:
        if b.file.endswith('/test.rs') or '::tests::' in b.path or b.path in allowed:
            continue
        for bi, t in b.calls():
            if t.get('resolved') == m['set'].path or strip_generics(t.get('callee_full', '')).endswith('SingletonHolder::set'):
                # filling a holder this very function has just created (`impl From<T> for SingletonHolder<T>`) installs nothing
                # in a holder anybody else can see
                rc_ = peel(norm(Terms(b).call_term(bi))[2][0])
                if rc_[0] == 'call' and isinstance(rc_[1], str) and strip_generics(rc_[1]) == strip_generics(m['new'].path):
                    continue
                setters.append(b)
    pub_set = 'cadence_macros::state::set_global_default'
    region_set = private_region(mac, mac.bodies[pub_set]) | {pub_set} if pub_set in mac.bodies else set()
    oks = bool(setters) and all(strip_generics(b.path) in region_set or b.path in region_set for b in setters)
    rep.ob('R4', 'set-reached-only-from-set_global_default', oks, setters[0].where() if setters else '',
           'within the crate only set_global_default() calls the holder\'s set()' if oks else 'the holder\'s set() is called from %s' % sorted(set(b.short() for b in setters)))
    if upto == 'frame':
        return
    # ---- R5 bounds
    for tr, bound in (('core::marker::Sync', 'T: core::marker::Sync'), ('core::marker::Send', 'T: core::marker::Send')):
        im = [i for i in mac.impls_of(tr) if i.get('self_adt') == H]
        ok = len(im) == 1 and im[0]['unsafe'] and bound in im[0]['predicates']
        rep.ob('R5', 'unsafe-impl-%s-bounded' % tr.rsplit('::', 1)[-1], ok, im[0]['span']['file'] if im else '',
               'unsafe impl<T: %s> %s' % (bound.split(': ')[1].rsplit('::', 1)[-1], tr.rsplit('::', 1)[-1]) if ok else
               'the unsafe impl of %s is not bounded by %s: a holder of a non-thread-safe client could be shared' % (tr, bound))
    # compile-fail twin
    bad_src = 'use std::cell::Cell;\npub static H: cadence_macros::SingletonHolder<Cell<u8>> = cadence_macros::SingletonHolder::new();\n'
    good_src = 'use std::sync::atomic::AtomicU8;\npub static H: cadence_macros::SingletonHolder<AtomicU8> = cadence_macros::SingletonHolder::new();\n'
    okb, codes_b, msgs_b, err_b = cargo_check(ctx, 'witness_c18_bad', bad_src)
    okg2, codes_g, msgs_g, err_g = cargo_check(ctx, 'witness_c18_good', good_src)
    rep.sites(2)
    ok = (not okb) and 'E0277' in codes_b and okg2
    rep.ob('R5', 'compile-fail-twin', ok, 'witness', 'static SingletonHolder<Cell<u8>> is rejected with E0277 (Cell<u8>: !Sync) while the AtomicU8 twin compiles' if ok else
           'twin outcome: bad compiles=%s codes=%s ; good compiles=%s (%s)' % (okb, codes_b, okg2, (msgs_g or [err_g[-200:]])[:1]))
    # holder static is the only instance used by the global API
    st = [c for c in mac.consts.values() if 'Static' in c['kind']]

    def holds_holder(ty, depth=0):
        if H in ty:
            return True
        h = type_head(ty)
        return depth < 2 and h in mac.adts and any(holds_holder(f['ty'], depth + 1) for f in (adt_fields(mac, h) or []))
    hst = [c for c in st if holds_holder(c['ty'])]
    rep.ob('R4', 'one-global-holder', len(hst) == 1, '', 'exactly one static (holding the) holder: %s' % [c['path'] for c in hst])
    rule_global_api(mac, rep)


def rule_global_api(mac, rep, rid='R6'):
    """The three public functions are the holder's methods applied to the one static holder and nothing else: a second piece
    of state beside the holder (a flag raised by set_global_default, a cached Arc) answers "is it set" / "which client" by
    rules of its own - a setter that lost the election would raise the flag while the winner is still writing."""
    from .c17 import _lookup_shape
    HM = 'cadence_macros::state::SingletonHolder::'
    g = mac.bodies.get('cadence_macros::state::get_global_default')
    s = mac.bodies.get('cadence_macros::state::set_global_default')
    q = mac.bodies.get('cadence_macros::state::is_global_default_set')
    for n_, b_ in (('get_global_default', g), ('set_global_default', s), ('is_global_default_set', q)):
        if b_ is None:
            rep.anchor_lost(rid, n_)
    if g is None or s is None or q is None:
        return
    for b_ in (g, s, q):
        rep.analysed(b_)
    ok, rts, holder_id = _lookup_shape(mac, g)
    rep.ob(rid, 'get_global_default-is-holder-get', ok, g.where(), 'get_global_default() = HOLDER.get().ok_or(GlobalDefaultNotSet)' if ok else
           'get_global_default returns %s' % [fmt(x)[:100] for x in rts])

    def sole_holder_call(b_, meth):
        ib_ = inl(mac, b_, never=lambda x: strip_generics(x.path).startswith(HM))
        T_ = Terms(ib_)
        calls = [(bi, norm(T_.call_term(bi))) for bi, t in ib_.calls() if not ib_.blocks[bi]['cleanup']]
        stores = [1 for blk in ib_.blocks if not blk['cleanup'] for st_ in blk['stmts']
                  if st_['k'] == 'assign' and any(e[0] == 'deref' for e in st_['place']['p'])]
        if len(calls) != 1 or stores or not term_callee_is(calls[0][1], HM + meth):
            return None, ib_, T_, 'it makes the calls %s' % [fmt(c_)[:70] for _, c_ in calls]
        if holder_id is None or peel(calls[0][1][2][0]) != holder_id:
            return None, ib_, T_, 'it works on another holder than get_global_default'
        return calls[0], ib_, T_, ''
    c_, ib_, T_, why = sole_holder_call(s, 'set')
    oks = c_ is not None and c_[1][2][1] == ('param', 1)
    rep.ob(rid, 'set_global_default-is-holder-set', oks, s.where(), 'set_global_default(c) = HOLDER.set(c), nothing else is written' if oks else
           'set_global_default is not just HOLDER.set(client): %s' % (why or 'the client handed on is not its argument'))
    c_, ib_, T_, why = sole_holder_call(q, 'is_set')
    okq = False
    if c_ is not None:
        rts_ = ret_terms(T_, [0])
        okq = len(rts_) == 1 and norm(list(rts_)[0]) == c_[1]
        why = why or 'it returns %s' % [fmt(x)[:80] for x in rts_]
    rep.ob(rid, 'is_global_default_set-is-holder-is_set', okq, q.where(), 'is_global_default_set() = HOLDER.is_set()' if okq else
           'is_global_default_set does not answer with the holder\'s own state: %s' % why)
