"""C15 - queuing sink counters are consistent with what happened."""
from . import queuing as A
from . import queuing2 as B
from .qmodel import QModel

EXPLANATION = ('C15-R1 submitted += 1 exactly on the accepted edge; C15-R2 drained += 1 once per dequeued metric before the '
               'task, and the task hands the metric to the wrapped sink exactly once and is invoked from the counting loop only; C15-R3 counters change only by fetch_add(1) from one writer site each; C15-R4 queued() cannot wrap '
               '(linear-form entailment of the dominating guard).')


def check(ctx, rep):
    rep.trust('atomic fetch_add is exact under concurrency')
    m = QModel(ctx, rep)
    if not m.ok:
        return
    A.rule_emit(m, rep, 'R1', counters=True)
    A.rule_loop(m, rep, 'R2', drained=True)
    A.rule_counters(m, rep)
    # drained counts hand-offs to the wrapped sink: one emit per dequeued (= counted) metric
    A.rule_task_closure(m, rep, 'R2', parts=('once',))
    # ... and nothing but the counting loop hands metrics to the task
    B.rule_task_only_in_run(m, rep, 'R2')
