"""Anchors of the queuing sink found by role (private names are not relied on)."""
from ..terms import Terms, norm, fmt, walk
from .common import *

Q = 'cadence::sinks::queuing::QueuingMetricSink'
QB = 'cadence::sinks::queuing::QueuingMetricSinkBuilder'
SINK_TRAIT = 'cadence::sinks::core::MetricSink'
SPAWN_CALLS = ('std::thread::functions::spawn', 'std::thread::builder::Builder::spawn', 'std::thread::spawn', 'std::thread::Builder::spawn')
DROP_TRAIT = 'core::ops::drop::Drop'
CLONE_TRAIT = 'core::clone::Clone'
SENDER = 'crossbeam_channel::channel::Sender<'
RECEIVER = 'crossbeam_channel::channel::Receiver<'

BLOCKING = ('crossbeam_channel::channel::Sender::send', 'crossbeam_channel::channel::Sender::send_timeout',
            'crossbeam_channel::channel::Sender::send_deadline', 'crossbeam_channel::channel::Receiver::recv',
            'crossbeam_channel::channel::Receiver::recv_timeout', 'crossbeam_channel::channel::Receiver::recv_deadline',
            'std::thread::join_handle::JoinHandle::join', 'std::sync::poison::condvar::Condvar::wait',
            'std::sync::poison::condvar::Condvar::wait_while', 'std::sync::poison::condvar::Condvar::wait_timeout',
            'std::sync::barrier::Barrier::wait', 'std::thread::functions::park', 'std::thread::functions::sleep',
            'std::thread::functions::park_timeout', 'std::thread::functions::yield_now',
            'std::sync::mpsc::Receiver::recv', 'std::sync::mpsc::SyncSender::send',
            '<crossbeam_channel::channel::Iter as core::iter::traits::iterator::Iterator>::next',
            '<crossbeam_channel::channel::IntoIter as core::iter::traits::iterator::Iterator>::next')

DEQ_OPS = {
    'crossbeam_channel::channel::Receiver::recv': 'blocking',
    '<crossbeam_channel::channel::Iter as core::iter::traits::iterator::Iterator>::next': 'blocking',
    'crossbeam_channel::channel::Receiver::try_recv': 'nonblocking',
    'crossbeam_channel::channel::Receiver::recv_timeout': 'timed',
    'crossbeam_channel::channel::Receiver::recv_deadline': 'timed',
}
RECV_BENIGN = ('crossbeam_channel::channel::Receiver::is_empty', 'crossbeam_channel::channel::Receiver::len',
               'crossbeam_channel::channel::Receiver::iter', 'crossbeam_channel::channel::Receiver::is_full',
               '<crossbeam_channel::channel::Iter as core::iter::traits::collect::IntoIterator>::into_iter')


def arc_inner(ty):
    ty = ty.strip()
    if ty.startswith('alloc::sync::Arc<') and ty.endswith('>'):
        return ty[len('alloc::sync::Arc<'):-1]
    return None


class QModel:
    def __init__(self, ctx, rep):
        self.ok = False
        cad = self.cad = ctx.cad
        qf = adt_fields(cad, Q)
        if qf is None:
            rep.anchor_lost('Q0', 'struct QueuingMetricSink')
            return
        self.qfields = qf
        # worker ADT: Arc<_> field of the handle whose ADT owns a Sender and a Receiver
        self.worker = None
        self.task_trait = None
        for f in qf:
            inner = arc_inner(f['ty'])
            if inner and inner in cad.adts:
                fs = nested_fields(cad, inner)
                if any(x['ty'].startswith(SENDER) for x in fs) and any(x['ty'].startswith(RECEIVER) for x in fs):
                    self.worker = inner
                    self.f_worker = f['name']
        if self.worker is None:
            rep.anchor_lost('Q0', 'worker type (Arc<_> field of the handle holding both channel halves)')
            return
        wf = nested_fields(cad, self.worker)
        self.wfields = wf
        snd = [x for x in wf if x['ty'].startswith(SENDER)]
        rcv = [x for x in wf if x['ty'].startswith(RECEIVER)]
        task = [x for x in wf if any(x['ty'].replace('(', '', 1).startswith(p_ + '<dyn core::ops::function::Fn') and x['ty'].startswith(p_ + '<')
                                     for p_ in ('alloc::boxed::Box', 'alloc::sync::Arc'))]
        if not task:
            # the task behind a private trait with one blanket impl for closures (`trait Task { fn process(&self, v: String); }`,
            # `impl<F: Fn(String) + ..> Task for F`): calls of its method are devirtualised to that impl by the inliner
            import re as _re
            for x in wf:
                m_ = _re.match(r'^(alloc::boxed::Box|alloc::sync::Arc)<\(?dyn ([A-Za-z0-9_:]+)', x['ty'])
                if m_:
                    if True:
                        tr_ = m_.group(2)
                        tinfo = getattr(cad, 'traits', {}).get(tr_)
                        ims = [i for i in cad.impls_of(tr_) if not i.get('negative')] if tinfo else []
                        if tinfo and tinfo.get('reachable') is False and len(ims) == 1 and \
                                any('core::ops::function::Fn<(alloc::string::String,)>' in str(pr).replace(' ', '') or 'Fn(alloc::string::String)' in str(pr).replace(' ', '')
                                    for pr in ims[0].get('predicates', [])):
                            task.append(x)
                            self.task_trait = tr_
        if len(snd) != 1 or len(rcv) != 1 or len(task) != 1:
            rep.anchor_lost('Q0', 'worker fields sender/receiver/task (%d/%d/%d)' % (len(snd), len(rcv), len(task)))
            return
        self.f_sender, self.f_receiver, self.f_task = snd[0]['name'], rcv[0]['name'], task[0]['name']
        self.receiver_ty = rcv[0]['ty']
        self.sender_ty = snd[0]['ty']
        # handle's wrapped-sink field
        sk = [f for f in qf if 'dyn cadence::sinks::core::MetricSink' in f['ty']]
        self.f_sink = sk[0]['name'] if len(sk) == 1 else None
        # methods of the worker type
        wm = [b for b in cad.all_bodies if b.impl_self and type_head(b.impl_self) == self.worker and b.def_kind == 'AssocFn'
              and b.impl_trait is None]
        self.wmethods = wm
        # spawn function: the fn calling thread::spawn ; the worker loop is the worker method its closure calls
        self.spawn = [b for b in cad.all_bodies if b.def_kind in ('Fn', 'AssocFn') and in_module_of(b, Q) and not b.path.endswith('::tests') and '::tests::' not in b.path
                      and any(callee_is(t, *SPAWN_CALLS)
                              for _, t in b.calls())]
        wpaths = set(b.path for b in wm)
        self.run = []
        self.run_caller = None
        if len(self.spawn) == 1:
            todo = list(cad.closures_of(self.spawn[0].path))
            seen_ = set()
            while todo:
                c_ = todo.pop()
                if c_.path in seen_:
                    continue
                seen_.add(c_.path)
                for _, t in c_.calls():
                    r_ = t.get('resolved')
                    if r_ in wpaths:
                        if cad.bodies[r_] not in self.run:
                            self.run.append(cad.bodies[r_])
                            self.run_caller = c_
                    elif r_ in cad.bodies and t.get('resolved_local') and r_ != self.spawn[0].path and cad.bodies[r_].def_kind == 'Fn':
                        todo.append(cad.bodies[r_])
        self.stop = []
        self.submit = []
        sending = []
        for b0 in wm:
            if b0 in self.run:
                continue
            # entry points only: methods called from outside the worker type (handle, drop guards); helpers are inlined
            ext = [y for y in cad.all_bodies if y not in wm and any(t.get('resolved') == b0.path for _, t in y.calls())]
            if not ext:
                continue
            b = inl(cad, b0)
            T = Terms(b)
            for bi, t in b.calls():
                if b.blocks[bi]['cleanup']:
                    continue
                if callee_is(t, 'crossbeam_channel::channel::Sender::try_send', 'crossbeam_channel::channel::Sender::send',
                             'crossbeam_channel::channel::Sender::send_timeout'):
                    ct = norm(T.call_term(bi))
                    if not _path_has_field(ct[2][0], self.f_sender):
                        continue
                    pay = ct[2][1]
                    sending.append((b0, pay))
        # which sending entry point is which: the one reached from MetricSink::emit enqueues metrics, the one reached from a
        # destructor asks the worker to stop; the two message variants are whatever those two send (Option's Some/None
        # today, any two-variant message enum otherwise)
        self.v_metric = self.v_marker = None
        for b0, pay in sending:
            roots = self._caller_kinds(b0)
            if 'emit' in roots and 'drop' not in roots:
                if b0 not in self.submit:
                    self.submit.append(b0)
                if pay[0] == 'adt':
                    self.v_metric = pay[2] if self.v_metric in (None, pay[2]) else '?'
            elif 'drop' in roots and 'emit' not in roots:
                if b0 not in self.stop:
                    self.stop.append(b0)
                if pay[0] == 'adt':
                    self.v_marker = pay[2] if self.v_marker in (None, pay[2]) else '?'
        if self.v_metric in (None, '?') or self.v_marker in (None, '?') or self.v_metric == self.v_marker:
            rep.anchor_lost('Q0', 'message variants sent by emit (%s) and by the destructor (%s): the stop marker must be a variant of its own' % (self.v_metric, self.v_marker))
            return
        self.build = cad.method(QB, 'build')
        # stats getters on the public handle
        self.counters = {}
        self.ok_counters = True
        for name in ('submitted', 'drained', 'panics', 'queued'):
            bs = cad.method(Q, name)
            if len(bs) != 1:
                rep.anchor_lost('Q0', 'QueuingMetricSink::%s' % name)
                self.ok_counters = False
        if len(self.run) != 1 or len(self.stop) != 1 or len(self.submit) != 1 or len(self.spawn) != 1 or len(self.build) != 1:
            rep.anchor_lost('Q0', 'worker run/stop/submit, spawn fn, build by role: %d/%d/%d/%d/%d' % (
                len(self.run), len(self.stop), len(self.submit), len(self.spawn), len(self.build)))
            return
        self.run, self.stop, self.submit, self.spawn, self.build = (
            self.run[0], self.stop[0], self.submit[0], self.spawn[0], self.build[0])
        # build() is analysed with its private helpers (a `start(worker, sink)` constructor, guard constructors ..) inlined;
        # the spawn function and the worker constructor stay visible as events
        self.build0 = self.build
        self.worker_ctors = [x.path for x in names(cad).constructors(self.worker)]
        self.build_region = private_region(cad, self.build0)
        keep_ = set([self.spawn.path] + self.worker_ctors)
        try:
            self.build = inl(cad, self.build0, never=lambda x: x.path in keep_)
        except Exception:
            self.build = self.build0
        sc = self._closure_args(self.spawn, lambda t: callee_is(t, *SPAWN_CALLS))
        if len(sc) != 1:
            sc = cad.closures_of(self.spawn.path)
        wnew = [x.path for x in names(cad).constructors(self.worker)]
        bc = self._closure_args(self.build, lambda t: t.get('resolved') in wnew)
        if len(bc) != 1:
            bc = cad.closures_of(self.build.path)
        if len(sc) != 1 or len(bc) != 1:
            rep.anchor_lost('Q0', 'spawn closure / task closure (%d/%d)' % (len(sc), len(bc)))
            return
        self.spawn_closure, self.task_closure = sc[0], bc[0]
        # sentinel: ADT with a Drop impl whose drop calls the spawn fn
        self.sentinel = None
        for i in cad.impls_of(DROP_TRAIT):
            for it in i['items']:
                b = cad.bodies.get(it['path'])
                if b and any(t.get('resolved') == self.spawn.path for _, t in b.calls()):
                    self.sentinel = i.get('self_adt')
                    self.sentinel_drop = b
        if self.sentinel is None:
            # the respawn may sit in a private helper the destructor calls (`Worker::restart_after_panic(..)`)
            for i in cad.impls_of(DROP_TRAIT):
                for it in i['items']:
                    b = cad.bodies.get(it['path'])
                    if b is None or not in_module_of(b, Q):
                        continue
                    try:
                        ib_ = inl(cad, b, never=lambda x: x.path == self.spawn.path)
                    except Exception:
                        continue
                    if any(t.get('resolved') == self.spawn.path and not ib_.blocks[bi_]['cleanup'] for bi_, t in ib_.calls()):
                        self.sentinel = i.get('self_adt')
                        self.sentinel_drop = b
        if self.sentinel is None:
            rep.anchor_lost('Q0', 'sentinel (Drop impl that respawns the worker)')
            return
        # stats ADT + counter fields via the public getters
        self.stats_adt = None
        for f in adt_fields(cad, self.worker):
            if f['ty'] in cad.adts and any('Atomic<u' in x['ty'] for x in nested_fields(cad, f['ty'])):
                self.stats_adt = f['ty']
                self.f_stats = f['name']
        if self.stats_adt is None:
            rep.anchor_lost('Q0', 'worker statistics struct')
            return
        # which atomic each public getter reads; a getter that is not a plain load (a derived figure) leaves its counter
        # unknown - only the rules that talk about that counter fail closed on it (need_counters)
        self.missing_counters = []
        self.counter_width = {}
        for name in ('submitted', 'drained', 'panics'):
            fld = self._getter_field(name)
            if fld is None:
                self.missing_counters.append(name)
                continue
            self.counters[name] = fld
        for b in (self.run, self.stop, self.submit, self.spawn, self.build, self.spawn_closure, self.task_closure,
                  self.sentinel_drop):
            rep.analysed(b)
        self.ok = True

    def _caller_kinds(self, b0):
        """kinds of entry points from which b0 is (transitively) called: 'emit' (a MetricSink::emit impl), 'drop' (a Drop impl)"""
        cad = self.cad
        kinds = set()
        seen = set()
        todo = [b0.path]
        while todo:
            p_ = todo.pop()
            if p_ in seen:
                continue
            seen.add(p_)
            for y in cad.all_bodies:
                if any(t.get('resolved') == p_ for _, t in y.calls()):
                    owner = cad.bodies.get(_fn_owner(cad, y), y)
                    if owner.impl_trait == SINK_TRAIT and owner.name == 'emit':
                        kinds.add('emit')
                    elif owner.impl_trait == DROP_TRAIT:
                        kinds.add('drop')
                    todo.append(owner.path)
        return kinds

    def _closure_args(self, body, is_call):
        """closure literals handed as an argument to the calls selected by is_call (the role, not the count of closures)"""
        T = Terms(body)
        out = []
        for bi, t in body.calls():
            if body.blocks[bi]['cleanup'] or not is_call(t):
                continue
            direct, nested = [], []
            for a in norm(T.call_term(bi))[2]:
                d = a
                while d[0] in ('unsize', 'conv', 'ref', 'mutated') or (d[0] == 'call' and isinstance(d[1], str) and len(d[2]) == 1 and
                                                                         d[1].endswith(('Box::new', 'Arc::new'))):
                    d = d[1] if d[0] != 'call' else d[2][0]
                if d[0] == 'closure' and d[1] in self.cad.bodies:
                    direct.append(self.cad.bodies[d[1]])
                    continue
                # a closure buried in the computation of another argument (`cap.filter(|..| ..)`) is not the one handed over
                for y in walk(a):
                    if y[0] == 'closure' and y[1] in self.cad.bodies:
                        nested.append(self.cad.bodies[y[1]])
            for x in (direct or nested):
                if x not in out:
                    out.append(x)
        return out

    def _getter_field(self, name):
        """QueuingMetricSink::<name>() -> ... -> Atomic::load(&stats.<field>) : return <field>."""
        b = self.cad.method(Q, name)[0]
        ib = inl(self.cad, b)
        T = Terms(ib)
        rts = ret_terms(T, [0])
        if len(rts) != 1:
            return None
        from .sockets import peel_widening
        r, w_ = peel_widening(list(rts)[0])
        if not term_callee_is(r, 'core::sync::atomic::Atomic::load'):
            return None
        self._cw_seen = w_
        loc = peel(r[2][0])
        names = set(f['name'] for f in adt_fields(self.cad, self.stats_adt))
        while True:
            if loc[0] in ('load', 'deref', 'ref', 'autoderef'):
                loc = loc[1]
            elif loc[0] == 'field':
                if loc[2] in names and self._is_stats_base(loc[1]):
                    from .sockets import atomic_width
                    self.counter_width[name] = atomic_width(self.cad, self.stats_adt, loc[2], self._cw_seen)
                    return loc[2]
                loc = loc[1]
            else:
                return None

    def _is_stats_base(self, t):
        while t[0] in ('load', 'deref', 'ref', 'autoderef'):
            t = t[1]
        return t[0] == 'field' and t[2] == self.f_stats

    # ---- classification helpers on (normalised) call terms
    def need_counters(self, rep, rid, names_):
        miss = [n_ for n_ in names_ if n_ not in self.counters]
        for n_ in miss:
            rep.anchor_lost(rid, 'counter behind QueuingMetricSink::%s() (the getter is not a plain load of one atomic)' % n_)
        return not miss

    def is_counter_op(self, ct, counter, op):
        if not term_callee_is(ct, 'core::sync::atomic::Atomic::' + op):
            return False
        return self.counters.get(counter) is not None and _path_has_field(ct[2][0], self.counters.get(counter))

    def sends(self, body, T):
        """[(bb, kind, payload)] for sends on the worker's sender reachable in body."""
        out = []
        for bi, t in body.calls():
            if body.blocks[bi]['cleanup']:
                continue
            if callee_is(t, 'crossbeam_channel::channel::Sender::try_send', 'crossbeam_channel::channel::Sender::send',
                         'crossbeam_channel::channel::Sender::send_timeout', 'crossbeam_channel::channel::Sender::send_deadline'):
                ct = norm(T.call_term(bi))
                if _path_has_field(ct[2][0], self.f_sender):
                    out.append((bi, strip_generics(t['callee']).rsplit('::', 1)[-1], ct[2][1]))
        return out

    def task_calls(self, body, T):
        out = []
        for bi, t in body.calls():
            if body.blocks[bi]['cleanup']:
                continue
            if callee_is(t, 'core::ops::function::Fn>::call', 'core::ops::function::FnMut>::call_mut',
                         'core::ops::function::FnOnce>::call_once'):
                ct = norm(T.call_term(bi))
                if _path_has_field(ct[2][0], self.f_task):
                    out.append((bi, ct))
        return out

    def deq_calls(self, body, T):
        out = []
        for bi, t in body.calls():
            if body.blocks[bi]['cleanup']:
                continue
            k = strip_generics(t.get('callee_full', ''))
            if k in DEQ_OPS:
                out.append((bi, DEQ_OPS[k], norm(T.call_term(bi))))
        return out


def _path_has_field(t, field):
    """some field projection named `field` on the access path of t"""
    while True:
        k = t[0]
        if k in ('ref', 'deref', 'unsize', 'autoderef', 'conv', 'load', 'payload', 'mutated'):
            t = t[1]
        elif k == 'cast':
            t = t[4]
        elif k == 'field':
            if t[2] == field:
                return True
            t = t[1]
        else:
            return False


def nested_fields(cad, adt, depth=0):
    """fields of a local struct including those of local structs it contains by value"""
    out = []
    for f in adt_fields(cad, adt) or []:
        out.append(f)
        head = f['ty'].split('<', 1)[0]
        if depth < 3 and head in cad.adts and cad.adts[head]['kind'] == 'Struct' and head != adt:
            out += nested_fields(cad, head, depth + 1)
    return out


def transitive_local(cad, roots, stop_at=()):
    """Bodies reachable through statically resolved crate-local calls (closures passed as arguments included)."""
    seen = {}
    st = list(roots)
    while st:
        b = st.pop()
        if b.path in seen:
            continue
        seen[b.path] = b
        for bi, t in b.calls():
            r = t.get('resolved')
            if r and t.get('resolved_local') and r in cad.bodies and r not in stop_at:
                st.append(cad.bodies[r])
        for blk in b.blocks:
            for s in blk['stmts']:
                if s['k'] == 'assign' and s['rv']['k'] == 'agg' and s['rv'].get('ak') == 'closure':
                    cp = s['rv']['path']
                    if cp in cad.bodies and cp not in stop_at:
                        st.append(cad.bodies[cp])
    return list(seen.values())


def _fn_owner(cad, b):
    """path of the function a closure body belongs to (the body itself for functions)"""
    seen = 0
    while b.def_kind == 'Closure' and b.j.get('closure_parent') in cad.bodies and seen < 5:
        b = cad.bodies[b.j['closure_parent']]
        seen += 1
    return b.path


def private_region(cad, root, within_type=None):
    """root(s) + private methods that are only called (transitively) from the region: helpers of `root`."""
    region = set(r.path for r in root) if isinstance(root, (list, tuple, set)) else {root.path}
    changed = True
    while changed:
        changed = False
        for x in cad.all_bodies:
            if x.path in region or x.j.get('reachable') or x.def_kind not in ('AssocFn', 'Fn'):
                continue
            if within_type and not (x.impl_self and type_head(x.impl_self) == within_type):
                continue
            callers = set(_fn_owner(cad, y) for y in cad.all_bodies for _, t in y.calls() if t.get('resolved') == x.path)
            if callers and callers <= region:
                region.add(x.path)
                changed = True
    return region
