"""Helpers shared by rule modules."""
from .. import cfg as C
from .. import terms as TM
from .. import typestate as TS
from ..facts import strip_generics, type_head
from ..inline import inline, local_picker
from ..terms import Terms, norm, fmt, walk


def one(rep, rule, what, lst):
    """Exactly one anchor expected."""
    if len(lst) != 1:
        rep.anchor_lost(rule, '%s (found %d)' % (what, len(lst)))
        return None
    return lst[0]


def callee_is(t, *suffixes):
    """Does call terminator t call a function whose generic-stripped written or resolved path ends with a suffix?"""
    names = []
    for k in ('callee_full', 'resolved_full', 'callee', 'resolved'):
        if t.get(k):
            names.append(strip_generics(t[k]))
    for n in names:
        for s in suffixes:
            if n == s or n.endswith(s):
                return True
    return False


def term_callee_is(term, *suffixes):
    return term[0] == 'call' and isinstance(term[1], str) and any(term[1] == s or term[1].endswith(s) for s in suffixes)


def call_blocks(body, *suffixes, cleanup=False):
    out = []
    for bi, b in enumerate(body.blocks):
        if b['cleanup'] and not cleanup:
            continue
        t = b['term']
        if t['k'] == 'call' and callee_is(t, *suffixes):
            out.append(bi)
    return out


def inl(crate, body, thread=True, **kw):
    pk = local_picker(crate, **kw)
    ib = inline(crate, body, pk)
    from ..desugar import desugar
    for _ in range(3):
        try:
            db = desugar(crate, ib)
        except Exception:
            db = None
        if db is None:
            break
        ib = inline(crate, db, pk)
    unrolled = False
    try:
        from ..unroll import unroll_array_loops
        ub = unroll_array_loops(crate, ib)
        if ub is not None:
            ib = ub
            unrolled = True
    except Exception:
        pass
    if thread:
        from ..thread import thread_jumps
        try:
            ib = thread_jumps(ib, fold_eq=(thread != 'noeq'))
        except RecursionError:
            pass
    if unrolled:
        # `if i == 0` on the index of an unrolled loop
        try:
            from ..unroll import prune_const_switches
            ib = prune_const_switches(ib)
        except Exception:
            pass
    return ib


def is_empty_vec(v):
    """a freshly made, empty Vec: Vec::new() / Vec::with_capacity(n) / Vec::default() / Default::default() of a Vec"""
    v = norm(v) if isinstance(v, tuple) else v
    if not isinstance(v, tuple):
        return False
    if term_callee_is(v, 'alloc::vec::Vec::new', 'alloc::vec::Vec::with_capacity'):
        return True
    return v[0] == 'call' and isinstance(v[1], str) and not v[2] and v[1] in ('<alloc::vec::Vec as core::default::Default>::default',)


def strip_load(t):
    """Drop 'load' wrappers whose version is entry; keep others."""
    return t


def unref(t):
    """Peel &, unsize, autoderef, identity conversions to reach the underlying location/value."""
    while True:
        if t[0] == 'ref':
            t = t[1]
        elif t[0] in ('unsize', 'autoderef', 'conv'):
            t = t[1]
        elif t[0] == 'deref' and t[1][0] in ('ref', 'autoderef'):
            t = t[1][1]
        else:
            return t


def peel(t):
    """Like unref but also peels deref: reduces `&*x`, `*&x`, `&mut *x` chains to x."""
    while True:
        if t[0] in ('ref', 'deref'):
            t = t[1]
        elif t[0] in ('unsize', 'autoderef', 'conv'):
            t = t[1]
        else:
            return t


VIEW_FNS = ('as_path', 'as_str', 'as_ref', 'as_slice', 'as_bytes', 'borrow', 'as_mut', 'as_os_str', 'as_deref', 'as_deref_mut')


def deep_peel(t):
    """peel() applied along the whole access path: &(*p).0 -> p.0"""
    t = peel(t)
    if t[0] == 'field':
        return ('field', deep_peel(t[1]), t[2])
    if t[0] == 'payload':
        return ('payload', deep_peel(t[1]), t[2])
    if t[0] == 'load':
        return deep_peel(t[1])
    return t


def self_field_name(t, param=1):
    """If t is (a reference to / a value inside) self.<f>... return f: the first field on the access path from the
    parameter (`&mut *arg1.inner` -> inner ; `*(arg1.sink.0.pointer as *const dyn ..)` -> sink)."""
    name = None
    while True:
        k = t[0]
        if k in ('ref', 'deref', 'unsize', 'autoderef', 'conv', 'load', 'payload'):
            t = t[1]
        elif k == 'cast':
            t = t[4]
        elif k == 'field':
            name = t[2]
            t = t[1]
        elif k == 'mutated':
            t = t[1]
        elif k == 'call' and isinstance(t[1], str) and len(t[2]) == 1 and t[1].rsplit('::', 1)[-1] in VIEW_FNS:
            t = t[2][0]
        else:
            break
    if t == ('param', param):
        return name
    return None


def is_field_of_self(t, field, param=1):
    return self_field_name(t, param) == field


def freach(T, starts, known=None):
    """Feasible reachability from `starts`: like reach(), but at a switch on the discriminant of a value that - on
    paths through `starts` - is a known enum variant (typically the Ok/Err result of an inlined callee examined by
    `?`), only the matching edge is followed. Returns (restricted Terms, set of blocks)."""
    body = T.body
    R = T.restrict(starts)
    seen = set()
    kept = {}
    st = list(starts)
    while st:
        b = st.pop()
        if b in seen:
            continue
        seen.add(b)
        blk = body.blocks[b]
        succs = body.succs(b, False)
        if blk['term']['k'] == 'switch':
            sf = R.switch_facts(b)
            if sf is not None:
                dt, edges = sf
                nd = norm(dt)
                if nd[0] == 'const' and nd[1] == 'bool' and isinstance(nd[2], bool):
                    keep = [s for s, labs in edges.items() if ('bool', nd[2]) in labs]
                    if keep:
                        succs = keep
                v = _known_variant(nd, known)
                if v is not None:
                    keep = [s for s, labs in edges.items() if any(l[0] == 'variant' and l[1] in v for l in labs)]
                    if keep:
                        succs = keep
                elif known:
                    bv = _known_bool(norm(dt), known)
                    if bv is not None:
                        keep = [s for s, labs in edges.items() if ('bool', bv) in labs]
                        if keep:
                            succs = keep
        kept[b] = list(succs)
        for s in succs:
            st.append(s)
    R2 = T.restrict(starts, within=seen)
    R2._restricted = seen
    R2._kept_edges = kept
    return R2, seen


def fmust_pass(T, starts, through, known=None):
    """On the feasible sub-graph entered through `starts`: does every path to a return pass a block of `through`?"""
    R, seen = freach(T, starts, known)
    kept = R._kept_edges
    body = T.body
    st = [s for s in starts]
    vis = set()
    while st:
        b = st.pop()
        if b in vis or b in through:
            continue
        vis.add(b)
        if body.blocks[b]['term']['k'] == 'return':
            return False
        for s in kept.get(b, []):
            st.append(s)
    return True


def result_cases(T, call_bb, subject=None):
    """How the returned value depends on the outcome of the call in block call_bb (or of `subject` term).
    Returns {'ok': set(leaves), 'err': set(leaves), '?': set(leaves)}; both `match`/`?`/is_ok() switches and the std
    combinators (map, map_err, ok_or_else, ...) are understood."""
    from .. import symb
    ct = subject if subject is not None else norm(T.call_term(call_bb))
    OKV, ERRV = ('Ok', 'Some'), ('Err', 'None')
    out = {'ok': set(), 'err': set(), '?': set()}

    def add(side, terms, knownv):
        for r in terms:
            for asm, leaf in symb.split_cases(r):
                cls = side
                contradiction = False
                for s, v in asm:
                    if s == ct:
                        c2 = 'ok' if v in OKV else 'err'
                        if side in ('ok', 'err') and c2 != side:
                            contradiction = True
                        cls = c2
                if not contradiction:
                    out[cls].add(leaf)

    oe = first_outcome_edges(T, call_bb) if call_bb is not None else {}
    ok_e = set(s for (b, s), v in oe.items() if v == 'ok')
    err_e = set(s for (b, s), v in oe.items() if v == 'err')
    if ok_e and err_e:
        # is the result an Option or a Result? take the label set from the switch
        add('ok', ret_terms(T, ok_e, known={ct: 'Ok'}), 'ok')
        add('err', ret_terms(T, err_e, known={ct: 'Err'}), 'err')
    else:
        add('?', ret_terms(T, [0]), None)
    return out


_EQUIV = {'Ok': ('Ok', 'Some', 'Continue'), 'Err': ('Err', 'None', 'Break'), 'Some': ('Some', 'Ok', 'Continue'), 'None': ('None', 'Err', 'Break')}


def _known_bool(dt, known):
    if dt[0] == 'call' and isinstance(dt[1], str) and len(dt[2]) == 1:
        a = dt[2][0]
        if a[0] == 'ref':
            a = a[1]
        v = known.get(a)
        if v is None:
            return None
        okish = v in ('Ok', 'Some')
        if dt[1].endswith('::is_ok') or dt[1].endswith('::is_some'):
            return okish
        if dt[1].endswith('::is_err') or dt[1].endswith('::is_none'):
            return not okish
    return None


def _known_variant(dt, known=None):
    if dt[0] != 'discr':
        return None
    x = dt[1]
    via_try = False
    if x[0] == 'call' and isinstance(x[1], str) and x[1].endswith('as core::ops::try_trait::Try>::branch'):
        x = x[2][0]
        via_try = True
    if x[0] == 'load':
        x = x[1]
    if known and x in known:
        v = known[x]
        return _EQUIV.get(v, (v,))
    vs = set()
    for y in flatten_phi(x):
        if y[0] != 'adt':
            return None
        vs.add(y[2])
    if len(vs) != 1:
        return None
    v = list(vs)[0]
    return _EQUIV.get(v, (v,))


def outcome_edges(T, call_bb):
    """Edges that reveal the outcome of the call in block call_bb: {(switch_bb, succ): 'ok'|'err'}.
    Recognises switches on the discriminant of the result (directly or through Try::branch) and on
    is_ok()/is_err()/is_some()/is_none() of a reference to it."""
    body = T.body
    ct = T.call_term(call_bb)
    out = {}
    for bi, b in enumerate(body.blocks):
        if b['term']['k'] != 'switch':
            continue
        sf = T.switch_facts(bi)
        if sf is None:
            continue
        dt, edges = sf
        if dt[0] == 'discr':
            x = dt[1]
            if x[0] == 'call' and isinstance(x[1], str) and x[1].endswith('as core::ops::try_trait::Try>::branch'):
                x = x[2][0]
            if x[0] == 'load':
                x = x[1]
            if x != ct:
                continue
            for succ, labs in edges.items():
                for lab in labs:
                    if lab[0] == 'variant':
                        if lab[1] in ('Ok', 'Some', 'Continue'):
                            out[(bi, succ)] = 'ok'
                        elif lab[1] in ('Err', 'None', 'Break'):
                            out[(bi, succ)] = 'err'
        elif dt[0] == 'call' and isinstance(dt[1], str) and len(dt[2]) == 1:
            pol = None
            if dt[1].endswith('::is_ok') or dt[1].endswith('::is_some'):
                pol = True
            elif dt[1].endswith('::is_err') or dt[1].endswith('::is_none'):
                pol = False
            if pol is None:
                continue
            a = dt[2][0]
            if a[0] == 'ref':
                a = a[1]
            if a != ct:
                continue
            for succ, labs in edges.items():
                for lab in labs:
                    if lab[0] == 'bool':
                        out[(bi, succ)] = 'ok' if lab[1] == pol else 'err'
    return out


def outcomes(T, call_bb):
    """Blocks entered on the Ok/Some(Continue) and Err/None(Break) edges of the switches examining the result of the
    call in block call_bb. Returns (ok_entries, err_entries, switches)."""
    oe = first_outcome_edges(T, call_bb)
    ok = set(s for (b, s), v in oe.items() if v == 'ok')
    err = set(s for (b, s), v in oe.items() if v == 'err')
    return ok, err, sorted(set(b for (b, s) in oe))


def first_outcome_edges(T, call_bb):
    """outcome_edges without the re-tests: a switch that is only reached through another outcome edge of the same call
    (a drop-flag style second look at the same result after the arms have merged) tells nothing new, and its targets
    are entered from both outcomes"""
    oe = outcome_edges(T, call_bb)
    body = T.body
    srcs = set(b for (b, s) in oe)
    later = set()
    for sb in srcs:
        others = [s for (b, s) in oe if b != sb]
        if others and sb in reach(body, others) and not any(b in reach(body, [s for (b2, s) in oe if b2 == sb]) for b in srcs if b != sb):
            later.add(sb)
    return {k: v for k, v in oe.items() if k[0] not in later}


def outcome_paths(T, call_bb, events, starts=None, unwind=False):
    """Feasible paths from the call in call_bb to a return, tracking (a) what is known about the call's outcome from
    the switches passed ('?' | 'ok' | 'err'; contradictory edges are pruned) and (b) how many blocks of each event
    class were passed (saturating at 2). `events` maps class name -> set of blocks.
    Returns set of (fact, ((class, count), ...)) observed at returns, plus the same at `resume` exits if unwind."""
    body = T.body
    oe = outcome_edges(T, call_bb)
    names = sorted(events)

    def node_events(bb):
        return [('E', n) for n in names if bb in events[n]]

    def edge_events(bb, s):
        v = oe.get((bb, s))
        return [('F', v)] if v else []

    def delta(st, ev):
        fact, counts = st
        if ev[0] == 'F':
            if fact == '?':
                return (ev[1], counts)
            if fact != ev[1]:
                return None
            return st
        i = names.index(ev[1])
        c = list(counts)
        c[i] = min(c[i] + 1, 2)
        return (fact, tuple(c))

    init = ('?', tuple(0 for _ in names))
    if starts is None:
        starts = body.succs(call_bb, False)
    out = set()
    for s in starts:
        res = TS.run(body, init, node_events, edge_events, delta, unwind=unwind, entry=s)
        for (bb, k), ss in res.at_exit.items():
            if k == 'return' or (unwind and k == 'resume'):
                for st in ss:
                    out.add((k, st[0], tuple(zip(names, st[1]))))
    return out


def reach(body, starts, stop=None, unwind=False):
    seen = set()
    st = list(starts)
    while st:
        b = st.pop()
        if b in seen:
            continue
        seen.add(b)
        if stop is not None and stop(b):
            continue
        for s in body.succs(b, unwind):
            st.append(s)
    return seen


def flatten_phi(t):
    if t[0] == 'phi':
        out = set()
        for x in t[1]:
            out |= flatten_phi(x)
        return out
    return {t}


def ret_terms(T, starts, local=0, known=None):
    """Normalised terms that local `_0` may hold at a `return` reachable from any block in `starts`, evaluated with
    reaching definitions restricted to paths through `starts`."""
    body = T.body
    starts = list(starts)
    if starts == [0]:
        R = T
        seen = reach(body, [0])
    else:
        R, seen = freach(T, starts, known)
    out = set()
    for b in seen:
        blk = body.blocks[b]
        if blk['term']['k'] == 'return' and not blk['cleanup']:
            out |= flatten_phi(norm(R.local_term(local, b, len(blk['stmts']))))
    return out


def edge_dominators(body, target, entry=0, removed=(), unwind=False):
    """Switch edges (s, t) such that every path entry->target uses the edge (graph minus `removed` blocks)."""
    removed = set(removed)

    def reachable_without(edge):
        seen = set()
        st = [entry]
        while st:
            b = st.pop()
            if b in seen or b in removed:
                continue
            seen.add(b)
            if b == target:
                return True
            for s in body.succs(b, unwind):
                if edge is not None and (b, s) == edge:
                    continue
                st.append(s)
        return False

    if not reachable_without(None):
        return None
    out = []
    for bi, b in enumerate(body.blocks):
        if b['term']['k'] != 'switch' or bi in removed:
            continue
        for s in set(body.succs(bi, unwind)):
            if not reachable_without((bi, s)):
                out.append((bi, s))
    return out


def guards_of(T, target, removed=(), entry=0):
    """[(discr_term, labels, switch_bb)] for the switch edges that dominate `target`."""
    eds = edge_dominators(T.body, target, entry=entry, removed=removed)
    if eds is None:
        return None
    out = []
    for (bi, s) in eds:
        sf = T.switch_facts(bi)
        if sf is None:
            continue
        dt, edges = sf
        labels = edges.get(s, [])
        # `if !cond` / a helper returning `!x.is_empty()`: a guard on Not(c) with truth b is a guard on c with truth !b
        nd = norm(dt)
        while nd[0] == 'un' and nd[1] == 'Not' and all(l[0] == 'bool' for l in labels):
            labels = [('bool', not l[1]) for l in labels]
            dt = nd = nd[2]
        # `match a.cmp(&b) { Greater => .., Less | Equal => .. }`: a three-way comparison is a comparison
        if nd[0] == 'discr' and nd[1][0] == 'call' and isinstance(nd[1][1], str) and nd[1][1].endswith(('as core::cmp::Ord>::cmp', 'cmp::Ord::cmp')) and len(nd[1][2]) == 2:
            a_, b_ = peel(nd[1][2][0]), peel(nd[1][2][1])
            vs = set()
            for l in labels:
                if l[0] == 'variant':
                    vs.add(l[1])
                elif l[0] == 'variants':
                    vs |= set(l[1])
            form = {frozenset(['Greater']): ('Gt', True), frozenset(['Less']): ('Lt', True), frozenset(['Equal']): ('Eq', True),
                    frozenset(['Less', 'Equal']): ('Gt', False), frozenset(['Greater', 'Equal']): ('Lt', False),
                    frozenset(['Greater', 'Less']): ('Eq', False)}.get(frozenset(vs))
            if form is not None:
                dt = ('bin', form[0], a_, b_)
                labels = [('bool', form[1])]
        # a constant written on the left (`0 == v.count()`) reads the other way round; `x.len() == 0` / `!= 0` / `> 0` / `>= 1` /
        # `< 1` is `x.is_empty()` / its negation
        nd = norm(dt)
        if nd[0] == 'bin' and nd[1] in ('Eq', 'Ne', 'Lt', 'Le', 'Gt', 'Ge') and labels and all(l[0] == 'bool' for l in labels):
            op_, a_, c_ = nd[1], nd[2], nd[3]
            if a_[0] == 'const' and c_[0] != 'const':
                op_ = {'Lt': 'Gt', 'Gt': 'Lt', 'Le': 'Ge', 'Ge': 'Le', 'Eq': 'Eq', 'Ne': 'Ne'}[op_]
                a_, c_ = c_, a_
                dt = nd = ('bin', op_, a_, c_)
            if c_[0] == 'const' and a_[0] == 'call' and isinstance(a_[1], str) and a_[1].endswith('::len') and len(a_[2]) == 1:
                empty_when_true = {('Eq', '0'): True, ('Le', '0'): True, ('Lt', '1'): True, ('Ne', '0'): False, ('Gt', '0'): False, ('Ge', '1'): False}.get((op_, str(c_[2])))
                if empty_when_true is not None:
                    dt = ('call', a_[1][:-len('len')] + 'is_empty', a_[2]) + tuple(a_[3:])
                    if not empty_when_true:
                        labels = [('bool', not l[1]) for l in labels]
        out.append((dt, labels, bi))
    return out


def count_events(body, is_event, starts=(0,), unwind=False, cap=2, until=None):
    """Typestate counter: for every path from `starts` to a return, how many blocks satisfy is_event(bb)?
    Returns the set of counts (saturated at cap) observed at returns (or at blocks in `until`)."""
    def node_events(bb):
        return ['E'] if is_event(bb) else []

    def delta(st, ev):
        return min(st + 1, cap)

    counts = set()
    for s in starts:
        res = TS.run(body, 0, node_events, lambda a, b: [], delta, unwind=unwind, entry=s)
        for (bb, k), ss in res.at_exit.items():
            if k == 'return':
                counts |= ss
    return counts


def where(body, bb=None, idx=None):
    return body.where(bb, idx)


def store_sites(T, field, param=1):
    """Statements storing to self.<field> (through the pointer param): list of (bb, idx, value_term)."""
    out = []
    for st in T.stores():
        if st[0] != 's':
            continue
        loc = st[3]
        if loc[0] == 'field' and loc[2] == field and peel(loc[1]) == ('param', param):
            out.append((st[1], st[2], norm(T.store_value(st))))
    # `mem::replace(&mut self.<field>, v)` stores v (std), `mem::take(&mut self.<field>)` stores the default value
    for st in T.stores():
        if st[0] != 'k':
            continue
        loc = st[3]
        if loc[0] == 'field' and loc[2] == field and peel(loc[1]) == ('param', param):
            ct = norm(T.call_term(st[1]))
            if ct[0] == 'call' and ct[1] == 'core::mem::replace' and len(ct[2]) == 2:
                out.append((st[1], None, norm(ct[2][1])))
            elif ct[0] == 'call' and ct[1] == 'core::mem::take' and len(ct[2]) == 1:
                out.append((st[1], None, ('default',)))
    return out


def adt_fields(crate, path):
    a = crate.adts.get(path)
    if not a:
        return None
    return a['variants'][0]['fields']


class Names:
    """Private field / variant names looked up by what they hold (types), never assumed: renaming them must not matter."""
    MB = 'cadence::builder::MetricBuilder'
    ME = 'cadence::types::MetricError'
    QB = 'cadence::sinks::queuing::QueuingMetricSinkBuilder'

    def __init__(self, cad):
        self.cad = cad
        self.mb_repr, self.mb_enum = self._enum_field(self.MB)
        self.v_success = self._variant(self.mb_enum, lambda ty: 'MetricFormatter' in ty)
        self.v_error = self._variant(self.mb_enum, lambda ty: ty == self.ME)
        self.me_repr, self.me_enum = self._enum_field(self.ME)
        self.v_io = self._variant(self.me_enum, lambda ty: ty == 'std::io::error::Error')
        self.v_desc = self._variant(self.me_enum, lambda ty: ty.endswith('ErrorKind'))
        self.qb_capacity = self.field(self.QB, lambda ty: ty.replace(' ', '') == 'core::option::Option<usize>')
        self.qb_handler = self.field(self.QB, lambda ty: 'dyncore::ops::function::Fn(std::io::error::Error)' in ty.replace(' ', ''))
        if self.qb_capacity is None:
            # several Option<usize> settings: the capacity is the one the public with_capacity() setter fills
            self.qb_capacity = self._field_set_by(self.QB, 'with_capacity')

    def _field_set_by(self, adt, setter):
        bs = self.cad.method(adt, setter)
        if len(bs) != 1:
            return None
        try:
            rts = ret_terms(Terms(bs[0]), [0])
        except Exception:
            return None
        if len(rts) != 1:
            return None
        hits = set()
        for y in walk(list(rts)[0]):
            # `mut self` updated in place: ('update', base, path, value)
            if y[0] == 'update' and y[3][0] == 'adt' and y[3][2] == 'Some' and len(y[3][3]) == 1 and peel(y[3][3][0][1]) == ('param', 2) and y[2]:
                hits.add(y[2][-1])
            if y[0] == 'adt':
                for n_, v_ in y[3]:
                    if v_[0] == 'adt' and v_[2] == 'Some' and len(v_[3]) == 1 and peel(v_[3][0][1]) == ('param', 2):
                        hits.add(n_)
        hits = set(h for h in hits if isinstance(h, str) and not h.isdigit())
        return list(hits)[0] if len(hits) == 1 else None

    def field(self, adt, pred):
        hits = [f['name'] for f in adt_fields(self.cad, adt) or [] if pred(f['ty'])]
        return hits[0] if len(hits) == 1 else None

    def _enum_field(self, adt):
        for f in adt_fields(self.cad, adt) or []:
            h = type_head(f['ty'])
            if h in self.cad.adts and self.cad.adts[h]['kind'] == 'Enum':
                return f['name'], h
        return None, None

    def _variant(self, enum, pred):
        a = self.cad.adts.get(enum) if enum else None
        if not a:
            return None
        hits = [v['name'] for v in a['variants'] if any(pred(f['ty']) for f in v['fields'])]
        return hits[0] if len(hits) == 1 else None

    # ---- private / crate-private functions by role (signature + what they build), never by name
    def inherent(self, adt):
        return [b for b in self.cad.all_bodies if b.impl_self and type_head(b.impl_self) == adt and b.impl_trait is None and b.def_kind == 'AssocFn']

    @staticmethod
    def param_heads(b):
        return [type_head(b.locals[i]) for i in range(1, b.arg_count + 1)]

    def constructors(self, adt):
        """inherent functions returning `adt` (or Result/tuple containing it is not considered) that take no `adt` value"""
        return [b for b in self.inherent(adt) if type_head(b.locals[0]) == adt and adt not in self.param_heads(b)]

    def _one(self, xs):
        return xs[0] if len(xs) == 1 else None

    def _memo(self, key, fn):
        c = self.__dict__.setdefault('_fn_memo', {})
        if key not in c:
            c[key] = fn()
        return c[key]

    @property
    def mb_from_fmt(self):
        """the MetricBuilder constructor taking the formatter by value"""
        return self._memo('mb_from_fmt', lambda: self._one([b for b in self.constructors(self.MB) if any('MetricFormatter' in h or h == self.formatter for h in self.param_heads(b))]))

    @property
    def formatter(self):
        def f():
            a = self.cad.adts.get(self.mb_enum)
            for v in (a or {}).get('variants', []):
                if v['name'] == self.v_success:
                    for fl in v['fields']:
                        h = type_head(fl['ty'])
                        if h in self.cad.adts and h.startswith('cadence::builder::'):
                            return h
            return None
        return self._memo('formatter', f)

    @property
    def mb_from_error(self):
        """the MetricBuilder constructor taking a MetricError"""
        return self._memo('mb_from_error', lambda: self._one([b for b in self.constructors(self.MB) if self.ME in self.param_heads(b)]))

    @property
    def scb_new(self):
        SCB = 'cadence::client::StatsdClientBuilder'
        return self._memo('scb_new', lambda: self._one(self.constructors(SCB)))

    @property
    def sc_from_builder(self):
        SC, SCB = 'cadence::client::StatsdClient', 'cadence::client::StatsdClientBuilder'
        return self._memo('sc_from_builder', lambda: self._one([b for b in self.constructors(SC) if SCB in self.param_heads(b)]))

    @property
    def mv_count(self):
        MV = 'cadence::builder::MetricValue'
        return self._memo('mv_count', lambda: self._one([b for b in self.inherent(MV) if b.locals[0] == 'usize' and self.param_heads(b) == [MV]]))

    def string_field(self, adt):
        return self.field(adt, lambda ty: ty == 'alloc::string::String')

    def missing(self):
        return [k for k in ('mb_repr', 'v_success', 'v_error', 'me_repr', 'v_io', 'qb_capacity', 'qb_handler') if getattr(self, k) is None]


def names(cad):
    n = getattr(cad, '_names', None)
    if n is None:
        n = cad._names = Names(cad)
    return n


role_names = names


def _tag_struct(cad, h):
    """a private struct of the client module with exactly an Option<String> (key) and a String (value): a default tag by
    another name -> (key field, value field)"""
    a = cad.adts.get(h) if cad is not None else None
    if not a or a['kind'] != 'Struct' or not h.startswith('cadence::client::'):
        return None
    fs = a['variants'][0]['fields']
    k = [f['name'] for f in fs if f['ty'].replace(' ', '') == 'core::option::Option<alloc::string::String>']
    v = [f['name'] for f in fs if f['ty'].replace(' ', '') == 'alloc::string::String']
    return (k[0], v[0]) if len(fs) == 2 and len(k) == 1 and len(v) == 1 else None


def _role_of_type(ty, cad=None):
    ty = ty.replace(' ', '')
    if ty in ('alloc::boxed::Box<str>', 'alloc::sync::Arc<str>'):
        return 'prefix'
    if ty.startswith('alloc::vec::Vec<') and _tag_struct(cad, type_head(ty[len('alloc::vec::Vec<'):-1])):
        return 'tags'
    if 'dyncadence::sinks::core::MetricSink' in ty:
        return 'sink'
    if 'dyncore::ops::function::Fn(cadence::types::MetricError)' in ty:
        return 'errors'
    if ty == 'alloc::string::String':
        return 'prefix'
    if ty.startswith('alloc::vec::Vec<(core::option::Option<alloc::string::String>'):
        return 'tags'
    if ty == 'core::option::Option<alloc::string::String>':
        return 'container_id'
    return None


def client_field_path(cad, role, adt='cadence::client::StatsdClient', depth=0):
    """Access path (tuple of field names) of the private field of StatsdClient (or its builder) with the given role
    (type based): 'sink' -> Box<dyn MetricSink..>, 'errors' -> Box<dyn Fn(MetricError)..>, 'prefix' -> the String,
    'tags' -> Vec<(Option<String>, String)>, 'container_id' -> Option<String>.  The field may sit in a private struct
    of the client module that groups configuration."""
    fs = adt_fields(cad, adt) or []
    for f in fs:
        if _role_of_type(f['ty'], cad) == role:
            return (f['name'],)
    if depth < 2:
        for f in fs:
            h = type_head(f['ty'])
            if h.startswith('cadence::client::') and h in cad.adts and cad.adts[h]['kind'] == 'Struct':
                sub = client_field_path(cad, role, h, depth + 1)
                if sub is not None:
                    return (f['name'],) + sub
    return None


def client_field(cad, role, adt='cadence::client::StatsdClient'):
    """leaf name of client_field_path"""
    p = client_field_path(cad, role, adt)
    return p[-1] if p else None


def field_path_of(t, param=1):
    """string-named fields on the access path of t from the parameter, outermost first; None if t is not rooted there"""
    names = []
    while True:
        k = t[0]
        if k in ('ref', 'deref', 'unsize', 'autoderef', 'conv', 'load', 'payload', 'mutated'):
            t = t[1]
        elif k == 'cast':
            t = t[4]
        elif k == 'field':
            if isinstance(t[2], str):
                names.append(t[2])
            t = t[1]
        elif k == 'call' and isinstance(t[1], str) and len(t[2]) == 1 and t[1].rsplit('::', 1)[-1] in VIEW_FNS:
            t = t[2][0]
        else:
            break
    if t == ('param', param):
        return tuple(reversed(names))
    return None


def on_self_path(t, leaf, param=1):
    """t is (a view of / a value inside) self.<..>.<leaf>"""
    p = field_path_of(t, param)
    return p is not None and leaf is not None and leaf in p


def get_path(t, path):
    """value of the nested field `path` of an aggregate / place term"""
    from ..terms import field_of as _fo
    for n in path:
        t = norm(t)
        t = _fo(t, n, None)
    return norm(t)


def mk_path(base, path):
    for n in path:
        base = ('field', base, n)
    return base


VIEW_CALLS = ('::as_deref', '::as_str', '::as_ref', '::as_slice', '::iter', 'IntoIterator>::into_iter', 'Deref>::deref', '::as_mut',
              '::borrow', '::as_bytes')


def strip_views(t):
    """peel references and order/identity preserving view calls: `x.as_deref()`, `&x`, `x.iter()`, `x.as_str()` ..."""
    while True:
        t = peel(t)
        if t[0] == 'call' and isinstance(t[1], str) and len(t[2]) == 1 and any(t[1].endswith(s) for s in VIEW_CALLS):
            t = t[2][0]
            continue
        if t[0] == 'load':
            t = t[1]
            continue
        return t




def leaf_field_name(t):
    """last (innermost) string-named field on the access path of t: `&*(*self.counters).bytes_sent` -> bytes_sent"""
    while True:
        k = t[0]
        if k in ('ref', 'deref', 'unsize', 'autoderef', 'conv', 'load', 'payload', 'mutated'):
            t = t[1]
        elif k == 'cast':
            t = t[4]
        elif k == 'call' and isinstance(t[1], str) and len(t[2]) == 1 and t[1].rsplit('::', 1)[-1] in VIEW_FNS + ('deref',):
            t = t[2][0]
        elif k == 'field':
            if isinstance(t[2], str) and not t[2].isdigit():
                return t[2]
            t = t[1]
        else:
            return None


def module_of(path):
    """module path of an item path ('cadence::sinks::queuing::Worker' -> 'cadence::sinks::queuing')"""
    path = strip_generics(path)
    return path.rsplit('::', 1)[0] if '::' in path else path


def in_module_of(b, anchor):
    """Is body b code of the (private) module that defines `anchor` (an ADT path), or of one of its submodules?
    (used instead of file names: moving code to another file or into a private submodule must not matter)"""
    mod = module_of(anchor)
    if b.impl_self:
        h = type_head(b.impl_self)
        if h.startswith(mod + '::'):
            return True
    p_ = strip_generics(b.path)
    if p_.startswith('<'):
        p_ = p_[1:]
    return p_.startswith(mod + '::')


class KeepOnly:
    """Report proxy: forwards only obligations whose instance ends with one of `suffixes` (a property that borrows a
    single clause of a shared rule); anchors and floors are always forwarded."""

    def __init__(self, rep, suffixes, rid=None):
        self._r, self._s, self._rid = rep, tuple(suffixes), rid

    def _keep(self, instance):
        return any(str(instance).endswith(s) for s in self._s)

    def ob(self, rule, instance, ok, *a, **k):
        return self._r.ob(self._rid or rule, instance, ok, *a, **k) if self._keep(instance) else True

    def bad(self, rule, instance, *a, **k):
        return self._r.bad(self._rid or rule, instance, *a, **k) if self._keep(instance) else False

    def good(self, rule, instance, *a, **k):
        return self._r.good(self._rid or rule, instance, *a, **k) if self._keep(instance) else True

    def unknown(self, rule, instance, *a, **k):
        return self._r.unknown(self._rid or rule, instance, *a, **k) if self._keep(instance) else False

    def __getattr__(self, n):
        return getattr(self._r, n)


class DropOnly(KeepOnly):
    """Report proxy: forwards everything except obligations whose instance ends with one of `suffixes`."""

    def _keep(self, instance):
        return not any(str(instance).endswith(s) for s in self._s)


def in_module_of_path(cad, adt_path, anchor):
    """is ADT `adt_path` declared in the module of the anchoring type (or a submodule)?"""
    mod = anchor.rsplit('::', 1)[0]
    return adt_path.startswith(mod + '::')
