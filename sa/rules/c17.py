"""C17 - macros are exactly the tagged quiet send on the global client (decided on the MIR of a witness crate)."""
from ..terms import Terms, norm, fmt, walk, field_of
from ..witness import extract_witness
from .common import *
from .values import value_impls
from . import client as K
from . import fmtout as F

EXPLANATION = ('A witness crate expanding every statsd_* macro for every accepted value type with 0..n tags (arguments are '
               'calls to distinct marker functions) is compiled against /repo; on its MIR each expansion must be the '
               'straight-line sequence get_global_default -> unwrap -> key -> value -> <StatsdClient as Trait<Ty>>::'
               'X_with_tags -> (tag key, tag value, with_tag)* -> send, every marker exactly once, no branch, no other call '
               'into cadence. get_global_default = HOLDER.get().ok_or(..) (panic iff unset, with C18).')

MACROS = {
    'ToCounterValue': ('statsd_count', 'cadence::client::Counted', 'count_with_tags'),
    'ToTimerValue': ('statsd_time', 'cadence::client::Timed', 'time_with_tags'),
    'ToGaugeValue': ('statsd_gauge', 'cadence::client::Gauged', 'gauge_with_tags'),
    'ToMeterValue': ('statsd_meter', 'cadence::client::Metered', 'meter_with_tags'),
    'ToHistogramValue': ('statsd_histogram', 'cadence::client::Histogrammed', 'histogram_with_tags'),
    'ToDistributionValue': ('statsd_distribution', 'cadence::client::Distributed', 'distribution_with_tags'),
    'ToSetValue': ('statsd_set', 'cadence::client::Setted', 'set_with_tags'),
}
RUST_TY = {'i64': 'i64', 'i32': 'i32', 'u64': 'u64', 'u32': 'u32', 'f64': 'f64', 'core::time::Duration': 'std::time::Duration',
           'alloc::vec::Vec<u64>': 'Vec<u64>', 'alloc::vec::Vec<f64>': 'Vec<f64>',
           'alloc::vec::Vec<core::time::Duration>': 'Vec<std::time::Duration>'}


def ident(ty):
    return ty.replace('alloc::vec::', '').replace('core::time::', '').replace('<', '_').replace('>', '').replace(':', '_')


def gen(pairs, ntags):
    src = ['#![allow(unused)]', 'use cadence_macros::*;', '']
    tys = sorted(set(t for _, t in pairs))
    src.append('#[inline(never)] pub fn mk_key() -> &\'static str { std::hint::black_box("k") }')
    for t in tys:
        src.append('#[inline(never)] pub fn mk_val_%s() -> %s { unimplemented!() }' % (ident(t), RUST_TY[t]))
    for i in range(1, max(ntags) + 1):
        src.append('#[inline(never)] pub fn mk_tk%d() -> &\'static str { std::hint::black_box("a") }' % i)
        src.append('#[inline(never)] pub fn mk_tv%d() -> &\'static str { std::hint::black_box("b") }' % i)
    names = []
    for tr, t in pairs:
        mac = MACROS[tr][0]
        for n in ntags:
            fn = 'w_%s__%s__%d' % (mac, ident(t), n)
            tags = ''.join(', mk_tk%d() => mk_tv%d()' % (i, i) for i in range(1, n + 1))
            src.append('pub fn %s() { %s!(mk_key(), mk_val_%s()%s); }' % (fn, mac, ident(t), tags))
            names.append((fn, tr, t, n))
    return '\n'.join(src) + '\n', names


def check(ctx, rep):
    rep.trust('macro_rules expansion is the one rustc performs for this witness; arbitrary argument expressions are '
              'represented by calls to opaque marker functions')
    cad = ctx.cad
    pairs = []
    for b in value_impls(cad):
        tr = b.impl_trait.rsplit('::', 1)[-1]
        if tr in MACROS and b.impl_self in RUST_TY:
            pairs.append((tr, b.impl_self))
        else:
            rep.unknown('W0', 'value-type/%s for %s' % (tr, b.impl_self), b.where(), 'value type not known to the witness generator')
    rep.floor('W0', '(macro, value type) pairs', len(pairs), 22)
    ntags = (0, 1, 2, 3) if ctx.tier == 'thorough' else (0, 2)
    lib, names = gen(sorted(set(pairs)), ntags)
    try:
        wc = extract_witness(ctx, 'witness_macros', lib)
    except Exception as e:
        # the witness not compiling means a macro no longer accepts what the tagged call accepts
        rep.bad('W1', 'witness-compiles', 'cadence-macros/src/macros.rs', 'the macro witness does not compile against the tree: %s' % str(e)[-600:])
        return
    rep.floor('W0', 'witness functions', len(names), 44)
    for fn, tr, ty, n in names:
        b = wc.bodies.get('witness_macros::' + fn)
        if b is None:
            rep.anchor_lost('W1', fn)
            continue
        rep.analysed(b)
        check_expansion(b, fn, tr, ty, n, rep, ctx)
    # get_global_default = HOLDER.get().ok_or(GlobalDefaultNotSet)
    mac = ctx.mac
    g = mac.bodies.get('cadence_macros::state::get_global_default')
    if g is None:
        rep.anchor_lost('W2', 'get_global_default')
    else:
        rep.analysed(g)
        HM = 'cadence_macros::state::SingletonHolder::'
        ok, rts, holder_id = _lookup_shape(mac, g)
        rep.ob('W2', 'get_global_default-is-holder-get', ok, g.where(), 'get_global_default() = HOLDER.get().ok_or(GlobalDefaultNotSet)' if ok else 'get_global_default returns %s' % [fmt(x) for x in rts])
        # a second (hidden) lookup the expansions use instead (`_borrow_global_default() = HOLDER.get_ref().ok_or(..)`): same
        # shape, same holder
        for lp in sorted(getattr(ctx, '_c17_lookups', ())):
            lb = [x for x in mac.all_bodies if strip_generics(x.path) == lp and x.def_kind == 'Fn']
            ok2, rts2, hid2 = _lookup_shape(mac, lb[0]) if len(lb) == 1 else (False, [], None)
            rep.ob('W2', '%s-is-holder-get' % lp.rsplit('::', 1)[-1], ok2 and hid2 == holder_id, lb[0].where() if lb else '',
                   '%s() = HOLDER.<reader>().ok_or(GlobalDefaultNotSet) on the same holder' % lp.rsplit('::', 1)[-1])
        s = mac.bodies.get('cadence_macros::state::set_global_default')
        if s is not None:
            s = inl(mac, s, never=lambda x: strip_generics(x.path).startswith(HM))
            Ts = Terms(s)
            calls = [norm(Ts.call_term(bi)) for bi, t in s.calls() if not s.blocks[bi]['cleanup']]
            oks = len(calls) == 1 and term_callee_is(calls[0], 'cadence_macros::state::SingletonHolder::set') and calls[0][2][1] == ('param', 1) \
                and holder_id is not None and peel(calls[0][2][0]) == holder_id
            rep.ob('W2', 'set_global_default-is-holder-set', oks, s.where(), 'set_global_default(c) = HOLDER.set(c)')
    # "panics iff no global client has been set": a completed set must stay visible - the set-once part of C18 (writer
    # election by one strong CAS from the initial state, losers leave everything alone, nobody else touches the state);
    # memory orderings stay with C18
    from . import c18
    from .values import _Filter

    class _Keep(_Filter):
        KEEP = ('set/one-strong-cas', 'set/cas-from-initial-to-private-state', 'set/cas-result-examined', 'set/loser-leaves-everything-alone',
                'frame', 'constants-distinct', 'get/none-until-complete', 'get/returns-clone-of-stored')

        def ob(self, rule, instance, ok, *a, **k):
            if instance in self.KEEP or instance.endswith(('/none-until-complete', '/returns-clone-of-stored', '/read-only-when-complete')):
                return self._r.ob('W4', instance, ok, *a, **k)
            return True

        def bad(self, rule, instance, *a, **k):
            if instance in self.KEEP:
                return self._r.bad('W4', instance, *a, **k)
            return False

        def unknown(self, rule, instance, *a, **k):
            if instance in self.KEEP:
                return self._r.unknown('W4', instance, *a, **k)
            return False

        def anchor_lost(self, rule, what, *a, **k):
            return self._r.anchor_lost('W4', what, *a, **k)

        def floor(self, rule, *a, **k):
            return self._r.floor('W4', *a, **k)
    c18.check(ctx, _Keep(rep, drop=()), upto='frame')
    # the quiet send itself never panics and reports to the handler: C03-R4
    fm = F.FormatterModel(ctx, rep)
    if fm.ok:
        K.rule_quiet_send(fm, rep, 'W3')
        K.rule_handler_config(fm, rep, 'W3c')


def rule_macro_values(ctx, rep, rid='W1v'):
    """C02 through the macros: each statsd_* macro hands its value expression to the tagged client method *as it is* -
    same type instantiation, no cast or conversion in between (a `$val as f64` would round large integers)."""
    cad = ctx.cad
    pairs = sorted(set((b.impl_trait.rsplit('::', 1)[-1], b.impl_self) for b in value_impls(cad)
                       if b.impl_trait.rsplit('::', 1)[-1] in MACROS and b.impl_self in RUST_TY))
    rep.floor(rid, '(macro, value type) pairs', len(pairs), 22)
    lib, names = gen(pairs, (0,))
    try:
        wc = extract_witness(ctx, 'witness_macros', lib)
    except Exception as e:
        rep.bad(rid, 'witness-compiles', 'cadence-macros/src/macros.rs', 'a macro no longer accepts a value type its client method accepts: %s' % str(e)[-400:])
        return
    for fn, tr, ty, n in names:
        b = wc.bodies.get('witness_macros::' + fn)
        if b is None:
            rep.anchor_lost(rid, fn)
            continue
        rep.analysed(b)
        mac, trait, meth = MACROS[tr]
        T = Terms(b)
        want = '<cadence::client::StatsdClient as %s>::%s' % (trait, meth)
        calls = [(bi, t_) for bi, t_ in b.calls() if not b.blocks[bi]['cleanup'] and strip_generics(t_.get('callee_full', '')) == want]
        vals = [bi for bi, t_ in b.calls() if not b.blocks[bi]['cleanup'] and strip_generics(t_.get('callee_full', '')) == 'witness_macros::mk_val_' + ident(ty)]
        rep.sites()
        ok = len(calls) == 1 and len(vals) == 1
        why = 'the expansion calls %s %d time(s)' % (want, len(calls))
        if ok:
            bi, t_ = calls[0]
            ct = norm(T.call_term(bi))
            okt = any(a.replace(' ', '') == ty.replace(' ', '') for a in t_.get('callee_args', []))
            okv = ct[2][2] == norm(T.call_term(vals[0]))
            ok = okt and okv
            why = ('the client method is instantiated for %s, the value supplied is a %s' % (t_.get('callee_args'), ty)) if not okt else \
                'the value is not handed over as supplied: %s' % fmt(ct[2][2])[:100]
        rep.ob(rid, '%s/%s/value-passed-unchanged' % (mac, ident(ty)), ok, b.where(), '%s!(key, v) calls %s(key, v) with v as supplied' % (mac, meth) if ok else why)


def _holder_readers(mac):
    """SingletonHolder::get and any other inherent method of the holder that reaches into the cell (held to R3 by the C18 rules)"""
    H = 'cadence_macros::state::SingletonHolder'
    out = set()
    for x in mac.all_bodies:
        if x.def_kind == 'AssocFn' and not x.impl_trait and x.impl_self and type_head(x.impl_self) == H and x.j.get('reachable') and \
                strip_generics(x.path).rsplit('::', 1)[-1] not in ('set', 'new', 'is_set'):
            ib = inl(mac, x)
            if any(strip_generics(t_.get('callee_full', '')).startswith('core::cell::UnsafeCell::') for _, t_ in ib.calls()):
                out.add(strip_generics(x.path))
    return out


def _lookup_shape(mac, g):
    """g() = STATIC_HOLDER.<reader>().ok_or(GlobalDefaultNotSet) -> (ok, return terms, holder term)"""
    HM = 'cadence_macros::state::SingletonHolder::'
    g = inl(mac, g, never=lambda x: strip_generics(x.path).startswith(HM))
    T = Terms(g)
    rts = ret_terms(T, [0])
    ok = False
    holder_id = None
    readers = _holder_readers(mac)
    gets = [bi for bi, t in g.calls() if strip_generics(t.get('resolved') or t.get('callee_full', '')) in readers and not g.blocks[bi]['cleanup']]
    others = [bi for bi, t in g.calls() if strip_generics(t.get('callee_full', '')).startswith(HM) and bi not in gets and not g.blocks[bi]['cleanup']]
    if len(gets) == 1 and not others:
        gct = norm(T.call_term(gets[0]))
        a = peel(gct[2][0])
        root_ = a
        while root_[0] in ('field', 'ref', 'deref'):
            root_ = root_[1]
        is_holder = root_[0] == 'static'
        holder_id = a
        rc = result_cases(T, gets[0])
        from ..terms import field_of as _fo
        want_ok = ('adt', 'core::result::Result', 'Ok', (('0', _fo(('payload', gct, 'Some'), '0', 0)),))
        ok = is_holder and not rc['?'] and rc['ok'] == {want_ok} and bool(rc['err']) and \
            all(r[0] == 'adt' and r[2] == 'Err' and any(y[0] == 'adt' and y[2] == 'GlobalDefaultNotSet' for y in walk(r)) for r in rc['err'])
    return ok, rts, holder_id


def _is_unwrapped_global(mac, path):
    """a (hidden) function of cadence-macros whose whole body is `get_global_default().unwrap()` / `.expect(..)`"""
    memo = mac.__dict__.setdefault('_unwrap_global_memo', {})
    if path in memo:
        return memo[path]
    res = False
    cands = [x for x in mac.all_bodies if strip_generics(x.path) == path and x.def_kind == 'Fn']
    if len(cands) == 1:
        G = 'cadence_macros::state::get_global_default'
        ib = inl(mac, cands[0], never=lambda x: strip_generics(x.path) == G)
        calls = [strip_generics(t_.get('callee_full', '')) for bi_, t_ in ib.calls() if not ib.blocks[bi_]['cleanup']]
        rts = ret_terms(Terms(ib), [0])
        if len(rts) == 1 and sorted(calls) in (sorted([G, 'core::result::Result::unwrap']), sorted([G, 'core::result::Result::expect'])):
            r = list(rts)[0]
            res = r[0] == 'call' and r[1] in ('core::result::Result::unwrap', 'core::result::Result::expect') and term_callee_is(r[2][0], G) and \
                not any(bl['term']['k'] == 'switch' for bl in ib.blocks if not bl['cleanup'])
    memo[path] = res
    return res


def _only_panics(b, starts):
    """every path from `starts` ends in a panic (no return, no call into the library or to a marker function)"""
    seen = set()
    st = list(starts)
    panics = False
    while st:
        x = st.pop()
        if x in seen:
            continue
        seen.add(x)
        t = b.blocks[x]['term']
        if t['k'] == 'return':
            return False
        if t['k'] == 'call':
            name = strip_generics(t.get('callee_full', ''))
            if name.startswith(('witness_macros::', 'cadence::', 'cadence_macros::', '<cadence')):
                return False
            if name.startswith(('core::panicking::', 'std::rt::begin_panic', 'std::panicking::')) and t.get('target') is None:
                panics = True
                continue
        st.extend(b.succs(x, False))
    return panics


def check_expansion(b, fn, tr, ty, n, rep, ctx=None):
    T = Terms(b)
    mac, trait, meth = MACROS[tr]
    inst = '%s/%s/%d-tags' % (mac, ident(ty), n)
    # walk the normal path
    seq = []
    bb = 0
    seen = set()
    branch = None
    match_unwrap = None
    while bb not in seen:
        seen.add(bb)
        t = b.blocks[bb]['term']
        k = t['k']
        if k == 'call':
            seq.append(bb)
            if t['target'] is None:
                break
            bb = t['target']
        elif k in ('goto', 'drop', 'assert'):
            bb = t['target']
        elif k == 'switch':
            # `match get_global_default() { Ok(c) => c, Err(..) => panic!(..) }` is unwrap() with another message: the Err
            # edge must do nothing but panic
            dt, edges = T.switch_facts(bb)
            d = norm(dt)
            ok_e = [s for s, labs in edges.items() if ('variant', 'Ok') in labs]
            er_e = [s for s, labs in edges.items() if ('variant', 'Err') in labs]
            if match_unwrap is None and d[0] == 'discr' and term_callee_is(d[1], 'cadence_macros::state::get_global_default') and \
                    len(ok_e) == 1 and er_e and set(edges) == set(ok_e) | set(er_e) and _only_panics(b, er_e):
                match_unwrap = (bb, d[1])
                bb = ok_e[0]
                continue
            branch = bb
            break
        else:
            break
    rep.sites(len(seq))
    if branch is not None:
        rep.bad('W1', inst + '/straight-line', b.where(branch), 'the expansion branches (conditional behaviour the plain tagged call does not have)')
        return
    calls = []
    for bb in seq:
        t = b.blocks[bb]['term']
        name = strip_generics(t.get('callee_full', '?'))
        if name.endswith('as core::ops::deref::Deref>::deref') or name.startswith('core::hint::') or name.startswith('core::mem::drop'):
            continue
        calls.append((bb, name, t))
    if match_unwrap is not None and calls and calls[0][1] == 'cadence_macros::state::get_global_default':
        calls = [calls[0], (('match', match_unwrap[0]), 'core::result::Result::unwrap', calls[0][2])] + calls[1:]
    if calls and ctx is not None and calls[0][1].startswith('cadence_macros::') and calls[0][1] != 'cadence_macros::state::get_global_default' \
            and _is_unwrapped_global(ctx.mac, calls[0][1]):
        # the lookup-or-panic lives in a hidden helper of the macro crate: same two steps, one call site
        bb0, _, t0 = calls[0]
        calls = [(bb0, 'cadence_macros::state::get_global_default', t0), (bb0, 'core::result::Result::unwrap', t0)] + calls[1:]
    G_ = 'cadence_macros::state::get_global_default'
    if calls and ctx is not None and calls[0][1].startswith('cadence_macros::') and calls[0][1] != G_ and len(calls) > 1 and \
            calls[1][1] in ('core::result::Result::unwrap', 'core::result::Result::expect', 'UNWRAP'):
        # another lookup function of the macro crate followed by unwrap: accepted when it has the shape of get_global_default
        # (decided by W2 over the names collected here)
        lb_ = [x for x in ctx.mac.all_bodies if strip_generics(x.path) == calls[0][1] and x.def_kind == 'Fn']
        if len(lb_) == 1 and _lookup_shape(ctx.mac, lb_[0])[0]:
            ctx.__dict__.setdefault('_c17_lookups', set()).add(calls[0][1])
            calls = [(calls[0][0], G_, calls[0][2])] + calls[1:]
    exp = []
    exp.append(('cadence_macros::state::get_global_default', None))
    exp.append(('UNWRAP', None))
    exp.append(('witness_macros::mk_key', None))
    exp.append(('witness_macros::mk_val_' + ident(ty), None))
    exp.append(('<cadence::client::StatsdClient as %s>::%s' % (trait, meth), ty))
    for i in range(1, n + 1):
        exp.append(('witness_macros::mk_tk%d' % i, None))
        exp.append(('witness_macros::mk_tv%d' % i, None))
        exp.append(('cadence::builder::MetricBuilder::with_tag', None))
    exp.append(('cadence::builder::MetricBuilder::send', None))
    got = [c[1] for c in calls]
    ok = len(got) == len(exp)
    why = ''
    if ok:
        for (bb, name, t), (want, wty) in zip(calls, exp):
            if want == 'UNWRAP':
                if name == 'core::result::Result::unwrap_or_else' and not isinstance(bb, tuple):
                    # `.unwrap_or_else(|e| panic!("{}", e))`: unwrap() with another message, when the closure does nothing but panic
                    ct_ = norm(T.call_term(bb))
                    f_ = ct_[2][1] if ct_[0] == 'call' and len(ct_[2]) == 2 else None
                    while f_ is not None and f_[0] in ('ref', 'unsize', 'mutated'):
                        f_ = f_[1]
                    cb_ = None
                    if f_ is not None and f_[0] == 'closure':
                        cb_ = next((x for x in b.crate.all_bodies if x.path == f_[1]), None)
                    if cb_ is not None and _only_panics(cb_, [0]):
                        continue
                if name not in ('core::result::Result::unwrap', 'core::result::Result::expect'):
                    ok = False
                    why = 'the global client is extracted with %s (must panic exactly when unset: unwrap/expect)' % name
                    break
            elif name != want:
                ok = False
                why = 'expected %s, found %s' % (want, name)
                break
            elif wty is not None and not any(a.replace(' ', '') == wty.replace(' ', '') for a in t.get('callee_args', [])):
                ok = False
                why = 'tagged call instantiated for %s, not %s' % (t.get('callee_args'), wty)
                break
    else:
        why = 'call sequence is %s' % [g.replace('witness_macros::', '').replace('cadence::builder::', '').replace('cadence_macros::state::', '') for g in got]
    if ok:
        # data flow: the builder threads through, markers feed the right argument positions
        terms = {bb: (norm(T.call_term(bb)) if not isinstance(bb, tuple) else norm(field_of(('payload', match_unwrap[1], 'Ok'), '0', 0)))
                 for bb, _, _ in calls}
        bbs = [c[0] for c in calls]
        tagged = terms[bbs[4]]
        okf = peel(tagged[2][1]) == terms[bbs[2]] and tagged[2][2] == terms[bbs[3]]
        prev = tagged
        idx = 5
        for i in range(n):
            wt = terms[bbs[idx + 2]]
            okf = okf and wt[2][0] == prev and peel(wt[2][1]) == terms[bbs[idx]] and peel(wt[2][2]) == terms[bbs[idx + 1]]
            prev = wt
            idx += 3
        snd = terms[bbs[idx]]
        okf = okf and snd[2][0] == prev
        cl = peel(tagged[2][0])
        okf = okf and any(y == terms[bbs[1]] for y in walk(tagged[2][0]))
        if not okf:
            ok = False
            why = 'arguments are not threaded as client.%s(key, value).with_tag(k, v)*.send()' % meth
    rep.ob('W1', inst, ok, b.where(), 'expansion = get_global_default().unwrap().%s(key, val)%s.send(), each argument evaluated once, in order' % (meth, '.with_tag(..)' * n) if ok else
           'macro %s with %d tag(s) for %s: %s' % (mac, n, ty, why))
