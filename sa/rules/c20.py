"""C20 - no input makes the library panic: may-panic inventory with discharge rules."""
import os
from .. import linear as L
from ..terms import Terms, norm, fmt, walk, field_of
from .common import *
from . import writer as W
from . import queuing as Qr
from .qmodel import QModel
from . import values as V

EXPLANATION = ('May-panic inventory over every library body of both crates (Assert terminators, calls into a deny-list of '
               'panicking std APIs), each site discharged by D1 (subtraction entailed non-negative by a dominating guard or '
               'by invariant I of the line writer, whose premises are re-checked here), D2 (narrowing cast guard = C02-R3), '
               'D3 (lock().unwrap(): no undischarged site inside the critical sections), D5 (resource-bounded classes: sums '
               'of in-memory lengths, u64 event counters) or an explicit allowlist. Conservative: a new panic-capable '
               'construct is reported even if unreachable.')

PANIC_CALLS = ('::unwrap', '::expect', '::unwrap_err', '::expect_err', 'core::panicking::panic', 'core::panicking::panic_fmt',
               'core::panicking::panic_display', 'std::rt::begin_panic', 'core::panicking::assert_failed', 'core::panicking::unreachable_display',
               'as core::ops::index::Index>::index', 'as core::ops::index::IndexMut>::index_mut', '::copy_from_slice', '::clone_from_slice',
               '::split_at', '::split_at_mut', 'alloc::vec::Vec::remove', 'alloc::vec::Vec::swap_remove', 'alloc::vec::Vec::insert',
               'alloc::vec::Vec::drain', 'alloc::vec::Vec::split_off', 'alloc::string::String::insert', 'alloc::string::String::insert_str',
               'alloc::string::String::remove', 'alloc::string::String::truncate', 'alloc::string::String::split_off',
               'alloc::string::String::drain', 'alloc::string::String::replace_range',
               'core::cell::RefCell::borrow', 'core::cell::RefCell::borrow_mut', '<core::time::Duration as core::ops::arith::Add>::add',
               '<core::time::Duration as core::ops::arith::Sub>::sub', '<core::time::Duration as core::ops::arith::Mul>::mul',
               '<core::time::Duration as core::ops::arith::Div>::div', '<core::time::Duration as core::ops::arith::AddAssign>::add_assign',
               '<std::time::Instant as core::ops::arith::Sub>::sub', '<std::time::Instant as core::ops::arith::Add>::add',
               'core::time::Duration::from_secs_f64', 'core::time::Duration::from_secs_f32', 'core::time::Duration::new',
               'core::time::Duration::mul_f64', 'core::time::Duration::div_f64',
               '::pow', '::abs', '::div_euclid', '::rem_euclid', '::next_power_of_two', '::step_by', '::chunks', '::windows',
               '::chunks_exact', '::rchunks', 'core::option::Option::unwrap_unchecked', '::swap', 'core::slice::rotate_left', '::rotate_right',
               '::strict_add', '::strict_sub', '::strict_mul', 'core::hint::unreachable_unchecked', '::ilog2', '::ilog10', '::ilog',
               'std::process::abort', 'std::process::exit', 'core::intrinsics::abort')
NOT_PANIC = ('core::mem::swap', 'core::sync::atomic::Atomic::swap', 'core::ptr::swap')
RESOURCE = ('alloc::string::String::with_capacity', 'alloc::vec::Vec::with_capacity', 'std::thread::functions::spawn',
            'std::io::buffered::bufwriter::BufWriter::with_capacity')
FLOOR_SITES = 15      # today: ~44; a tree that writes its size hints with saturating_* has about half of them


def allowlist():
    p = os.path.join(os.path.dirname(os.path.dirname(os.path.dirname(os.path.abspath(__file__)))), 'controls', 'panic_allowlist.txt')
    out = {}
    if os.path.exists(p):
        for line in open(p):
            line = line.strip()
            if not line or line.startswith('#'):
                continue
            k, _, why = line.partition(' # ')
            out[k.strip()] = why.strip()
    return out


def library_bodies(ctx):
    out = []
    for cr in (ctx.cad, ctx.mac):
        for b in cr.all_bodies:
            if b.file.endswith('cadence/src/test.rs') or '/test.rs' in b.file:
                continue
            if b.j.get('ctfe'):
                continue
            out.append((cr, b))
    return out


def _len_positive(d, labels):
    """the receiver x when the guard (term d, taken on all of `labels`) says len(x) >= 1; None otherwise"""
    if d[0] != 'bin' or not labels or any(l[0] != 'bool' for l in labels):
        return None
    vals = {l[1] for l in labels}
    if len(vals) != 1:
        return None
    val = vals.pop()
    op, a, c = d[1], norm(d[2]), norm(d[3])
    flip = {'Lt': 'Gt', 'Gt': 'Lt', 'Le': 'Ge', 'Ge': 'Le', 'Eq': 'Eq', 'Ne': 'Ne'}
    if a[0] == 'const' and c[0] != 'const':
        a, c, op = c, a, flip.get(op)
    if op is None or c[0] != 'const' or not (a[0] == 'call' and isinstance(a[1], str) and a[1].endswith('::len') and len(a[2]) == 1):
        return None
    neg = {'Lt': 'Ge', 'Ge': 'Lt', 'Gt': 'Le', 'Le': 'Gt', 'Eq': 'Ne', 'Ne': 'Eq'}
    if not val:
        op = neg[op]
    k = str(c[2])
    if (op, k) in (('Ne', '0'), ('Gt', '0'), ('Ge', '1')):
        return a[2][0]
    return None


def unsigned_leafs_ok(t, qleaf):
    """t is a sum/product of non-negative `size-like` leaves"""
    t = norm(t)
    if t[0] == 'load':
        t = t[1] if t[2] == 'entry' else t
    if t[0] == 'bin' and t[1] in ('Add', 'AddWithOverflow', 'Mul', 'MulWithOverflow'):
        return unsigned_leafs_ok(t[2], qleaf) and unsigned_leafs_ok(t[3], qleaf)
    if t[0] == 'phi':
        return all(unsigned_leafs_ok(x, qleaf) for x in t[1])
    if t[0] == 'field' and str(t[2]) == '0' and t[1][0] == 'bin':
        return unsigned_leafs_ok(t[1], qleaf)       # (a op b).0 of a checked operation
    if t[0] == 'bin' and t[1] in ('Sub', 'SubWithOverflow') and norm(t[3])[0] == 'const':
        return unsigned_leafs_ok(t[2], qleaf)       # a size minus a constant is no larger (the subtraction is a site of its own)
    if t[0] == 'call' and isinstance(t[1], str) and t[1].endswith(('::saturating_add', '::saturating_mul', '::wrapping_add')) and len(t[2]) == 2:
        return unsigned_leafs_ok(t[2][0], qleaf) and unsigned_leafs_ok(t[2][1], qleaf)      # a sum that cannot panic
    if t[0] == 'const':
        # small literal widths / separators; a constant near the top of the range (usize::MAX as a "no limit" marker) is not a size
        try:
            return 0 <= int(str(t[2])) < (1 << 32)
        except (TypeError, ValueError):
            return False
    if t[0] == 'cast' and t[1] == 'IntToInt':
        return unsigned_leafs_ok(t[4], qleaf)
    if t[0] == 'call' and isinstance(t[1], str) and t[1] in ('<usize as core::clone::Clone>::clone', '<u64 as core::clone::Clone>::clone') and t[2][0][0] == 'ref':
        return unsigned_leafs_ok(t[2][0][1], qleaf)     # derived Clone copies the field
    return qleaf(t)


FORMATTER = 'cadence::builder::MetricFormatter'


def size_fields(ctx, rep=None):
    """usize fields of the formatter (or of a private struct nested in it) whose every initialisation and update, crate
    wide, is itself a sum/product of in-memory lengths, constants and such fields: by induction they hold sums of
    lengths.  Greatest fixpoint; found by what the code does with them, not by their names."""
    if getattr(ctx, '_size_fields', None) is not None:
        return ctx._size_fields
    cad = ctx.cad
    owners = {}
    todo = [FORMATTER]
    seen = set()
    while todo:
        a = todo.pop()
        if a in seen:
            continue
        seen.add(a)
        for f in adt_fields(cad, a) or []:
            if f['ty'] == 'usize':
                owners.setdefault(f['name'], set()).add(a)
            elif type_head(f['ty']) in cad.adts and type_head(f['ty']).startswith('cadence::builder::') and cad.adts[type_head(f['ty'])]['kind'] == 'Struct':
                todo.append(type_head(f['ty']))
    cand = set(n for n, o in owners.items() if len(o) == 1)
    writes = {n: [] for n in cand}
    for b in cad.all_bodies:
        T = None
        for bi, blk in enumerate(b.blocks):
            for si, s in enumerate(blk['stmts']):
                if s['k'] != 'assign':
                    continue
                rv = s['rv']
                hit = None
                if rv['k'] == 'agg' and rv.get('ak') == 'adt' and rv.get('path') in seen:
                    hit = 'agg'
                else:
                    pr = s['place']['p']
                    if pr and pr[-1][0] == 'field' and pr[-1][2] in cand and pr[-1][3] == 'usize':
                        hit = pr[-1][2]
                if hit is None:
                    continue
                T = T or Terms(b)
                v = norm(T.rvalue_term(rv, bi, si))
                if hit == 'agg':
                    if v[0] == 'adt':
                        for n, fv in v[3]:
                            if n in cand and n in [f['name'] for f in adt_fields(cad, rv['path'])]:
                                writes[n].append(norm(fv))
                else:
                    writes[hit].append(v)
    sz = set(n for n in cand if writes[n])
    changed = True
    while changed:
        changed = False
        for n in sorted(sz):
            def leaf(t, sz=sz):
                return _size_leaf(t, sz, cad)
            if not all(unsigned_leafs_ok(v, leaf) for v in writes[n]):
                sz.discard(n)
                changed = True
    ctx._size_fields = sz
    return sz


def size_leaf_for(ctx, b=None):
    sz = size_fields(ctx)
    if b is None:
        return lambda t: _size_leaf(t, sz, ctx.cad)
    # inside a private size function (`const fn base_size_hint(prefix_len: usize, key_len: usize, n: usize) -> usize`) a usize
    # parameter is a size when every call site in the crate passes one
    okp = _size_params(ctx, b)
    return lambda t: _size_leaf(t, sz, ctx.cad) or (t[0] == 'param' and t[1] in okp)


def _size_fn(cad, path):
    """a private, non-trait function of the builder module returning usize whose parameters are usize values and/or the
    formatter / metric value by reference: a size computation whose own arithmetic is discharged at its own sites"""
    for b in cad.all_bodies:
        if strip_generics(b.path) == path and b.def_kind in ('Fn', 'AssocFn') and b.impl_trait is None and b.locals[0] == 'usize' and \
                not b.j.get('reachable') and b.arg_count >= 1 and strip_generics(b.path).startswith('cadence::builder::') and \
                all(b.locals[i] == 'usize' or type_head(b.locals[i]) in (FORMATTER, 'cadence::builder::MetricValue') for i in range(1, b.arg_count + 1)):
            return b
    return None


def _size_params(ctx, b):
    memo = ctx.__dict__.setdefault('_size_params_memo', {})
    if b.path in memo:
        return memo[b.path]
    memo[b.path] = set()        # recursion guard
    out = set()
    cad = ctx.cad
    if _size_fn(cad, strip_generics(b.path)) is b:
        sz = size_fields(ctx)
        sites = [(y, bi) for y in cad.all_bodies for bi, t_ in y.calls() if t_.get('resolved') == b.path and not y.blocks[bi]['cleanup']]
        for i in range(1, b.arg_count + 1):
            if b.locals[i] != 'usize' or not sites:
                continue
            ok = True
            for y, bi in sites:
                ct = norm(Terms(y).call_term(bi))
                a = peel_views(ct[2][i - 1]) if ct[0] == 'call' and len(ct[2]) >= i else ('unknown',)
                if not unsigned_leafs_ok(a, size_leaf_for(ctx, y)):
                    ok = False
            if ok:
                out.add(i)
    memo[b.path] = out
    return out


def _len_like_local(cad, path):
    """a private method of the formatter / metric value taking only &self and returning usize: a size hint or element
    count whose own arithmetic is discharged at its own sites"""
    for b in cad.all_bodies:
        if strip_generics(b.path) == path and b.impl_self and b.impl_trait is None and b.locals[0] == 'usize' and b.arg_count == 1 \
                and type_head(b.impl_self) in (FORMATTER, 'cadence::builder::MetricValue') and type_head(b.locals[1]) == type_head(b.impl_self):
            return True
    return False


_RS_MEMO = {}


def _returns_size(cad, path, sz):
    """every value a local size function returns is itself a sum/product of sizes and small constants (a hint that is
    `usize::MAX / 2` "for safety" would make the caller's sum overflow without any overflow site of its own)"""
    _RS_MEMO = cad.__dict__.setdefault('_rs_memo', {})
    key = (path, tuple(sorted(sz)))
    if key in _RS_MEMO:
        return _RS_MEMO[key]
    _RS_MEMO[key] = True        # recursion guard (REC reports recursion)
    ok = True
    for b in cad.all_bodies:
        if strip_generics(b.path) == path:
            try:
                T = Terms(W.inl(cad, b, never=lambda x: _len_like_local(cad, strip_generics(x.path))))     # combinators (`opt.map_or(0, |c| 2 + c.len())`) read in their desugared form
            except Exception:
                T = Terms(b)
            for r in ret_terms(T, [0]):
                for leaf in flatten_phi(norm(r)):
                    while leaf[0] == 'bin' and leaf[1] in ('Sub', 'SubWithOverflow') and norm(leaf[3])[0] == 'const':
                        leaf = norm(leaf[2])        # a size minus a small constant is no larger (its own underflow site is judged where it is)
                    if leaf[0] == 'field' and leaf[1][0] == 'bin':
                        leaf = leaf[1]              # (a op b).0 of a checked operation
                        while leaf[0] == 'bin' and leaf[1] in ('Sub', 'SubWithOverflow') and norm(leaf[3])[0] == 'const':
                            leaf = norm(leaf[2])
                    if not unsigned_leafs_ok(peel_views(leaf), lambda x: _size_leaf(x, sz, cad) or (x[0] == 'param' and b.locals[x[1]] == 'usize')):
                        ok = False
    _RS_MEMO[key] = ok
    return ok


def peel_views(a):
    while a[0] in ('ref', 'copy', 'move', 'mutated') and len(a) > 1 and isinstance(a[1], tuple):
        a = a[1]
    return a


def _size_leaf(t, sz, cad=None):
    """in-memory lengths, size-hint fields (usize sums of lengths), value counts"""
    if t[0] == 'call' and isinstance(t[1], str) and (t[1].endswith('::len') or t[1].endswith('::capacity')):
        return True
    if t[0] == 'call' and isinstance(t[1], str) and cad is not None and _len_like_local(cad, t[1]):
        return _returns_size(cad, t[1], sz)
    if t[0] == 'call' and isinstance(t[1], str) and cad is not None and _size_fn(cad, strip_generics(t[1])) is not None:
        # a private size function applied to sizes
        return all(unsigned_leafs_ok(peel_views(a), lambda x: _size_leaf(x, sz, cad)) for a in t[2])
    if t[0] == 'call' and isinstance(t[1], str) and strip_generics(t[1]).endswith(('cmp::Ord::min', 'cmp::min', 'cmp::Ord>::min')):
        return any(_size_leaf(peel_views(a), sz, cad) for a in t[2])      # min(a, b) <= a
    if t[0] == 'field' or t[0] == 'load':
        x = t[1] if t[0] == 'load' else t
        n = x[2] if x[0] == 'field' else None
        return isinstance(n, str) and n in sz
    if t[0] == 'call' and isinstance(t[1], str) and t[1] == 'core::sync::atomic::Atomic::load':
        return True         # event counters (2^64 events)
    if t[0] == 'field' and t[1][0] == 'call' and 'MetricSink>::stats' in str(t[1][1]):
        return True
    return False


def check(ctx, rep):
    rep.trust('allocation failure / thread creation failure / capacities above isize::MAX are resource exhaustion, not claimed')
    rep.trust('std functions outside the deny-list do not panic for any argument')
    cad = ctx.cad
    allow = allowlist()
    # premises for D1(invariant I) and D3
    m = W.WriterModel(ctx, rep)
    inv_ok = False
    if m.ok:
        before = len(rep.violations())
        # premises of `written <= capacity` only (a weaker invariant than I): flush-before-overfull, counting, reset
        # value, frame.  Construction (written starts at 0, capacity is the configured value) is how the writer model
        # finds the two fields in the first place.  The *order* of reset and inner flush (M8) and the size of the inner
        # BufWriter (M9) do not matter for this bound.
        W.rule_M2(m, rep, 'must')
        W.rule_M4_M5_M6(m, rep, want=('M5',), zero_store_ok=True)
        rule_M8_weak(m, rep)
        W.rule_M10(m, rep)
        inv_ok = len(rep.violations()) == before
    sz = size_fields(ctx)
    rep.floor('D5', 'formatter size-hint fields (every write is a sum of lengths): %s' % sorted(sz), len(sz), 2)
    sites = []
    bodies = library_bodies(ctx)
    rep.floor('INV', 'library bodies scanned', len(bodies), 250)
    # private helpers of the line writer that are only used by write/flush are judged in that context (inlined), where
    # `written`/`capacity` are known quantities
    helper_paths = set()
    if m.ok:
        region = {m.write.path, m.flush.path}
        for pth, _bi, _d in (m.wbody.inlined or []):
            hb = cad.bodies.get(pth)
            if hb is None or hb.j.get('reachable') or not in_module_of(hb, W.MLW):
                continue
            callers = set(y.path for y in cad.all_bodies for _, tt in y.calls() if tt.get('resolved') == pth)
            if callers and callers <= region | helper_paths | {pth}:
                helper_paths.add(pth)
        for bi, blk in enumerate(m.wbody.blocks):
            fr = blk.get('frame') or ()
            if blk['cleanup'] or not fr or fr[-1][0] not in helper_paths:
                continue
            tt = blk['term']
            if tt['k'] == 'assert' and not tt['msg'].startswith(('Misaligned', 'NullPointer')):
                cond = norm(m.T.operand_term(tt['cond'], bi, len(blk['stmts'])))
                sites.append((cad, _InWriter(m, cad.bodies[fr[-1][0]]), bi, 'assert:' + tt['msg'], cond, m.T))
            elif tt['k'] == 'call':
                k = strip_generics(tt.get('callee_full', ''))
                if any(k == n or k.endswith(n) for n in PANIC_CALLS) and not any(k == n or k.endswith(n) for n in NOT_PANIC):
                    sites.append((cad, _InWriter(m, cad.bodies[fr[-1][0]]), bi, 'call:' + k, norm(m.T.call_term(bi)), m.T))
    for cr, b in bodies:
        if b.path in helper_paths:
            continue
        rep.analysed(b)
        T = None
        for bi, blk in enumerate(b.blocks):
            if blk['cleanup']:
                continue
            t = blk['term']
            if t['k'] == 'assert':
                if t['msg'].startswith(('Misaligned', 'NullPointer')):
                    continue
                T = T or Terms(b)
                cond = norm(T.operand_term(t['cond'], bi, len(blk['stmts'])))
                sites.append((cr, b, bi, 'assert:' + t['msg'], cond, T))
            elif t['k'] == 'call':
                k = strip_generics(t.get('callee_full', ''))
                if any(k == n or k.endswith(n) for n in NOT_PANIC):
                    continue
                if any(k == n or k.endswith(n) for n in PANIC_CALLS):
                    T = T or Terms(b)
                    sites.append((cr, b, bi, 'call:' + k, norm(T.call_term(bi)), T))
                elif any(k == n for n in RESOURCE):
                    T = T or Terms(b)
                    sites.append((cr, b, bi, 'resource:' + k, norm(T.call_term(bi)), T))
    rep.floor('INV', 'panic-capable sites found', len(sites), FLOOR_SITES if ctx.cad.j.get('overflow_checks') else 6)
    rep.sites(len(sites))
    undischarged = {}
    crit_fns = set()
    for cr, b, bi, kind, term, T in sites:
        key = '%s/%s' % (b.short().replace('cadence::', ''), kind)
        verdict, how = discharge(ctx, m, inv_ok, cr, b, bi, kind, term, T)
        if verdict is None and key in allow:
            verdict, how = True, 'allowlist: ' + allow[key]
        if verdict:
            rep.good(how.split(':')[0], key, b.where(bi), how)
        elif verdict is False:
            rep.bad('SITE', key, b.where(bi), how)
            undischarged.setdefault(b.path, []).append(kind)
        else:
            rep.bad('SITE', key, b.where(bi), 'unclassified panic-capable construct: %s on %s' % (kind, fmt(term)[:120]))
            undischarged.setdefault(b.path, []).append(kind)
    # no recursion: the depth of a recursive library function grows with its input (a list, a chain of sources) and ends in a
    # stack overflow, which aborts the process - nothing the inventory of panic sites would show
    graph = {}
    for cr, b in bodies:
        graph[b.path] = set(t_.get('resolved') for _, t_ in b.calls() if t_.get('resolved_local') and t_.get('resolved'))
    # formatting is a call too: `write!(f, "{:?}", x)` runs <X as Debug>::fmt (through a function pointer stored by
    # fmt::rt::Argument::new_debug::<X>) - `{:?}` of `self` inside its own Debug impl never ends
    fmt_impls = {}
    for cr, b in bodies:
        if b.impl_trait in ('core::fmt::Debug', 'core::fmt::Display') and b.impl_self and b.name == 'fmt':
            fmt_impls[(b.impl_trait, type_head(b.impl_self))] = b.path
    for cr, b in bodies:
        for _, t_ in b.calls():
            cf_ = t_.get('callee_full', '')
            for ctor_, tr_ in (('Argument::<\'_>::new_debug', 'core::fmt::Debug'), ('Argument::<\'_>::new_display', 'core::fmt::Display'),
                               ('Argument::new_debug', 'core::fmt::Debug'), ('Argument::new_display', 'core::fmt::Display')):
                if ctor_ in cf_ and cf_.startswith('core::fmt::rt::'):
                    for a_ in t_.get('callee_args', []):
                        h_ = type_head(a_.lstrip('&').replace('mut ', '').strip())
                        if (tr_, h_) in fmt_impls:
                            graph[b.path].add(fmt_impls[(tr_, h_)])
    for cr, b in bodies:
        # a closure literal may be run by whoever it is handed to: count it as called by the body that creates it
        if b.def_kind == 'Closure' and '::{closure' in b.path:
            parent = b.path[:b.path.rindex('::{closure')]
            if parent in graph:
                graph[parent].add(b.path)
    cyc = []
    state = {}

    def dfs(p_, stack):
        state[p_] = 1
        for q_ in graph.get(p_, ()):
            if q_ not in graph:
                continue
            if state.get(q_) == 1:
                cyc.append(stack[stack.index(q_):] + [q_] if q_ in stack else [p_, q_])
            elif q_ not in state:
                dfs(q_, stack + [q_])
        state[p_] = 2
    import sys as _sys
    _sys.setrecursionlimit(max(_sys.getrecursionlimit(), 5000))
    for p_ in sorted(graph):
        if p_ not in state:
            dfs(p_, [p_])
    if cyc:
        for c_ in cyc[:5]:
            fb = [b for cr, b in bodies if b.path == c_[0]]
            rep.bad('REC', 'recursion/%s' % (fb[0].short().replace('cadence::', '') if fb else c_[0]), fb[0].where() if fb else '',
                    'recursive call chain %s: stack depth grows with the input (stack overflow aborts the process)' % ' -> '.join(x.rsplit('::', 2)[-1] if '::' in x else x for x in c_))
    else:
        rep.good('REC', 'no-recursion', '', 'the call graph of the %d library bodies is acyclic' % len(graph))
    # D3: critical sections free of undischarged sites
    # what runs while a sink mutex is held: the io::Write impls (line writer, adapters) and every crate-local function
    # they reach (statistics updates, the spy's send helper, ...)
    from .qmodel import transitive_local
    crit = []
    roots = [b for cr, b in bodies if b.impl_trait == W.WRITE_TRAIT and cr is ctx.cad]
    seen_c = set()
    for b in transitive_local(ctx.cad, roots):
        if b.path not in seen_c and not b.file.endswith('/test.rs'):
            seen_c.add(b.path)
            crit.append(b)
    badc = [b for b in crit if b.path in undischarged]
    rep.ob('D3', 'critical-sections-cannot-poison', not badc and len(crit) >= 8, badc[0].where() if badc else '',
           '%d bodies run under the sink mutexes; none has an undischarged panic site, so lock().unwrap() cannot meet a poisoned mutex' % len(crit) if not badc else
           'code under a sink mutex may panic (%s): the mutex is poisoned and every later emit/flush panics in lock().unwrap()' % [b.short() for b in badc])
    # no panic=abort style constructs / no explicit panics in public macros
    # narrowing casts: C02-R3
    V.rule_units_and_guard(ctx, rep, units=False)
    # "invalid values are reported as errors": an empty packed list never becomes a line (the other invalid input, a Duration
    # that does not fit, is the guard rule above)
    try:
        from . import fmtout as F_
        from . import client as K_
        fm_ = F_.FormatterModel(ctx, rep)
        if fm_.ok:
            K_.rule_nonempty(fm_, DropOnly(rep, ('rejects-only-empty-lists',)), 'R7e')
    except Exception as e:
        rep.unknown('R7e', 'nonempty', '', 'rule code could not follow this tree (%s)' % e)


class _InWriter:
    """A helper body seen through its inlined copy inside MultiLineWriter::write."""

    def __init__(self, m, helper):
        self.path = m.write.path
        self._h = helper
        self._m = m

    def short(self):
        return self._h.short()

    def where(self, bb=None, idx=None):
        return self._m.wbody.where(bb, idx)


def rule_M8_weak(m, rep, rid='M8w'):
    body = W.inl(m.cad, m.flush)
    T = Terms(body)
    sts = store_sites(T, m.f_written)
    bad = [(b_, i_, v) for b_, i_, v in sts if v != ('const', 'usize', '0', None)]
    rep.ob(rid, 'flush-only-resets', not bad, m.flush.where(), 'flush stores only 0 to `%s`' % m.f_written if not bad else 'flush stores %s to %s' % ([fmt(v) for _, _, v in bad], m.f_written))
    # ... and does reset: every way through flush() either passes a store of 0 or leaves over the Err edge of the inner flush
    # (write relies on `written == 0` after a flush that returned Ok)
    zb = set(b_ for b_, i_, v in sts if v == ('const', 'usize', '0', None))
    errs = set()
    for fbi in W.call_blocks(body, '<' + W.BUFW + ' as std::io::Write>::flush'):
        ok_e, err_e, _ = W.outcomes(T, fbi)
        errs |= set(err_e)
    okr = C.must_pass(body, 0, set(C.exits(body, False)), zb | errs)
    rep.ob(rid, 'flush-ok-means-reset', okr, m.flush.where(), 'every return of flush() other than a failed inner flush has reset `%s`' % m.f_written if okr else
           'flush() can return without resetting `%s` (and without a failed inner flush): write() goes on counting from a stale value' % m.f_written)
    # the same for a flush that write() performs itself
    W.rule_M3(m, rep, only=('successful-flush-resets-count',))


_VIEWS = ('core::str::as_bytes', 'alloc::string::String::as_str', 'alloc::string::String::as_bytes', 'alloc::vec::Vec::as_slice',
          '<alloc::string::String as core::ops::deref::Deref>::deref', '<alloc::vec::Vec as core::ops::deref::Deref>::deref')
_COPIES = ('<alloc::string::String as core::convert::From>::from', '<str as alloc::string::ToString>::to_string', '<str as alloc::borrow::ToOwned>::to_owned',
           'alloc::str::<impl str>::to_owned', 'alloc::string::String::from', '<alloc::string::String as core::clone::Clone>::clone',
           'alloc::slice::<impl [T]>::to_vec', '<T as core::convert::Into>::into')
_SHORTER = ('core::str::trim', 'core::str::trim_start', 'core::str::trim_end', 'core::str::trim_matches',
            'core::str::trim_start_matches', 'core::str::trim_end_matches')
_LEN = ('core::str::len', 'core::slice::len', 'alloc::vec::Vec::len', 'alloc::string::String::len')


def _canon(t):
    """normal form modulo borrows and std views; len() of a mapped/collected slice iterator is len() of the slice"""
    t = norm(t)
    while True:
        if t[0] in ('ref', 'deref', 'copy', 'move', 'autoderef') and len(t) > 1 and isinstance(t[1], tuple):
            t = t[1]
        elif t[0] == 'call' and isinstance(t[1], str) and t[1] in _VIEWS and len(t[2]) == 1:
            t = t[2][0]
        else:
            break
    if t[0] == 'call' and isinstance(t[1], str) and t[1] in _LEN and len(t[2]) == 1:
        x = _canon(t[2][0])
        # an owned copy of a string / slice has the length of the original
        while x[0] == 'call' and isinstance(x[1], str) and len(x[2]) == 1 and (x[1] in _COPIES or x[1].endswith(('ToString>::to_string', 'ToOwned>::to_owned'))):
            x = _canon(x[2][0])
        # collect(map(iter(v), f)): std - Map over a slice iterator yields exactly one item per element
        if x[0] == 'call' and isinstance(x[1], str) and x[1].endswith('Iterator>::collect') and len(x[2]) == 1:
            y = _canon(x[2][0])
            if y[0] == 'call' and isinstance(y[1], str) and y[1].endswith('Iterator>::map'):
                z = _canon(y[2][0])
                if z[0] == 'call' and isinstance(z[1], str) and z[1] in ('core::slice::iter',):
                    x = _canon(z[2][0])
        return ('len', x)
    return t


def _le(a, b):
    """a <= b by std's algebra?"""
    if a == b:
        return True
    if a[0] == 'call' and isinstance(a[1], str):
        if a[1] == 'core::num::saturating_sub' and _canon(a[2][0]) == b:
            return True
        if a[1].endswith(('cmp::Ord::min', 'cmp::min', 'cmp::Ord>::min')) and any(_canon(x) == b for x in a[2]):
            return True
    if a[0] == 'len' and b[0] == 'len':
        x = a[1]
        while x[0] == 'call' and isinstance(x[1], str) and x[1] in _SHORTER:
            x = _canon(x[2][0])
            if x == b[1]:
                return True
    return False


def always(d):
    """True / False when the boolean term d has that value in every execution by std's own algebra, else None."""
    d = norm(d)
    if d[0] == 'un' and d[1] == 'Not':
        r = always(d[2])
        return None if r is None else (not r)
    if d[0] == 'const' and d[1] == 'bool':
        return str(d[2]).lower() == 'true'
    if d[0] != 'bin':
        return None
    op, a, b = d[1], _canon(d[2]), _canon(d[3])
    # Ok payload of compare_exchange(cell, current, new, ..) is `current`
    for x, y in ((a, b), (b, a)):
        if x[0] == 'field' and x[1][0] == 'payload' and x[1][2] == 'Ok' and term_callee_is(x[1][1], 'core::sync::atomic::Atomic::compare_exchange') \
                and _canon(x[1][1][2][1]) == y:
            return {'Eq': True, 'Ne': False, 'Le': True, 'Ge': True, 'Lt': False, 'Gt': False}.get(op)
    if op in ('Eq', 'Le', 'Ge') and a == b:
        return True
    if op in ('Ne', 'Lt', 'Gt') and a == b:
        return False
    if op == 'Le' and _le(a, b):
        return True
    if op == 'Ge' and _le(b, a):
        return True
    if op == 'Gt' and _le(a, b):
        return False
    if op == 'Lt' and _le(b, a):
        return False
    return None


def discharge(ctx, m, inv_ok, cr, b, bi, kind, term, T):
    """returns (True, 'Dk: why') | (False, why) | (None, '')"""
    if kind.startswith('resource:'):
        return True, 'D5: %s fails only on resource exhaustion (capacity > isize::MAX / OS thread limit)' % kind[9:]
    if kind.startswith('call:'):
        k = kind[5:]
        if k in ('core::result::Result::unwrap', 'core::result::Result::expect'):
            a = term[2][0]
            if term_callee_is(a, 'std::sync::poison::mutex::Mutex::lock'):
                return True, 'D3: lock().unwrap() panics only on a poisoned mutex (see D3/critical-sections-cannot-poison)'
            if term_callee_is(a, 'std::thread::builder::Builder::spawn', 'std::thread::Builder::spawn'):
                return True, 'D5: Builder::spawn(..).unwrap()/expect() is what thread::spawn does: it fails only when the OS refuses a thread (resource exhaustion)'
            if cr is ctx.mac and term_callee_is(a, 'cadence_macros::state::get_global_default'):
                from .c17 import _is_unwrapped_global
                if _is_unwrapped_global(ctx.mac, strip_generics(b.path)):
                    return True, 'D6: the documented panic of the statsd_* macros when no global client is set (C17), moved into a helper of the macro crate'
        if k.startswith('<[') and k.endswith('as core::ops::index::Index>::index') and len(term[2]) == 2:      # slices only: a str range must also hit a char boundary
            # slice[..end] / slice[start..]: in bounds when std's algebra gives end <= len (start <= len)
            sl, rng = _canon(term[2][0]), norm(term[2][1])
            if rng[0] == 'adt' and rng[1] in ('core::ops::range::RangeTo', 'core::ops::range::RangeFrom'):
                bound = _canon(list(dict(rng[3]).values())[0])
                if _le(bound, ('len', sl)):
                    return True, 'D7: %s of a slice with a bound that is <= its length by construction (%s)' % (rng[1].rsplit('::', 1)[-1], fmt(bound)[:60])
        if k.endswith(('core::panicking::panic', 'core::panicking::panic_fmt', 'core::panicking::assert_failed')):
            # an assertion: the panic is behind `if !(cond)`; discharged when cond is a fact of std's own algebra
            gs_ = guards_of(T, bi) or []
            for dt, labels, _sbi in gs_:
                d = norm(dt)
                for lab in labels:
                    if lab[0] == 'bool' and always(d) is (not lab[1]):
                        return True, 'D7: assertion of a fact that always holds (%s): the panic is unreachable' % fmt(d)[:100]
                    # a TrySendError is Full or Disconnected: `is_disconnected()` asserted where `is_full()` was just found false
                    if lab[0] == 'bool' and lab[1] is False and term_callee_is(d, 'crossbeam_channel::err::TrySendError::is_disconnected'):
                        for dt2, labels2, _s2 in gs_:
                            d2 = norm(dt2)
                            if term_callee_is(d2, 'crossbeam_channel::err::TrySendError::is_full') and _canon(d2[2][0]) == _canon(d[2][0]) and ('bool', False) in labels2:
                                return True, 'D7: a TrySendError that is not Full is Disconnected: the assertion cannot fail'
        return None, ''
    # asserts
    msg = kind[7:]
    cond = term
    if not (cond[0] == 'overflowed' or (cond[0] == 'un' and cond[1] == 'Not')):
        if msg.startswith('Overflow'):
            pass
    inner = cond[1] if cond[0] == 'overflowed' else None
    if inner is None:
        # `assert(!move (_x.1))` prints as field 1 of the checked op
        for y in walk(cond):
            if y[0] == 'overflowed':
                inner = y[1]
    if msg.startswith('Overflow(Sub)') and inner is not None:
        a, c = inner[2], inner[3]
        # (1) dominating comparison guard with the same coefficient vector
        atoms = {}

        def atom(t):
            t = norm(t)
            if t[0] == 'load' and t[2] == 'entry':
                t = t[1]
            key = fmt(t)
            if t[0] in ('call', 'field', 'param', 'load'):
                atoms[key] = t
                return key
            # a value widened without loss (`counter.load(..) as u64` of an AtomicUsize) is a quantity like any other: the
            # guard and the subtraction read the same widened value
            from .sockets import UNSIGNED_BITS as _UB
            if t[0] == 'cast' and t[1] == 'IntToInt' and t[2] in _UB and t[3] in _UB and _UB[t[3]] >= _UB[t[2]] and \
                    norm(t[4])[0] in ('call', 'field', 'param', 'load'):
                atoms[key] = t
                return key
            return None
        try:
            diff = L.lin_of(('bin', 'Sub', a, c), atom)
            for dt, labels, sbi in guards_of(T, bi) or []:
                for lab in labels:
                    if lab[0] != 'bool':
                        continue
                    try:
                        g = L.guard_ge0(norm(dt), lab[1], atom)
                        if L.entails(g, diff):
                            return True, 'D1: %s is dominated by a guard that makes it non-negative' % fmt(inner)[:100]
                    except L.Unknown:
                        pass
        except L.Unknown:
            pass
        # (2) invariant I of the line writer: capacity - written
        # (in write(), or in any other method of the writer that reads both fields as they are on entry: the invariant holds
        # between calls because only write/flush/the constructor touch them - M10)
        if m is not None and m.ok and (b.path == m.write.path or (getattr(b, 'impl_self', None) and type_head(b.impl_self) == W.MLW and
                                                                  b.path not in (m.flush.path, m.with_ending.path))):
            if m.atom(a) == 'C' and m.atom(c) == 'W':
                if inv_ok:
                    return True, 'D1: capacity - written >= 0 by invariant I (written <= capacity), premises M2,M5,M8w,M9,M10 hold'
                return False, '`capacity - written` can underflow: the premises of invariant I (written <= capacity) do not hold on this tree (see the M-rule violations)'
        # (3a) a sum of sizes whose constant part alone (literal constants, lengths of string literals) already covers the
        # constant that is subtracted: `"|#".len() + kv + n - 2`, `x - 0`
        if c[0] == 'const' and unsigned_leafs_ok(a, size_leaf_for(ctx, b)):
            def lower(t_):
                t_ = norm(t_)
                if t_[0] == 'load' and t_[2] == 'entry':
                    t_ = t_[1]
                if t_[0] == 'field' and str(t_[2]) == '0' and t_[1][0] == 'bin':
                    t_ = t_[1]
                if t_[0] == 'const':
                    try:
                        return max(0, int(str(t_[2])))
                    except (TypeError, ValueError):
                        return 0
                if t_[0] == 'bin' and t_[1] in ('Add', 'AddWithOverflow'):
                    return lower(t_[2]) + lower(t_[3])
                if t_[0] == 'bin' and t_[1] in ('Mul', 'MulWithOverflow'):
                    return lower(t_[2]) * lower(t_[3])
                if t_[0] == 'call' and isinstance(t_[1], str) and t_[1] in ('core::str::len',) and len(t_[2]) == 1:
                    s_ = peel(t_[2][0])
                    if s_[0] == 'str':
                        return len(s_[1].encode())
                return 0
            try:
                if lower(a) >= int(str(c[2])):
                    return True, 'D1: the constant part of the sum (%d) covers the constant subtracted (%s)' % (lower(a), c[2])
            except (TypeError, ValueError):
                pass
        # (3) unsigned sum containing L, minus small const, under a guard L >= 1
        if c[0] == 'const' and c[2] in ('1',):
            lens = [y for y in walk(a) if y[0] == 'call' and isinstance(y[1], str) and y[1].endswith('::len')]
            if unsigned_leafs_ok(a, size_leaf_for(ctx, b)):
                for dt, labels, sbi in guards_of(T, bi) or []:
                    d = norm(dt)
                    # a private predicate helper (`self.has_tags()`): look through it
                    if d[0] == 'call' and isinstance(d[1], str) and any(strip_generics(x_.path) == d[1] for x_ in cr.all_bodies) and len(d[2]) == 1:
                        from .. import symb
                        d2 = norm(symb.apply(('fn', d[1]), d[2]))
                        while d2[0] == 'un' and d2[1] == 'Not' and all(l[0] == 'bool' for l in labels):
                            labels = [('bool', not l[1]) for l in labels]
                            d2 = d2[2]
                        d = d2
                    if term_callee_is(d, '::is_empty') and ('bool', False) in labels:
                        for ln in lens:
                            if peel(ln[2][0]) == peel(d[2][0]):
                                return True, 'D1: sum of lengths including len(x) minus 1, under !x.is_empty()'
                    # the same test spelt on the length: len(x) != 0, len(x) > 0, len(x) >= 1, 0 < len(x) ...
                    pos = _len_positive(d, labels)
                    if pos is not None:
                        for ln in lens:
                            if peel(ln[2][0]) == peel(pos):
                                return True, 'D1: sum of lengths including len(x) minus 1, under len(x) >= 1'
        return False, 'subtraction %s is not provably non-negative: underflow panics (debug) / wraps (release)' % fmt(inner)[:120]
    if msg.startswith('Overflow(Add)') or msg.startswith('Overflow(Mul)'):
        if inner is None:
            return None, ''
        a, c = inner[2], inner[3]
        ty = None
        # event counters: x + 1 on a u64/usize field
        def _small(x_):
            try:
                return x_[0] == 'const' and 0 <= int(str(x_[2])) <= 16
            except (TypeError, ValueError):
                return False
        one = _small(c) or _small(a)        # += 1 (or another tiny step): 2^60 events
        other = a if (c[0] == 'const') else c
        if one and msg.startswith('Overflow(Add)'):
            o = other[1] if other[0] == 'load' else other
            if o[0] == 'field' or o[0] == 'call':
                # the step's type is the counter's type: only a 64-bit (or wider) counter cannot be run over by counting events
                step = c if c[0] == 'const' else a
                wide = {'u64': 64, 'usize': 64, 'i64': 63, 'isize': 63, 'u128': 128, 'i128': 127}
                if str(step[1]) in wide:
                    return True, 'D5: event counter += 1 (2^%d events)' % wide[str(step[1])]
                return False, 'event counter of type %s: += %s overflows after that many events (a long-lived sink gets there): panics with overflow checks, wraps without' % (step[1], step[2])
        # written + r : invariant I
        if m is not None and m.ok and b.path == m.write.path:
            def is_w(t):
                t = t[1] if t[0] == 'load' else t
                return self_field_name(t) == m.f_written
            if is_w(a) or is_w(c):
                if inv_ok:
                    return True, 'D1: written + bytes just buffered <= capacity by invariant I'
                return False, 'written + n may overflow: invariant I does not hold'
        if unsigned_leafs_ok(inner, size_leaf_for(ctx, b)):
            return True, 'D5: sum/product of in-memory lengths and constants'
        return False, 'arithmetic %s on caller-controlled values can overflow: panics with overflow checks, wraps without' % fmt(inner)[:120]
    if msg.startswith('BoundsCheck'):
        # table[variant as usize] with a table at least as long as the largest discriminant of a field-less local enum
        c0 = norm(cond)
        if c0[0] == 'bin' and c0[1] == 'Lt' and c0[3][0] == 'const' and c0[2][0] == 'cast' and c0[2][4][0] == 'discr':
            try:
                n_ = int(c0[3][2])
            except (TypeError, ValueError):
                n_ = None
            enums = set()
            for blk_ in b.blocks:
                for s_ in blk_['stmts']:
                    if s_['k'] == 'assign' and s_['rv']['k'] == 'discr':
                        enums.add(type_head(s_['rv'].get('ty', '')))
            if n_ is not None and len(enums) == 1:
                a_ = cr.adts.get(list(enums)[0])
                if a_ and a_['kind'] == 'Enum' and all(not v_['fields'] for v_ in a_['variants']) and \
                        all(v_['discr'] is not None and 0 <= int(v_['discr']) < n_ for v_ in a_['variants']):
                    return True, 'D1: index is the discriminant of %s (max %d) into a table of %d entries' % (list(enums)[0].rsplit('::', 1)[-1], max(int(v_['discr']) for v_ in a_['variants']), n_)
        return False, 'indexing can go out of bounds'
    if msg.startswith('DivisionByZero') or msg.startswith('RemainderByZero'):
        d = term
        return False, 'division by a value that may be zero'
    if msg.startswith('OverflowNeg'):
        return False, 'negation can overflow'
    return None, ''
