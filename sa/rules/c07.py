"""C07 - a failed socket write loses only what was reported lost."""
from . import writer as W
from . import sinks as S

EXPLANATION = ('Static discharge of the error-ordering premises M1,M2(=>),M3,M4,M5,M7,M8 (+M9..M11 frame) of the proof in '
               'DESIGN 6.5, E1 (adapters and SocketStats::update surface the socket error unchanged) and D1 (the sinks\' emit/flush = '
               'blocking lock + one writer call + its result).')


def check(ctx, rep):
    rep.trust('std::io::BufWriter keeps its buffer when the inner write fails (flush_buf), DESIGN 6.5')
    m = W.WriterModel(ctx, rep)
    if not m.ok:
        return
    W.rule_M1(m, rep)
    W.rule_M2(m, rep, 'must')
    W.rule_M3(m, rep)
    W.rule_M4_M5_M6(m, rep, want=('M4', 'M5', 'M6', 'M6e'))
    W.rule_M7(m, rep)
    W.rule_M8(m, rep)
    W.rule_M9(m, rep)
    W.rule_M10(m, rep)
    W.rule_M11(m, rep)
    W.rule_G1(m, rep)
    S.rule_E1(ctx, rep)
    # the sink's own emit()/flush() add nothing of their own to that: they wait for the lock (no try_lock error of their own
    # making), call the line writer once on every path (a flush is always attempted) and return what it returned
    from .common import KeepOnly
    S.rule_lock_discipline(ctx, KeepOnly(rep, ('/one-blocking-lock', '/one-writer-call', '/returns-writer-result', '/overrides-flush'), 'D1'), 'D1')
