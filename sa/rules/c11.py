"""C11 - the queuing sink survives panics in the wrapped sink."""
from . import queuing as A
from . import queuing2 as B
from .qmodel import QModel

EXPLANATION = ('R1 sentinel protocol on normal and unwind edges of the spawn closure, R2 Sentinel::drop respawns exactly one '
               'worker and counts exactly once iff armed (unconditionally otherwise), R3 the panicking entry was already '
               'dequeued and is never re-enqueued, R4 panics() reads the incremented counter; a panic of the wrapped emit is never caught inside the '
               'task or run() (catch_unwind modelled as an unwind edge re-entering normal flow).')


def check(ctx, rep):
    rep.trust('a panic in the task unwinds through run() into the spawn closure (panic=unwind); thread::spawn succeeds')
    m = QModel(ctx, rep)
    if not m.ok:
        return
    B.rule_sentinel(m, rep)
    B.rule_panic_propagates(m, rep)
    # the wrapped sink runs under the sentinel only: the task is invoked from the worker loop and nowhere else (a helper
    # draining the queue on a caller's thread would let a panic escape into the application, uncounted)
    B.rule_task_only_in_run(m, rep, 'R1t')
    # "the sink keeps accepting metrics": whether emit accepts depends on the queue alone - every emit attempts the enqueue
    # and maps its outcome; no worker-health flag, slot counter or cached thread handle can refuse it after a panic
    from .common import KeepOnly
    A.rule_emit(m, KeepOnly(rep, ('emit/enqueues-exactly-once', 'emit/result-depends-on-enqueue', 'emit/accepted-means-ok-len'), 'R5'), 'R5', early_pure=True)
    A.rule_loop(m, rep, 'R3')
    A.rule_task_closure(m, rep, 'R3', parts=('once',))
    B.rule_task_own_panics(m, rep, 'R3')
    B.rule_loop_own_panics(m, rep, 'R3')
    B.rule_panics_getter(m, rep)
    A.rule_counters(m, rep, only=('panics',))
    from ..report import Report
    flag = B.rule_stop(m, Report('scratch'))      # only to learn whether a stop flag exists
    B.rule_run_exit(m, rep, flag, only=('R1b',))
