"""Premises of the line-writer proof (DESIGN 6.5): M1..M11, A1..A3, D1..D3, E1, G1.

All rules run on the generic MIR of `impl Write for MultiLineWriter<T>` (flush inlined into write), so they hold
for every T and every call history; the pen-and-paper induction in DESIGN 6.5 carries them to C05/C06/C07/C19.
"""
from .. import cfg as C
from .. import linear as L
from ..terms import Terms, norm, fmt, walk, field_of
from .common import *

MLW = 'cadence::io::MultiLineWriter'
WRITE_TRAIT = 'std::io::Write'
BUFW = 'std::io::buffered::bufwriter::BufWriter'


class WriterModel:
    """Anchors + role names (fields found by role, not by name)."""

    def __init__(self, ctx, rep):
        self.ok = False
        cad = ctx.cad
        self.cad = cad
        w = cad.method(MLW, 'write', WRITE_TRAIT)
        f = cad.method(MLW, 'flush', WRITE_TRAIT)
        we = cad.method(MLW, 'with_ending')
        nw = cad.method(MLW, 'new')
        if len(w) != 1 or len(f) != 1 or len(we) != 1 or len(nw) != 1:
            rep.anchor_lost('M0', 'impl Write for MultiLineWriter (write/flush) + with_ending + new: %d/%d/%d/%d' % (
                len(w), len(f), len(we), len(nw)))
            return
        self.write, self.flush, self.with_ending, self.new = w[0], f[0], we[0], nw[0]
        for b in (self.write, self.flush, self.with_ending, self.new):
            rep.analysed(b)
        fields = adt_fields(cad, MLW)
        if fields is None:
            rep.anchor_lost('M0', 'struct MultiLineWriter')
            return
        self.fields = fields
        # roles from the constructor's aggregate
        T = Terms(inl(cad, self.with_ending))
        rets = ret_terms(T, [0])
        if len(rets) != 1:
            rep.unknown('M9', 'with_ending', self.with_ending.where(), 'constructor has %d return shapes' % len(rets))
            return
        agg = list(rets)[0]
        if agg[0] != 'adt' or agg[1] != MLW:
            rep.unknown('M9', 'with_ending', self.with_ending.where(), 'does not return a MultiLineWriter aggregate')
            return
        self.ctor = dict(agg[3])
        # fields grouped into a private struct (`framing: Framing { capacity, line_ending }`) count as fields of the writer,
        # addressed by their own (innermost) name
        self.nest = {}
        for f_ in list(fields):
            h_ = type_head(f_['ty'])
            v_ = self.ctor.get(f_['name'])
            if h_ in cad.adts and h_ != MLW and cad.adts[h_].get('kind') == 'Struct' and v_ is not None and norm(v_)[0] == 'adt' and in_module_of_path(cad, h_, MLW):
                gs_ = adt_fields(cad, h_) or []
                if len(gs_) == 1 and str(gs_[0]['name']).isdigit():
                    # a private newtype (`capacity: Capacity(usize)`): the field stands for what it wraps
                    fields = [dict(x_, ty=gs_[0]['ty']) if x_['name'] == f_['name'] else x_ for x_ in fields]
                    self.ctor[f_['name']] = dict(norm(v_)[3]).get(gs_[0]['name'], dict(norm(v_)[3]).get(str(gs_[0]['name'])))
                    continue
                for g_ in adt_fields(cad, h_) or []:
                    if g_['name'] not in self.ctor:
                        fields = fields + [g_]
                        self.ctor[g_['name']] = dict(norm(v_)[3]).get(g_['name'])
                        self.nest[g_['name']] = f_['name']
        self.fields = fields
        self.f_inner = [f_['name'] for f_ in fields if f_['ty'].startswith(BUFW + '<')]
        self.f_le = [f_['name'] for f_ in fields if f_['ty'].replace(' ', '') in ('alloc::vec::Vec<u8>', 'alloc::boxed::Box<[u8]>', 'alloc::sync::Arc<[u8]>', 'alloc::string::String', 'alloc::boxed::Box<str>')]
        usz = [f_['name'] for f_ in fields if f_['ty'] == 'usize']
        self.f_written = [n for n in usz if self.ctor.get(n) == ('const', 'usize', '0', None)]
        self.f_cap = [n for n in usz if self.ctor.get(n) == ('param', 2)]
        if not (len(self.f_inner) == 1 and len(self.f_le) == 1 and len(self.f_written) == 1 and len(self.f_cap) == 1):
            rep.unknown('M9', 'roles', self.with_ending.where(),
                        'cannot identify fields by role: inner=%s line_ending=%s written=%s capacity=%s' % (
                            self.f_inner, self.f_le, self.f_written, self.f_cap))
            return
        self.f_inner, self.f_le, self.f_written, self.f_cap = (
            self.f_inner[0], self.f_le[0], self.f_written[0], self.f_cap[0])
        # derived constants: further fields the constructor computes from the capacity and the line ending only
        # (`max_line = cap.checked_sub(ending.len())`): reads of such a field stand for the constructor's equation, written
        # over the symbols C and E (sound as long as nobody stores to the field afterwards - M10 covers these fields too)
        self.derived = {}
        le_t = norm(self.ctor.get(self.f_le))

        def sym(x):
            x = norm(x)
            if x == ('param', 2):
                return ('sym', 'C')
            if x[0] == 'call' and isinstance(x[1], str) and x[1].endswith('::len') and len(x[2]) == 1:
                a_ = x[2][0]
                # through borrows and the pointer plumbing of Box<[u8]> / Vec<u8> derefs
                while a_[0] in ('ref', 'deref', 'cast', 'field', 'load', 'unsize', 'autoderef', 'conv'):
                    a_ = a_[4] if a_[0] == 'cast' else a_[1]
                le0 = le_t
                while le0[0] in ('ref', 'deref', 'load', 'unsize', 'autoderef', 'conv'):
                    le0 = le0[1]
                if a_ == le0 or strip_views(x[2][0]) == strip_views(le_t):
                    return ('sym', 'E')
            if x[0] == 'call' and isinstance(x[1], str) and x[1] in ('core::num::checked_sub', 'core::num::saturating_sub') and len(x[2]) == 2:
                a_, b_ = sym(x[2][0]), sym(x[2][1])
                return ('call', x[1], (a_, b_)) if a_ is not None and b_ is not None else None
            if x[0] == 'bin' and x[1] in ('Sub', 'Add'):
                a_, b_ = sym(x[2]), sym(x[3])
                return ('bin', x[1], a_, b_) if a_ is not None and b_ is not None else None
            if x[0] == 'const':
                return x
            return None
        for f_ in fields:
            n_ = f_['name']
            if n_ in (self.f_inner, self.f_le, self.f_written, self.f_cap) or n_ not in self.ctor:
                continue
            if f_['ty'].replace(' ', '') in ('usize', 'core::option::Option<usize>'):
                eq = sym(self.ctor[n_])
                if eq is not None:
                    self.derived[n_] = eq
        # inlined write (flush spliced)
        self.wbody = inl(cad, self.write)
        self.T = Terms(self.wbody)
        self.fT = Terms(inl(cad, self.flush))
        self.ok = True

    # ---- term classification
    def atom(self, t):
        """Named quantities of the proof: W, C, N, E."""
        t = norm(t)
        if t[0] == 'sym':
            return t[1]
        if t[0] == 'load':
            if t[2] != 'entry':
                return None
            t = t[1]
        n = self.fname(t)
        if n == self.f_written and t[0] != 'ref':
            return 'W'
        if n == self.f_cap and t[0] != 'ref':
            return 'C'
        if t[0] == 'call' and isinstance(t[1], str) and t[1].endswith('::len') and len(t[2]) == 1:
            a = peel(t[2][0])
            if a == ('param', 2):
                return 'N'
            if self.fname(t[2][0]) == self.f_le:
                return 'E'
        return None

    def fname(self, t):
        """role name of the writer field that term t reads: the innermost name for fields grouped into a private struct"""
        n_ = self_field_name(t)
        if self.nest and n_ in set(self.nest.values()):
            l_ = leaf_field_name(t)
            if l_ in self.nest:
                return l_
        return n_

    def lin(self, t):
        return L.lin_of(self.desat(norm(t)), self.atom)

    def desat(self, t):
        """capacity.saturating_sub(written) == capacity - written under the inductive invariant written <= capacity
        (assumed at entry of the step, re-established by M2/M5/M8/M9): rewrite so that the guard stays linear."""
        if not isinstance(t, tuple) or not t:
            return t
        # `a.checked_sub(b)` matched as Some(x): x is a - b
        if t[0] == 'field' and str(t[2]) == '0' and t[1][0] == 'payload' and t[1][2] == 'Some' and term_callee_is(t[1][1], 'core::num::checked_sub') \
                and len(t[1][1][2]) == 2:
            return ('bin', 'Sub', self.desat(t[1][1][2][0]), self.desat(t[1][1][2][1]))
        # `len_a.checked_add(len_b).unwrap_or(usize::MAX)`: two in-memory lengths (each <= isize::MAX) cannot overflow, the
        # fallback is dead: it is len_a + len_b
        if t[0] == 'phi' and len(t[1]) == 2:
            alts = list(t[1])
            cs = [x for x in alts if x[0] == 'const']
            ps = [x for x in alts if x[0] == 'field' and str(x[2]) == '0' and x[1][0] == 'payload' and x[1][2] == 'Some' and
                  term_callee_is(x[1][1], 'core::num::checked_add') and len(x[1][1][2]) == 2]
            if len(cs) == 1 and len(ps) == 1:
                a_, b_ = ps[0][1][1][2]
                if self.atom(a_) in ('N', 'E') and self.atom(b_) in ('N', 'E'):
                    return ('bin', 'Add', a_, b_)
        if getattr(self, 'derived', None):
            # a read of a derived constant field -> its constructor equation
            x = t
            if x[0] == 'load' and x[2] == 'entry':
                x = x[1]
            if x[0] == 'field' and x[2] in self.derived and peel(x[1]) == ('param', 1) and x[1][0] in ('deref', 'param'):
                return self.desat(self.derived[x[2]])
            if t[0] == 'discr':
                return ('discr', self.desat(t[1]))
            if t[0] == 'payload':
                return ('payload', self.desat(t[1]), t[2])
            if t[0] == 'field' and t[1][0] == 'payload':
                inner = self.desat(t[1])
                c_ = inner[1]
                if inner[2] == 'Some' and c_[0] == 'call' and c_[1] == 'core::num::checked_sub' and str(t[2]) == '0':
                    return ('bin', 'Sub', c_[2][0], c_[2][1])      # Some(a - b)
                return ('field', inner, t[2])
        if t[0] == 'call' and isinstance(t[1], str) and t[1].endswith('::saturating_sub') and len(t[2]) == 2:
            a, b = t[2]
            if self.atom(a) == 'C' and self.atom(b) == 'W':
                return ('bin', 'Sub', a, b)
        if t[0] in ('bin',):
            return (t[0], t[1], self.desat(t[2]), self.desat(t[3]))
        if t[0] == 'un':
            return (t[0], t[1], self.desat(t[2]))
        return t

    def is_inner(self, t):
        return self_field_name(t) == self.f_inner

    def bw_write_blocks(self):
        """Blocks calling BufWriter::write(&mut self.inner, x); returns [(bb, argterm)]"""
        out = []
        for bi in call_blocks(self.wbody, '<' + BUFW + ' as std::io::Write>::write'):
            ct = norm(self.T.call_term(bi))
            if self.is_inner(ct[2][0]):
                out.append((bi, ct[2][1]))
        return out

    def bypass_blocks(self):
        """Blocks calling <T as Write>::write on BufWriter::get_mut(&mut self.inner)."""
        out = []
        for bi, t in self.wbody.calls():
            if self.wbody.blocks[bi]['cleanup']:
                continue
            if not (t.get('callee') == 'std::io::Write::write' or callee_is(t, 'std::io::Write::write')):
                continue
            ct = norm(self.T.call_term(bi))
            if ct[1] != '<T as std::io::Write>::write':
                continue
            a0 = peel(ct[2][0])
            if term_callee_is(a0, BUFW + '::get_mut') and self.is_inner(a0[2][0]):
                out.append((bi, ct[2][1]))
            else:
                out.append((bi, None))
        return out

    def flush_call_blocks(self):
        """Blocks (in the inlined write) where self.flush() was spliced or BufWriter::flush is called."""
        spl = [bi for bi, b in enumerate(self.wbody.blocks)
               if b['term'].get('inl_call', '').endswith('as std::io::Write>::flush') and not b['cleanup']]
        raw = [bi for bi in call_blocks(self.wbody, '<' + BUFW + ' as std::io::Write>::flush')]
        return spl, raw


def guard_lins(m, T, target, removed=()):
    """Linear forms (>= 0) of the comparison guards dominating `target`; returns (list of Lin, list of unknown msgs)."""
    gs = guards_of(T, target, removed=removed)
    if gs is None:
        return None, ['unreachable']
    lins, unk = [], []
    for dt, labels, bi in gs:
        dt = norm(dt)
        if dt[0] == 'discr' and getattr(m, 'derived', None):
            dt = m.desat(dt)
        if dt[0] == 'discr' and term_callee_is(dt[1], 'core::num::checked_sub') and len(dt[1][2]) == 2:
            # `a.checked_sub(b)`: Some exactly when a >= b (std), i.e. a guard written as a subtraction that may fail
            a_, b_ = dt[1][2]
            for lab in labels:
                if lab[0] == 'variant' and lab[1] in ('Some', 'None'):
                    try:
                        lins.append((L.guard_ge0(m.desat(('bin', 'Ge', a_, b_)), lab[1] == 'Some', m.atom), bi))
                    except L.Unknown as e:
                        unk.append('%s: %s' % (T.body.where(bi), e))
            continue
        if dt[0] == 'discr':
            continue            # enum matches (Ok/Err edges) are not numeric guards
        truth = None
        for lab in labels:
            if lab[0] == 'bool':
                truth = lab[1]
        if truth is None:
            continue
        try:
            lins.append((L.guard_ge0(m.desat(dt), truth, m.atom), bi))
        except L.Unknown as e:
            unk.append('%s: %s' % (T.body.where(bi), e))
    return lins, unk


def any_entails(lins, oracle):
    for g, bi in lins:
        try:
            if L.entails(g, oracle):
                return True
        except L.Unknown:
            continue
    return False


def all_entailed_by(lins, oracle_holds_implies):
    return None


def rule_M1(m, rep, rid='M1', exact_fill_may_bypass=False):
    """Bypass iff the metric cannot fit an empty buffer: both polarities.  For greedy packing alone (C19) a metric that
    fills a datagram exactly may go either way: it shares its datagram with nothing in both cases."""
    T = m.T
    byp = m.bypass_blocks()
    bww = m.bw_write_blocks()
    if not rep.floor(rid, 'bypass write through get_mut', len(byp), 1):
        return
    N_E_C = L.Lin({'N': 1, 'E': 1, 'C': -1}, 0 if exact_fill_may_bypass else -1)          # N + E - C - 1 >= 0   (does not fit)
    FITS = L.Lin({'C': 1, 'N': -1, 'E': -1}, 0)            # C - N - E >= 0       (fits)
    for bi, arg in byp:
        rep.sites()
        lins, unk = guard_lins(m, T, bi)
        if lins is None:
            continue
        if any_entails(lins, N_E_C):
            rep.good(rid, 'bypass-only-when-too-big', m.wbody.where(bi),
                     'bypass guarded by len(buf)+len(line_ending) > capacity')
        elif unk and not lins:
            rep.unknown(rid, 'bypass-only-when-too-big', m.wbody.where(bi), '; '.join(unk))
        else:
            rep.bad(rid, 'bypass-only-when-too-big', m.wbody.where(bi),
                    'a metric that fits an empty buffer can be sent unbuffered/unterminated: guards %s do not entail '
                    'len(buf)+len(le) > capacity' % [repr(g) for g, _ in lins])
    if not rep.floor(rid, 'buffered BufWriter::write calls', len(bww), 2):
        return
    for bi, arg in bww:
        rep.sites()
        lins, unk = guard_lins(m, T, bi)
        if any_entails(lins or [], FITS):
            rep.good(rid, 'buffer-only-when-fits', m.wbody.where(bi), 'buffered path guarded by len(buf)+len(le) <= capacity')
        elif unk and not lins:
            rep.unknown(rid, 'buffer-only-when-fits', m.wbody.where(bi), '; '.join(unk))
        else:
            rep.bad(rid, 'buffer-only-when-fits', m.wbody.where(bi),
                    'a metric that cannot fit the buffer may be pushed into it (BufWriter would split/flush it): '
                    'guards %s do not entail len(buf)+len(le) <= capacity' % [repr(g) for g, _ in lins])


def rule_M2(m, rep, direction, rid='M2'):
    """direction 'must': (doesn't fit remaining) => flush happened before buffering.
       direction 'only': flush happens only if it doesn't fit remaining (greedy, C19)."""
    T = m.T
    spl, raw = m.flush_call_blocks()
    bww = m.bw_write_blocks()
    A = L.Lin({'W': 1, 'N': 1, 'E': 1, 'C': -1}, -1)      # W + N + E - C - 1 >= 0
    NOT_A = L.Lin({'C': 1, 'W': -1, 'N': -1, 'E': -1}, 0)   # C - W - N - E >= 0
    # flush sites on the buffered side (before the first BufWriter::write)
    first_w = [bi for bi, arg in bww if peel(norm(arg)) == ('param', 2)]
    if direction == 'must':
        if not rep.floor(rid, 'BufWriter::write(buf)', len(first_w), 1):
            return
        flush_blocks = set(spl) | set(raw)
        for bi in first_w:
            rep.sites()
            lins, unk = guard_lins(m, T, bi, removed=flush_blocks)
            if lins is None:
                rep.good(rid, 'flush-before-overfull', m.wbody.where(bi), 'every path to the buffered write flushes first')
                continue
            if any_entails(lins, NOT_A):
                rep.good(rid, 'flush-before-overfull', m.wbody.where(bi),
                         'paths that skip the flush are guarded by written+len(buf)+len(le) <= capacity')
            elif unk and not lins:
                rep.unknown(rid, 'flush-before-overfull', m.wbody.where(bi), '; '.join(unk))
            else:
                rep.bad(rid, 'flush-before-overfull', m.wbody.where(bi),
                        'the line can be buffered without a flush although written+len(buf)+len(le) > capacity '
                        '(BufWriter would then flush a partial line / split): guards %s' % [repr(g) for g, _ in lins])
    else:
        sites = spl if spl else raw
        # flush calls that happen before the buffered write (reach a BufWriter::write)
        sites = [s for s in sites if any(w in reach(m.wbody, [s]) for w, _ in bww)]
        if not rep.floor(rid, 'flush before buffered write', len(sites), 1):
            return
        for bi in sites:
            rep.sites()
            lins, unk = guard_lins(m, T, bi)
            if any_entails(lins or [], A):
                rep.good(rid, 'flush-only-when-needed', m.wbody.where(bi),
                         'flush guarded by written+len(buf)+len(le) > capacity')
            elif unk and not lins:
                rep.unknown(rid, 'flush-only-when-needed', m.wbody.where(bi), '; '.join(unk))
            else:
                rep.bad(rid, 'flush-only-when-needed', m.wbody.where(bi),
                        'the buffer is flushed although the line still fits the remaining space (not greedy): guards %s'
                        % [repr(g) for g, _ in lins])


def _inner_flush_blocks(m, body):
    out = []
    T = m.T if body is m.wbody else m.fT
    for bi in call_blocks(body, '<' + BUFW + ' as std::io::Write>::flush'):
        ct = norm(T.call_term(bi))
        if self_field_name(ct[2][0]) == m.f_inner:
            out.append(bi)
    return out


def rule_M3(m, rep, rid='M3', only=None):
    """On flush->Err inside write: return that error, no later BufWriter::write / underlying write / store to written."""
    if only:
        rep = KeepOnly(rep, only)
    T, body = m.T, m.wbody
    fl = _inner_flush_blocks(m, body)
    if not rep.floor(rid, 'BufWriter::flush reachable from write', len(fl), 1):
        return
    wr = set(bi for bi, _ in m.bw_write_blocks()) | set(bi for bi, _ in m.bypass_blocks())
    stores = store_sites(T, m.f_written)
    for fbi in fl:
        rep.sites()
        ok_e, err_e, sws = outcomes(T, fbi)
        if not err_e:
            rep.bad(rid, 'flush-error-examined', body.where(fbi), 'the result of BufWriter::flush is not examined')
            continue
        fct = norm(T.call_term(fbi))
        _, r = freach(T, err_e, known={fct: 'Err'})
        late = sorted(r & wr)
        st = [(b, i) for b, i, v in stores if b in r]
        if late:
            rep.bad(rid, 'no-write-after-failed-flush', body.where(late[0]),
                    'a write is reachable after BufWriter::flush failed: the rejected metric would be buffered/sent')
        elif st:
            rep.bad(rid, 'no-count-after-failed-flush', body.where(st[0][0], st[0][1]),
                    '`%s` is modified after BufWriter::flush failed (buffer still holds the lines)' % m.f_written)
        else:
            rep.good(rid, 'failed-flush-stops', body.where(fbi), 'no write and no store to %s after a failed flush' % m.f_written)
        # a successful flush inside write empties the buffer: the count goes back to 0 before anything else is buffered and
        # before write returns (whether the flush is flush() itself, a private helper shared with it, or a direct call)
        if ok_e:
            zb = set(b for b, i, v in stores if v == ('const', 'usize', '0', None))
            stop_at = set(C.exits(body, False)) | set(bi for bi, _ in m.bw_write_blocks())
            okz = all(C.must_pass(body, s, stop_at, zb) for s in ok_e)
            rep.ob(rid, 'successful-flush-resets-count', okz, body.where(fbi),
                   '`%s` = 0 after BufWriter::flush succeeded, before the next buffered write / return' % m.f_written if okz else
                   'after BufWriter::flush succeeded inside write, `%s` is not reset on every path: it keeps counting bytes that '
                   'already left the buffer' % m.f_written)
        rts = ret_terms(T, err_e, known={fct: 'Err'})
        good = all(_is_err_of(rt, fct) or rt == fct for rt in rts) and rts
        if good:
            rep.good(rid, 'failed-flush-returns-its-error', body.where(fbi), 'returns Err(e) with e from BufWriter::flush')
        else:
            rep.bad(rid, 'failed-flush-returns-its-error', body.where(fbi),
                    'after a failed flush write may return %s' % [fmt(x) for x in rts])


def _is_err_of(rt, callterm):
    """rt == Err(conv?(payload Err of callterm)) possibly through nested conv."""
    if rt[0] == 'phi':
        return all(_is_err_of(x, callterm) for x in rt[1])
    if rt[0] != 'adt' or rt[2] != 'Err':
        return False
    e = dict(rt[3]).get('0')
    while e is not None and (e[0] in ('conv',) or _is_from_call(e)):
        e = e[1] if e[0] == 'conv' else e[2][0]
    if e is None:
        return False
    # payload Err of an Err(...) that itself wraps the call's error (inlined `?` chains)
    return _err_payload_of(e, callterm)


def _is_from_call(e):
    return e[0] == 'call' and isinstance(e[1], str) and len(e[2]) == 1 and (
        e[1].endswith('as core::convert::From>::from') or e[1].endswith('as core::convert::Into>::into'))


def _err_payload_of(e, callterm):
    if e[0] == 'adt' and not (e[1] == 'core::result::Result'):
        # a wrapper built around the payload (From impl expanded): exactly one field chain leads to the payload
        inner = [v for n, v in e[3]]
        return len(inner) >= 1 and any(_err_payload_of(v, callterm) for v in inner)
    while True:
        if e[0] == 'conv':
            e = e[1]
            continue
        if _is_from_call(e):
            e = e[2][0]
            continue
        if e[0] == 'field' and e[1][0] == 'payload' and e[1][2] == 'Err':
            inner = e[1][1]
            if inner == callterm:
                return True
            if inner[0] == 'phi':
                # result of an inlined callee: phi(Ok(..) | Err(conv(payload Err call)))
                errs = [x for x in inner[1] if x[0] == 'adt' and x[2] == 'Err']
                return bool(errs) and all(_is_err_of(x, callterm) for x in errs)
            if inner[0] == 'adt' and inner[2] == 'Err':
                return _is_err_of(inner, callterm)
            return False
        return False


def rule_M4_M5_M6(m, rep, want=('M4', 'M5', 'M6'), zero_store_ok=False):
    """Buffered path: write(buf) then write(line_ending), each whole, each Err returns at once; `written` counts the
    Ok payloads right after each call; returns Ok(r1)."""
    T, body = m.T, m.wbody
    bww = m.bw_write_blocks()
    if len(bww) != 2:
        rep.bad('M4', 'two-buffered-writes', body.where(),
                'expected exactly two BufWriter::write calls on self.inner (metric, line ending), found %d' % len(bww))
        return
    # order: the one whose arg is buf must reach the other
    (b1, a1), (b2, a2) = bww
    if b1 in reach(body, [b2]) and b2 not in reach(body, [b1]):
        (b1, a1), (b2, a2) = (b2, a2), (b1, a1)
    a1n, a2n = norm(a1), norm(a2)
    if 'M4' in want:
        rep.sites(2)
        ok1 = peel(a1n) == ('param', 2)
        rep.ob('M4', 'metric-whole-first', ok1, body.where(b1),
               'first buffered write passes the `buf` parameter unchanged' if ok1 else
               'first buffered write does not pass the whole `buf` parameter: %s' % fmt(a1n))
        ok2 = m.fname(a2n) == m.f_le and not any(x[0] == 'index' or (x[0] == 'call' and 'index' in str(x[1]).lower())
                                                           for x in walk(a2n))
        rep.ob('M4', 'line-ending-whole-second', ok2, body.where(b2),
               'second buffered write passes the whole line ending' if ok2 else
               'second buffered write does not pass self.%s whole: %s' % (m.f_le, fmt(a2n)))
        for nm, bb in (('first', b1), ('second', b2)):
            ok_e, err_e, _ = outcomes(T, bb)
            if not err_e or not ok_e:
                rep.bad('M4', '%s-write-result-examined' % nm, body.where(bb), 'result of BufWriter::write not examined')
                continue
            ct = norm(T.call_term(bb))
            _, r = freach(T, err_e, known={ct: 'Err'})
            others = [x for x, _ in bww if x in r] + [x for x, _ in m.bypass_blocks() if x in r]
            rts = ret_terms(T, err_e, known={ct: 'Err'})
            okk = not others and rts and all(_is_err_of(rt, ct) for rt in rts)
            rep.ob('M4', '%s-write-error-returns-at-once' % nm, okk, body.where(bb),
                   'Err edge returns that error, no further write' if okk else
                   'after a failed buffered write: later writes %s, returns %s' % (others, [fmt(x) for x in rts]))
        # exactly one of each per buffered path: counts on paths that reach b1
        cnt1 = count_events(body, lambda b: b == b1)
        cnt2 = count_events(body, lambda b: b == b2)
        rep.ob('M4', 'each-part-at-most-once', cnt1 <= {0, 1} and cnt2 <= {0, 1}, body.where(b1),
               'each BufWriter::write happens at most once per call (counts %s/%s)' % (sorted(cnt1), sorted(cnt2)))
        # second must follow Ok of first on every path that returns Ok from the buffered side
        ok_e1, _, _ = outcomes(T, b1)
        ok_e2, _, _ = outcomes(T, b2)
        # from ok edge of first, every path to return passes b2
        mp = fmust_pass(T, list(ok_e1), {b2}, known={norm(T.call_term(b1)): 'Ok'}) if ok_e1 else False
        rep.ob('M4', 'line-ending-always-follows', mp, body.where(b2),
               'after the metric was buffered every path writes the line ending' if mp else
               'a path buffers the metric and returns without writing the line ending')
    if 'M5' in want or 'M6' in want:
        stores = store_sites(T, m.f_written)
        wstores = [(b, i, v) for b, i, v in stores
                   if not any(fr[0].endswith('as std::io::Write>::flush') for fr in body.blocks[b].get('frame', ()))]
        # the reset that belongs to a flush, when write reaches the flush through a private helper shared with flush()
        # (`fn drain(&mut self)`): a store of 0 that lies behind the Ok edge of a BufWriter::flush (and not behind its Err edge),
        # with no buffered write in between
        _dom = C.dominators(body, False)
        def _reset_of_flush(b):
            for fbi in _inner_flush_blocks(m, body):
                ok_e, err_e, _ = outcomes(T, fbi)
                if not ok_e or not err_e:
                    continue
                okr = reach(body, ok_e, stop=lambda q: q in [x for x, _ in bww])
                if b in okr and b not in reach(body, err_e) and fbi in _dom.get(b, ()):
                    return True
            return False
        wstores = [(b, i, v) for b, i, v in wstores if not (v == ('const', 'usize', '0', None) and _reset_of_flush(b))]
        ct1, ct2 = norm(T.call_term(b1)), norm(T.call_term(b2))
        r1 = field_of(('payload', ct1, 'Ok'), '0', 0)
        r2 = field_of(('payload', ct2, 'Ok'), '0', 0)
        if 'M5' in want:
            exp = {1: False, 2: False}
            for b, i, v in wstores:
                rep.sites()
                which = None
                if _is_add_of(v, m, r1):
                    which = 1
                elif _is_add_of(v, m, r2):
                    which = 2
                if which is None and zero_store_ok and v == ('const', 'usize', '0', None):
                    continue        # a reset can never push the counter above the capacity
                if which is None:
                    rep.bad('M5', 'unexpected-store', body.where(b, i),
                            'store to self.%s in write that is not `%s + <bytes just buffered>`: %s' % (
                                m.f_written, m.f_written, fmt(v)))
                    continue
                exp[which] = True
                callbb = b1 if which == 1 else b2
                ok_e, err_e, _ = outcomes(T, callbb)
                # the store must lie on the Ok side, and before any later fallible write
                kn = {norm(T.call_term(callbb)): 'Ok'}
                on_ok = b in freach(T, ok_e, known=kn)[1]
                later_calls = [x for x, _ in bww if x != callbb and x in reach(body, ok_e, stop=lambda y: y == b) and x != b
                               and x in freach(T, ok_e, known=kn)[1]]
                okk = on_ok and not later_calls
                rep.ob('M5', 'count-after-write-%d' % which, okk, body.where(b, i),
                       'written += r%d right after the write succeeded' % which if okk else
                       'written is updated for part %d too late/early (another fallible write comes first: %s)' % (
                           which, later_calls))
            for which in (1, 2):
                if not exp[which]:
                    rep.bad('M5', 'count-after-write-%d' % which, body.where(b1 if which == 1 else b2),
                            'bytes buffered by write %d are never added to self.%s' % (which, m.f_written))
        if 'M6' in want or 'M6e' in want:
            ok_e2, _, _ = outcomes(T, b2)
            rts = ret_terms(T, ok_e2, known={norm(T.call_term(b2)): 'Ok'}) if ok_e2 else set()
            oks = [rt for rt in rts if rt[0] == 'adt' and rt[2] == 'Ok']
            if 'M6' in want:
                # the value an accepted metric is acknowledged with
                okk = bool(oks) and all(dict(rt[3]).get('0') == r1 for rt in oks)
                rep.ob('M6', 'returns-metric-byte-count', okk, body.where(b2),
                       'buffered path returns Ok(bytes of the metric)' if okk else
                       'buffered path returns %s, not Ok(<count of the first write>)' % [fmt(x) for x in rts])
            if 'M6e' in want:
                # once metric and terminator are buffered the call cannot fail any more
                oke = bool(rts) and len(oks) == len(rts)
                rep.ob('M6', 'no-error-after-buffering', oke, body.where(b2),
                       'after the line was buffered the call returns Ok' if oke else
                       'the metric is already buffered (and will be sent) but the call can still return %s' % [fmt(x)[:80] for x in rts if x not in oks][:2])


def _is_add_of(v, m, r):
    """v == self.written(+any version) + r"""
    v = norm(v)
    if v[0] == 'call' and isinstance(v[1], str) and v[1].endswith('::saturating_add') and len(v[2]) == 2:
        v = ('bin', 'Add', v[2][0], v[2][1])         # written + n <= capacity (M2): cannot saturate
    if v[0] != 'bin' or v[1] not in ('Add', 'AddWithOverflow'):
        return False
    a, b = v[2], v[3]

    def is_w(t):
        if t[0] == 'load':
            t = t[1]
        return self_field_name(t) == m.f_written

    return (is_w(a) and b == r) or (is_w(b) and a == r)


def rule_M7(m, rep, rid='M7'):
    """Bypass is pass-through: returns U's result unchanged, reaches U only via get_mut, stores nothing to written."""
    T, body = m.T, m.wbody
    byp = m.bypass_blocks()
    for bi, arg in byp:
        rep.sites()
        if arg is None:
            rep.bad(rid, 'underlying-writer-only-via-get_mut', body.where(bi),
                    'the underlying writer is written through something else than BufWriter::get_mut(&mut self.inner)')
            continue
        okarg = peel(norm(arg)) == ('param', 2)
        rep.ob(rid, 'bypass-sends-whole-metric', okarg, body.where(bi),
               'bypass passes `buf` unchanged' if okarg else 'bypass passes %s instead of the whole `buf`' % fmt(norm(arg)))
        ct = norm(T.call_term(bi))
        ok_e, err_e, _ = outcomes(T, bi)
        starts = (ok_e | err_e) if (ok_e or err_e) else {body.succs(bi, False)[0]}
        r = reach(body, starts)
        stores = [(b, i) for b, i, v in store_sites(T, m.f_written) if b in r]
        bw = [x for x, _ in m.bw_write_blocks() if x in r]
        rep.ob(rid, 'bypass-touches-no-state', not stores and not bw, body.where(bi),
               'nothing buffered or counted after the direct write' if not stores and not bw else
               'after the direct write: stores to written %s, buffered writes %s' % (stores, bw))
        if ok_e and err_e:
            rt_ok = ret_terms(T, ok_e)
            rt_err = ret_terms(T, err_e)
            r_ok = field_of(('payload', ct, 'Ok'), '0', 0)
            g1 = rt_ok and all(rt[0] == 'adt' and rt[2] == 'Ok' and dict(rt[3]).get('0') == r_ok for rt in rt_ok)
            g2 = rt_err and all(_is_err_of(rt, ct) for rt in rt_err)
            rep.ob(rid, 'bypass-returns-writer-result', bool(g1 and g2), body.where(bi),
                   'returns the underlying writer\'s Ok(n)/Err(e) unchanged' if g1 and g2 else
                   'bypass returns %s / %s' % ([fmt(x) for x in rt_ok], [fmt(x) for x in rt_err]))
        else:
            rts = ret_terms(T, starts)
            okk = rts == {ct}
            rep.ob(rid, 'bypass-returns-writer-result', okk, body.where(bi),
                   'returns the call result directly' if okk else 'bypass returns %s' % [fmt(x) for x in rts])
        # before the bypass: no buffered write; a flush is tolerated
        pre = [x for x, _ in m.bw_write_blocks() if bi in reach(body, [x])]
        rep.ob(rid, 'nothing-buffered-before-bypass', not pre, body.where(bi),
               'no buffered write precedes the direct write' if not pre else 'buffered write at %s precedes the bypass' % pre)


def rule_M8(m, rep, rid='M8'):
    """flush: BufWriter::flush(inner); Err -> return before any store; Ok -> written = 0; no other store."""
    body = inl(m.cad, m.flush)
    T = Terms(body)
    fl = [bi for bi in call_blocks(body, '<' + BUFW + ' as std::io::Write>::flush')
          if self_field_name(norm(T.call_term(bi))[2][0]) == m.f_inner]
    if len(fl) != 1:
        rep.bad(rid, 'flush-calls-inner-flush-once', body.where(),
                'MultiLineWriter::flush calls BufWriter::flush on self.%s %d times (expected 1)' % (m.f_inner, len(fl)))
        return
    fbi = fl[0]
    rep.sites()
    cnt = count_events(body, lambda b: b == fbi)
    rep.ob(rid, 'flush-calls-inner-flush-once', cnt == {1}, body.where(fbi),
           'every path through flush calls BufWriter::flush exactly once' if cnt == {1} else 'counts per path: %s' % sorted(cnt))
    ok_e, err_e, _ = outcomes(T, fbi)
    stores = store_sites(T, m.f_written)
    if not ok_e or not err_e:
        rep.bad(rid, 'flush-result-examined', body.where(fbi), 'result of BufWriter::flush is not examined')
        return
    pre = [(b, i) for b, i, v in stores if fbi in reach(body, [b])]      # includes statements of the call's own block
    err_r = reach(body, err_e)
    on_err = [(b, i) for b, i, v in stores if b in err_r]
    rep.ob(rid, 'no-reset-before-or-on-failure', not pre and not on_err, body.where(fbi),
           'written is untouched until the inner flush succeeded' if not pre and not on_err else
           'written is modified before the inner flush succeeded / on its failure: %s' % (pre + on_err))
    ok_r = reach(body, ok_e)
    zero = [(b, i) for b, i, v in stores if b in ok_r and v == ('const', 'usize', '0', None)]
    nonzero = [(b, i, fmt(v)) for b, i, v in stores if b in ok_r and v != ('const', 'usize', '0', None)]
    # reset on every Ok path
    zb = set(b for b, i in zero)
    every = bool(ok_e) and all(C.must_pass(body, s, set(C.exits(body, False)), zb) for s in ok_e)
    rep.ob(rid, 'reset-after-success', every and not nonzero, body.where(fbi),
           'written = 0 on every path after a successful flush' if every and not nonzero else
           'after a successful flush written is not reset to 0 on every path (other stores: %s)' % nonzero)
    ct = norm(T.call_term(fbi))
    rts = ret_terms(T, err_e, known={ct: 'Err'})
    okk = bool(rts) and all(_is_err_of(rt, ct) or rt == ct for rt in rts)
    rep.ob(rid, 'flush-returns-inner-error', okk, body.where(fbi),
           'Err edge returns the BufWriter error' if okk else 'flush returns %s on failure' % [fmt(x) for x in rts])
    rto = ret_terms(T, ok_e, known={ct: 'Ok'})
    okk = bool(rto) and all((rt[0] == 'adt' and rt[2] == 'Ok') or rt == ct for rt in rto)
    rep.ob(rid, 'flush-returns-ok', okk, body.where(fbi), 'Ok edge returns Ok(())' if okk else 'returns %s' % [fmt(x) for x in rto])


def rule_M9(m, rep, rid='M9'):
    c = m.ctor
    b = m.with_ending
    rep.sites()
    inner = c.get(m.f_inner)
    ok = (inner is not None and inner[0] == 'call' and inner[1].endswith('BufWriter::with_capacity')
          and inner[2] == (('param', 2), ('param', 1)))
    rep.ob(rid, 'bufwriter-capacity-is-cap', ok, b.where(),
           'inner = BufWriter::with_capacity(cap, inner) with the same cap stored in self.%s' % m.f_cap if ok else
           'inner BufWriter is built as %s: its capacity must be the `cap` stored in self.%s' % (fmt(inner), m.f_cap))
    le = norm(c.get(m.f_le))
    src = [x for x in walk(le) if x == ('param', 3)]
    bad = [x for x in walk(le) if x[0] == 'call' and not (x[1].endswith('as_bytes') or x[1].endswith('as core::convert::From>::from')
                                                          or x[1].endswith('::to_vec') or x[1].endswith('to_owned')
                                                          or x[1].endswith('::into'))]
    rep.ob(rid, 'line-ending-is-end', bool(src) and not bad, b.where(),
           'line_ending = bytes of the `end` parameter' if src and not bad else 'line_ending built as %s' % fmt(le))
    # new = with_ending(inner, cap, "\n")
    Tn = Terms(m.new)
    calls = [(bi, norm(Tn.call_term(bi))) for bi, t in m.new.calls() if not m.new.blocks[bi]['cleanup']]
    ok = (len(calls) == 1 and calls[0][1][1].endswith('MultiLineWriter::with_ending')
          and calls[0][1][2][0] == ('param', 1) and calls[0][1][2][1] == ('param', 2)
          and peel(calls[0][1][2][2]) == ('str', '\n'))
    if not ok:
        # new() and with_ending() share a private constructor helper: new() builds what with_ending(inner, cap, "\n") builds -
        # the constructor's aggregate with `end` replaced by "\n", field by field
        def subst(x):
            if x == ('param', 3):
                return ('str', '\n')
            if isinstance(x, tuple):
                return tuple(subst(y) for y in x)
            return x
        rn = ret_terms(Terms(inl(m.cad, m.new)), [0])
        if len(rn) == 1 and list(rn)[0][0] == 'adt' and list(rn)[0][1] == MLW:
            got = dict(list(rn)[0][3])
            for f_, v_ in list(got.items()):
                if f_ in m.nest.values() and norm(v_)[0] == 'adt':
                    got.update(dict(norm(v_)[3]))
            want = {k_: norm(subst(norm(v_))) for k_, v_ in m.ctor.items() if v_ is not None and k_ not in m.nest.values()}
            if any(y == ('param', 3) for v_ in m.ctor.values() if v_ is not None for y in walk(norm(v_))):
                ok = all(k_ in got and norm(got[k_]) == w_ for k_, w_ in want.items())
    rep.ob(rid, 'new-uses-newline', ok, m.new.where(),
           'new(inner, cap) = with_ending(inner, cap, "\\n")' if ok else 'MultiLineWriter::new does %s' % [fmt(c_[1]) for c_ in calls])


def rule_M10(m, rep, rid='M10'):
    """Frame: only write/flush/with_ending touch written/capacity/inner/line_ending mutably."""
    from .qmodel import private_region
    allowed = set()
    for root in (m.write, m.flush, m.with_ending):
        allowed |= private_region(m.cad, root, MLW)
    # helpers shared by write and flush
    changed = True
    while changed:
        changed = False
        for x in m.cad.all_bodies:
            if x.path in allowed or x.j.get('reachable') or not (x.impl_self and type_head(x.impl_self) == MLW):
                continue
            callers = set(y.path for y in m.cad.all_bodies for _, t in y.calls() if t.get('resolved') == x.path)
            if callers and callers <= allowed:
                allowed.add(x.path)
                changed = True
    roles = {m.f_written, m.f_cap, m.f_inner, m.f_le} | set(getattr(m, 'derived', {}) or {})
    n = 0
    offenders = []
    for b in m.cad.all_bodies:
        if not in_module_of(b, MLW):
            continue
        n += 1
        rep.analysed(b)
        if b.path in allowed:
            continue
        for bi, blk in enumerate(b.blocks):
            for si, s in enumerate(blk['stmts']):
                if s['k'] != 'assign':
                    continue
                pl = s['place']
                # direct store to a role field of a MultiLineWriter, or &mut borrow of it
                if _touches_role(b, pl, roles, store=True):
                    offenders.append((b, bi, si, 'store'))
                rv = s['rv']
                if rv['k'] in ('ref', 'rawptr') and (rv.get('bk') == 'mut' or 'Mut' in str(rv.get('bk'))):
                    if _touches_role(b, rv['place'], roles, store=False):
                        offenders.append((b, bi, si, '&mut'))
    rep.floor(rid, 'bodies in the writer module', n, 6)
    if offenders:
        for b, bi, si, kind in offenders:
            rep.bad(rid, 'frame/%s' % b.short(), b.where(bi, si),
                    '%s of a MultiLineWriter bookkeeping field outside write/flush/with_ending' % kind)
    else:
        rep.good(rid, 'frame', '', 'no other body in the module writes or mutably borrows %s' % sorted(roles))
    if not m.cad.has_forbid_unsafe():
        rep.bad(rid, 'forbid-unsafe', 'cadence/src/lib.rs', '#![forbid(unsafe_code)] is gone: field privacy no longer implies the frame')
    else:
        rep.good(rid, 'forbid-unsafe', 'cadence/src/lib.rs', 'crate forbids unsafe code')


def _touches_role(b, pl, roles, store):
    cur_is_mlw = False
    ty = b.locals[pl['l']]
    cur = ty
    for e in pl['p']:
        if e[0] == 'deref':
            cur = cur.lstrip('&').strip()
            if cur.startswith('mut '):
                cur = cur[4:]
            continue
        if e[0] == 'field':
            if cur.startswith(MLW + '<') or cur == MLW:
                if e[2] in roles:
                    return True
            cur = e[3]
    return False


def rule_M11(m, rep, rid='M11'):
    cad = m.cad
    drops = [i for i in cad.impls_of('core::ops::drop::Drop') if i.get('self_adt') == MLW]
    rep.ob(rid, 'no-drop-impl', not drops, drops[0]['span']['file'] if drops else '',
           'MultiLineWriter has no Drop impl (BufWriter\'s own Drop flushes the buffer)' if not drops else
           'a Drop impl for MultiLineWriter changes what happens to buffered lines on drop')
    fty = [f for f in m.fields if f['name'] == m.f_inner][0]['ty']
    rep.ob(rid, 'inner-is-std-bufwriter', fty == BUFW + '<T>', '', 'field type %s' % fty)
    badcalls = []
    for b in cad.all_bodies:
        if not in_module_of(b, MLW):
            continue
        for bi, t in b.calls():
            if callee_is(t, 'core::mem::forget', 'ManuallyDrop::new', 'BufWriter::into_parts', 'BufWriter::into_inner',
                         'core::mem::ManuallyDrop::<T>::new', 'Box::leak', 'BufWriter::into_raw_parts'):
                badcalls.append((b, bi))
    rep.ob(rid, 'buffer-not-forgotten', not badcalls, badcalls[0][0].where(badcalls[0][1]) if badcalls else '',
           'no forget/ManuallyDrop/into_parts on the buffer' if not badcalls else 'the BufWriter is dismantled/forgotten')


def rule_G1(m, rep, rid='G1'):
    """No other flush in write than the guarded one (C19)."""
    T, body = m.T, m.wbody
    spl, raw = m.flush_call_blocks()
    n_raw_in_write = [bi for bi in raw if not body.blocks[bi].get('frame')]
    rep.ob(rid, 'single-flush-site', len(spl) + len(n_raw_in_write) <= 1, body.where(),
           'write contains %d flush site(s)' % (len(spl) + len(n_raw_in_write)))
    # after the buffered writes nothing flushes
    after = []
    for bi, _ in m.bw_write_blocks():
        r = reach(body, [bi])
        after += [x for x in spl + raw if x in r and x != bi]
    rep.ob(rid, 'no-flush-after-buffering', not after, body.where(after[0]) if after else body.where(),
           'nothing is flushed after the line was buffered' if not after else 'write flushes after buffering the line (eager)')
    # the underlying writer is not reached any other way
    others = []
    for bi, t in body.calls():
        if body.blocks[bi]['cleanup']:
            continue
        if callee_is(t, BUFW + '::get_mut', BUFW + '::get_ref', BUFW + '::into_inner', BUFW + '::into_parts'):
            used_by = [b for b, a in m.bypass_blocks() if a is not None]
            if not used_by:
                others.append(bi)
    rep.ob(rid, 'no-side-channel', not others, body.where(others[0]) if others else body.where(),
           'the underlying writer is reached only by the bypass' if not others else 'get_mut/get_ref used outside the bypass')
