"""CFG utilities over a Body: reachability, dominators, post-dominators, loops, edge conditions."""


def reachable(body, start=0, unwind=True, stop=None):
    seen = set()
    st = [start]
    while st:
        b = st.pop()
        if b in seen:
            continue
        seen.add(b)
        if stop is not None and stop(b):
            continue
        for s in body.succs(b, unwind):
            if s not in seen:
                st.append(s)
    return seen


def preds(body, unwind=True):
    p = {i: [] for i in range(len(body.blocks))}
    for i in range(len(body.blocks)):
        for s in body.succs(i, unwind):
            p[s].append(i)
    return p


def dominators(body, unwind=True, entry=0):
    """dom[b] = set of blocks dominating b (over blocks reachable from entry)."""
    reach = reachable(body, entry, unwind)
    pr = preds(body, unwind)
    dom = {b: set(reach) for b in reach}
    dom[entry] = {entry}
    changed = True
    order = sorted(reach)
    while changed:
        changed = False
        for b in order:
            if b == entry:
                continue
            ps = [p for p in pr[b] if p in reach]
            if not ps:
                new = {b}
            else:
                new = set.intersection(*[dom[p] for p in ps]) | {b}
            if new != dom[b]:
                dom[b] = new
                changed = True
    return dom


def exits(body, unwind=True):
    out = []
    for i, b in enumerate(body.blocks):
        k = b['term']['k']
        if k == 'return' or (unwind and k in ('resume', 'terminate')):
            out.append(i)
    return out


def post_dominators(body, unwind=False):
    """pdom[b] = set of blocks post-dominating b, w.r.t. normal exits (return) when unwind=False."""
    n = len(body.blocks)
    ex = exits(body, unwind)
    allb = set(range(n))
    pdom = {b: set(allb) for b in range(n)}
    for e in ex:
        pdom[e] = {e}
    changed = True
    while changed:
        changed = False
        for b in range(n):
            if b in ex:
                continue
            ss = body.succs(b, unwind)
            if not ss:
                new = {b}      # unreachable/diverging: only itself
            else:
                new = set.intersection(*[pdom[s] for s in ss]) | {b}
            if new != pdom[b]:
                pdom[b] = new
                changed = True
    return pdom


def back_edges(body, unwind=False):
    dom = dominators(body, unwind)
    out = []
    for b in dom:
        for s in body.succs(b, unwind):
            if s in dom.get(b, ()):
                out.append((b, s))
    return out


def natural_loop(body, back_edge, unwind=False):
    tail, head = back_edge
    pr = preds(body, unwind)
    loop = {head, tail}
    st = [tail]
    while st:
        b = st.pop()
        if b == head:
            continue
        for p in pr[b]:
            if p not in loop:
                loop.add(p)
                st.append(p)
    return loop


def must_pass(body, src, targets, avoid, unwind=False):
    """True iff every path from src to any block in `targets` passes a block in `avoid` ... i.e. targets are
    unreachable from src when blocks in `avoid` are removed."""
    seen = set()
    st = [src]
    while st:
        b = st.pop()
        if b in seen or b in avoid:
            continue
        seen.add(b)
        if b in targets:
            return False
        for s in body.succs(b, unwind):
            st.append(s)
    return True


def edge_label(body, bb, succ):
    """Label of edge bb->succ: for switch: list of values (str) or 'otherwise'; for call/assert/drop: 'ok'|'unwind'."""
    t = body.blocks[bb]['term']
    k = t['k']
    if k == 'switch':
        vals = [v for v, tb in t['targets'] if tb == succ]
        lab = []
        if vals:
            lab += vals
        if t['otherwise'] == succ:
            lab.append('otherwise')
        return lab
    if k in ('call', 'drop', 'assert'):
        if t.get('target') == succ:
            return ['ok']
        if t.get('unwind') == succ:
            return ['unwind']
    return ['goto']
