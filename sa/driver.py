"""./check <ID> --tier quick|thorough : extract facts from the source tree, run the property's rules, run its
positive controls (frozen snapshot + patch), write evidence, print VIOLATION / KNOWN-FINDING lines."""
import argparse
import concurrent.futures as cf
import importlib
import json
import os
import shutil
import subprocess
import sys
import tempfile
import time
import traceback

from . import facts
from .report import Report

VERIF = os.path.dirname(os.path.dirname(os.path.abspath(__file__)))
EXTRACT = os.path.join(VERIF, 'extract.sh')
CONTROLS_DIR = os.path.join(VERIF, 'controls')


class Ctx:
    def __init__(self, src, factsdir, tier, scratch):
        self.src = src
        self.factsdir = factsdir
        self.tier = tier
        self.scratch = scratch
        self.cad = facts.load(factsdir, 'cadence')
        self.mac = facts.load(factsdir, 'cadence_macros', extra_renames=self.cad.j.get('module_renames', []))
        self.cad.siblings = [self.mac]
        self.mac.siblings = [self.cad]
        if len(self.cad.all_bodies) < 250:
            raise facts.Broken('cadence: only %d bodies extracted (floor 250)' % len(self.cad.all_bodies))
        if len(self.mac.all_bodies) < 10:
            raise facts.Broken('cadence_macros: only %d bodies extracted (floor 10)' % len(self.mac.all_bodies))
        self._wit = {}
        from . import symb
        symb.set_crates([self.cad, self.mac])
        self.witness_log = {}

    def witness(self, name, gen=None):
        """Build witness crate `name` (directory VERIF/witness/<name>) against self.src; returns facts Crate or the
        cargo diagnostics, depending on the witness kind."""
        if name in self._wit:
            return self._wit[name]
        from . import witness as W
        r = W.build(self, name)
        self._wit[name] = r
        return r


def extract(src, out, extra=('--workspace',), env=None):
    e = dict(os.environ)
    if env:
        e.update(env)
    p = subprocess.run([EXTRACT, src, out] + list(extra), stdout=subprocess.PIPE, stderr=subprocess.STDOUT, env=e)
    if p.returncode != 0:
        raise facts.Broken('extraction failed in %s (exit %d):\n%s' % (src, p.returncode, p.stdout.decode()[-3000:]))


def load_known():
    known = {}
    fixed = []
    p = os.path.join(VERIF, 'known_findings.txt')
    if os.path.exists(p):
        for line in open(p):
            line = line.strip()
            if line.startswith('finding:'):
                parts = line[len('finding:'):].split()
                pid = key = None
                rest = []
                for w in parts:
                    if w.startswith('property=') and pid is None:
                        pid = w[len('property='):]
                    elif w.startswith('key=') and key is None:
                        key = w[len('key='):]
                    else:
                        rest.append(w)
                if pid and key:
                    known[(pid, key)] = ' '.join(rest)
            elif line.startswith('fixed:'):
                fixed.append(line)
    return known, fixed


def load_controls(pid, tier):
    p = os.path.join(CONTROLS_DIR, 'controls.json')
    if not os.path.exists(p):
        return []
    allc = json.load(open(p))
    mine = [c for c in allc if pid in c.get('expects', {})]
    if tier == 'quick':
        q = [c for c in mine if c.get('quick')]
        mine = q if q else mine[:2]
    else:
        # thorough: the independently seeded changes filed under this property must be caught as well
        sd = os.path.join(VERIF, 'seeded')
        if os.path.isdir(sd):
            for name in sorted(os.listdir(sd)):
                mp = os.path.join(sd, name, 'meta.json')
                if not os.path.exists(mp):
                    continue
                try:
                    meta = json.load(open(mp))
                except ValueError:
                    continue
                if meta.get('property') == pid and meta.get('check_on_repo_with_change', {}).get('exit') == 1:
                    mine.append({'id': 'seeded/' + name, 'desc': (meta.get('summary') or '')[:160], 'patch': os.path.join('..', 'seeded', name, 'patch.diff'),
                                 'expects': {pid: ['']}})
    return mine


def run_rules(pid, src, tier, scratch_root):
    """Extract + run the rule module on a source tree. Returns (Report, Ctx)."""
    factsdir = tempfile.mkdtemp(prefix='facts_', dir=scratch_root)
    extract(src, factsdir)
    ctx = Ctx(src, factsdir, tier, scratch_root)
    mod = importlib.import_module('sa.rules.' + pid.lower())
    rep = Report(pid)
    try:
        mod.check(ctx, rep)
    except facts.Broken:
        raise
    except Exception as e:      # noqa: BLE001 - a rule met a construct it cannot digest: fail closed with a diagnosable report
        import traceback
        tb = traceback.extract_tb(e.__traceback__)
        last = [f for f in tb if '/sa/rules/' in f.filename] or list(tb)
        fr = last[-1]
        rep.unknown('INTERNAL', '%s/%s' % (os.path.basename(fr.filename), fr.name), '',
                    'rule code could not follow this tree (%s: %s at %s:%d): reported as not recognised, the property is NOT shown to hold' % (
                        type(e).__name__, str(e)[:120], os.path.basename(fr.filename), fr.lineno))
        if os.environ.get('VERIF_DEBUG'):
            traceback.print_exc()
    return rep, ctx


def run_control(pid, ctl, scratch_root):
    """Build snapshot+patch in a scratch dir, run the property's rules on it; expect a violation with a given key."""
    out = {'control': ctl['id'], 'desc': ctl.get('desc', ''), 'applied': False, 'compiled': False, 'fired': False,
           'keys': []}
    d = tempfile.mkdtemp(prefix='ctl_', dir=scratch_root)
    try:
        work = os.path.join(d, 'src')
        shutil.copytree(os.path.join(CONTROLS_DIR, 'base'), work)
        p = subprocess.run(['patch', '-p1', '-s', '--no-backup-if-mismatch', '-i',
                            os.path.join(CONTROLS_DIR, ctl['patch'])], cwd=work,
                           stdout=subprocess.PIPE, stderr=subprocess.STDOUT)
        if p.returncode != 0:
            out['error'] = 'patch failed: ' + p.stdout.decode()[-500:]
            return out
        out['applied'] = True
        try:
            rep, _ = run_rules(pid, work, 'quick', d)
        except facts.Broken as e:
            out['error'] = str(e)[-800:]
            return out
        out['compiled'] = True
        keys = [rep.key(o) for o in rep.violations()]
        out['keys'] = keys[:12]
        want = ctl['expects'][pid]
        out['fired'] = any(any(k.startswith(w) or w in k for w in want) for k in keys)
        return out
    finally:
        shutil.rmtree(d, ignore_errors=True)


def main(argv=None):
    ap = argparse.ArgumentParser()
    ap.add_argument('pid')
    ap.add_argument('--tier', default=os.environ.get('VERIF_TIER', 'quick'), choices=['quick', 'thorough'])
    ap.add_argument('--src', default='/repo')
    ap.add_argument('--no-controls', action='store_true')
    ap.add_argument('--no-evidence', action='store_true')
    ap.add_argument('--replay', default=None)
    ap.add_argument('--verbose', '-v', action='count', default=0)
    a = ap.parse_args(argv)
    pid = a.pid.upper()
    if a.replay:
        print(open(a.replay).read())
        return 0
    seed = int(os.environ.get('VERIF_SEED', '0') or 0)
    t0 = time.time()
    scratch_root = tempfile.mkdtemp(prefix='verif_%s_' % pid)
    try:
        try:
            controls = [] if a.no_controls else load_controls(pid, a.tier)
            with cf.ThreadPoolExecutor(max_workers=8) as ex:
                futs = [ex.submit(run_control, pid, c, scratch_root) for c in controls]
                rep, ctx = run_rules(pid, a.src, a.tier, scratch_root)
                release_rep = None
                if a.tier == 'thorough':
                    release_rep = run_release(pid, a.src, scratch_root)
                ctl_results = [f.result() for f in futs]
        except facts.Broken as e:
            print('BROKEN-CHECK property=%s %s' % (pid, e))
            return 2
        except Exception:
            print('BROKEN-CHECK property=%s internal error' % pid)
            traceback.print_exc()
            return 2
        dead = [c for c in ctl_results if not c['fired']]
        known, fixed = load_known()
        viols = rep.violations()
        if release_rep is not None:
            for o in release_rep.violations():
                o = dict(o)
                o['instance'] = o['instance'] + '@release'
                o['msg'] = '[release profile] ' + o['msg']
                rep.obligations.append(o)
            viols = rep.violations()
        new, old = [], []
        for o in viols:
            k = rep.key(o)
            if (pid, k) in known:
                old.append((k, o))
            else:
                new.append((k, o))
        for k, o in old:
            print('KNOWN-FINDING: property=%s %s %s %s' % (pid, k, o['where'], known[(pid, k)] or o['msg']))
        wall = time.time() - t0
        n_ob = len(rep.obligations)
        n_ok = len([o for o in rep.obligations if o['ok']])
        if a.verbose:
            for o in rep.obligations:
                if a.verbose > 1 or not o['ok']:
                    print('  [%s] %s %s %s' % ('ok' if o['ok'] else o['kind'], rep.key(o), o['where'], o['msg'][:300]))
        if not a.no_evidence:
            write_evidence(pid, a.tier, seed, rep, ctl_results, wall, len(new), len(old), release_rep)
        if dead:
            for c in dead:
                print('BROKEN-CHECK property=%s positive control %s did not fire (%s)' %
                      (pid, c['control'], c.get('error') or 'keys seen: %s' % c['keys']))
            return 2
        if new:
            os.makedirs(os.path.join(VERIF, 'replay'), exist_ok=True)
            rp = os.path.join(VERIF, 'replay', '%s.json' % pid)
            with open(rp, 'w') as f:
                json.dump({'property': pid, 'source': a.src, 'violations': [
                    {'key': k, 'kind': o['kind'], 'where': o['where'], 'msg': o['msg']} for k, o in new]}, f, indent=1)
            for k, o in new:
                print('  %s %s [%s] %s' % (o['where'], k, o['kind'], o['msg']))
            print('VIOLATION property=%s replay=%s' % (pid, rp))
            return 1
        print('OK property=%s tier=%s obligations=%d discharged=%d functions=%d controls_fired=%d/%d wall=%.1fs' % (
            pid, a.tier, n_ob, n_ok, len(rep.functions), len(ctl_results) - len(dead), len(ctl_results), wall))
        return 0
    finally:
        shutil.rmtree(scratch_root, ignore_errors=True)


def run_release(pid, src, scratch_root):
    """Thorough tier: same rules on the release configuration (overflow checks off, debug assertions off)."""
    factsdir = tempfile.mkdtemp(prefix='facts_rel_', dir=scratch_root)
    extract(src, factsdir, extra=('--workspace', '--release'))
    ctx = Ctx(src, factsdir, 'thorough', scratch_root)
    ctx.release = True
    mod = importlib.import_module('sa.rules.' + pid.lower())
    rep = Report(pid)
    mod.check(ctx, rep)
    return rep


def write_evidence(pid, tier, seed, rep, ctl_results, wall, n_new, n_known, release_rep):
    os.makedirs(os.path.join(VERIF, 'evidence'), exist_ok=True)
    mod = importlib.import_module('sa.rules.' + pid.lower())
    obs = rep.obligations
    rules = {}
    for o in obs:
        r = rules.setdefault(o['rule'], {'instances': 0, 'discharged': 0})
        r['instances'] += 1
        r['discharged'] += 1 if o['ok'] else 0
    samples = []
    seen_rules = set()
    for o in obs:
        if o['rule'] not in seen_rules or not o['ok']:
            seen_rules.add(o['rule'])
            samples.append({'rule': o['rule'], 'instance': o['instance'], 'where': o['where'],
                            'verdict': 'discharged' if o['ok'] else o['kind'], 'detail': o['msg'][:400]})
    ev = {
        'property_id': pid,
        'tier': tier,
        'seed': seed,
        'level': 'other',
        'coverage': {
            'explanation': getattr(mod, 'EXPLANATION', '') + ' Every obligation is a rule instance evaluated on the '
                           'type-checked MIR of /repo extracted on this run; nothing was executed.',
            'obligations': len(obs),
            'discharged': len([o for o in obs if o['ok']]),
            'checker_cmd': './check %s --tier %s' % (pid, tier),
            'trusted_base': rep.trusted,
            'rules': rules,
            'functions_analysed': sorted(rep.functions),
            'n_functions_analysed': len(rep.functions),
            'call_sites_examined': rep.call_sites,
            'instance_floors': rep.floors,
            'samples': samples[:60],
            'notes': rep.notes,
            'positive_controls': ctl_results,
            'known_findings_reported': n_known,
            'release_profile_checked': release_rep is not None,
            'release_profile_obligations': len(release_rep.obligations) if release_rep is not None else 0,
            'exhaustive': True,
        },
        'assumptions': rep.trusted,
        'wall_s': round(wall, 2),
        'violations': n_new,
    }
    with open(os.path.join(VERIF, 'evidence', '%s.json' % pid), 'w') as f:
        json.dump(ev, f, indent=1)


if __name__ == '__main__':
    sys.exit(main())
