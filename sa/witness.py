"""Witness crates: small crates compiled (never run) against the source tree under analysis."""
import json
import os
import shutil
import subprocess
import tempfile

from . import facts

VERIF = os.path.dirname(os.path.dirname(os.path.abspath(__file__)))

CARGO = '''[package]
name = "%(name)s"
version = "0.0.0"
edition = "2021"

[workspace]

[lib]
path = "lib.rs"

[dependencies]
cadence = { path = "%(src)s/cadence" }
cadence-macros = { path = "%(src)s/cadence-macros" }
'''


def _mk(ctx, name, lib_rs):
    d = tempfile.mkdtemp(prefix='wit_%s_' % name, dir=ctx.scratch)
    with open(os.path.join(d, 'Cargo.toml'), 'w') as f:
        f.write(CARGO % {'name': name, 'src': os.path.abspath(ctx.src)})
    with open(os.path.join(d, 'lib.rs'), 'w') as f:
        f.write(lib_rs)
    lock = os.path.join(ctx.src, 'Cargo.lock')
    if os.path.exists(lock):
        # same dependency versions as the repository; cargo adds the witness package itself
        shutil.copy(lock, os.path.join(d, 'Cargo.lock'))
    return d


def cargo_check(ctx, name, lib_rs):
    """Plain `cargo +nightly check` of a witness; returns (ok, [error codes], stderr tail)."""
    d = _mk(ctx, name, lib_rs)
    t = tempfile.mkdtemp(prefix='wt_', dir=ctx.scratch)
    env = dict(os.environ)
    env.update({'CARGO_TARGET_DIR': t, 'CARGO_NET_OFFLINE': 'true', 'RUSTFLAGS': '-Awarnings'})
    p = subprocess.run(['cargo', '+nightly', 'check', '--offline', '--message-format=json'], cwd=d, env=env,
                       stdout=subprocess.PIPE, stderr=subprocess.PIPE)
    codes = []
    msgs = []
    for line in p.stdout.decode(errors='replace').splitlines():
        try:
            j = json.loads(line)
        except ValueError:
            continue
        if j.get('reason') == 'compiler-message' and j['message'].get('level') == 'error':
            c = j['message'].get('code')
            codes.append(c['code'] if c else None)
            msgs.append(j['message'].get('message', ''))
    shutil.rmtree(t, ignore_errors=True)
    return p.returncode == 0, codes, msgs, p.stderr.decode(errors='replace')[-1500:]


def extract_witness(ctx, name, lib_rs):
    """Run the mirfacts driver over the witness crate; returns facts.Crate of the witness."""
    from .driver import extract
    d = _mk(ctx, name, lib_rs)
    out = tempfile.mkdtemp(prefix='wfacts_', dir=ctx.scratch)
    extract(d, out, extra=())
    c = facts.load(out, name, extra_renames=list(ctx.cad.j.get('module_renames', [])) + list(ctx.mac.j.get('module_renames', [])))
    c.siblings = [ctx.cad, ctx.mac]
    from . import symb
    symb.set_crates([ctx.cad, ctx.mac, c])
    return c
