"""Loading of mirfacts JSON and basic accessors. Nothing is decided here."""
import json
import os
import re


class Broken(Exception):
    """The machinery itself failed (exit 2, never a VIOLATION)."""


class Body:
    def __init__(self, j, crate):
        self.j = j
        self.crate = crate
        self.path = j['path']
        self.name = j.get('name')
        self.blocks = j['blocks']
        self.locals = j['locals']
        self.arg_count = j['arg_count']
        self.span = j['span']
        self.impl_self = j.get('impl_self')
        self.impl_trait = j.get('impl_trait')
        self.def_kind = j['def_kind']
        self.inlined_from = {}      # bb -> (callee path, ctx) for synthetic bodies
        self._short = None

    @property
    def file(self):
        return self.span['file']

    @property
    def line(self):
        return self.span['line']

    def where(self, bb=None, idx=None):
        """file:line of a block terminator / statement (best effort)."""
        try:
            if bb is None:
                return '%s:%d' % (self.file, self.line)
            b = self.blocks[bb]
            if idx is not None and idx < len(b['stmts']):
                at = b['stmts'][idx].get('at')
            else:
                at = b['term'].get('at')
                if at and (at.get('exp') or '/rustlib/' in at.get('file', '')) and b['term'].get('at_root'):
                    at = b['term']['at_root']
                if at and '/rustlib/' in at.get('file', ''):
                    # expansion of a std macro: fall back to the nearest statement / the function itself
                    for s in reversed(b['stmts']):
                        a2 = s.get('at')
                        if a2 and '/rustlib/' not in a2.get('file', ''):
                            at = a2
                            break
                    else:
                        at = None
            if at:
                return '%s:%d' % (at['file'], at['line'])
        except Exception:
            pass
        return '%s:%d' % (self.file, self.line)

    def term(self, bb):
        return self.blocks[bb]['term']

    def succs(self, bb, unwind=True):
        t = self.blocks[bb]['term']
        k = t['k']
        out = []
        if k == 'goto':
            out.append(t['target'])
        elif k == 'switch':
            for _, tb in t['targets']:
                out.append(tb)
            out.append(t['otherwise'])
        elif k in ('call', 'drop', 'assert'):
            if t.get('target') is not None:
                out.append(t['target'])
            if unwind and isinstance(t.get('unwind'), int):
                out.append(t['unwind'])
        # de-dup, keep order
        seen = []
        for x in out:
            if x not in seen:
                seen.append(x)
        return seen

    def normal_succs(self, bb):
        return self.succs(bb, unwind=False)

    def calls(self):
        for i, b in enumerate(self.blocks):
            t = b['term']
            if t['k'] == 'call':
                yield i, t

    def short(self):
        """A readable key without generics/lifetimes: Type::method or <Type as Trait>::method."""
        if self._short is None:
            self._short = short_path(self.path)
        return self._short


def strip_generics(p):
    """Remove generic argument lists: `Foo<'a, T>` -> `Foo`, `f::<T>` -> `f`, but keep the qualified-self
    brackets of `<X as Y>::m`."""
    out = []
    stack = []          # True for kept '<' (qualified self), False for skipped generic list
    i = 0
    n = len(p)
    skip = 0
    while i < n:
        c = p[i]
        if c == '<':
            j = len(out) - 1
            while j >= 0 and out[j] == ' ':
                j -= 1
            prev = out[j] if j >= 0 else ''
            if skip:
                skip += 1
            elif prev and (prev.isalnum() or prev in '_]'):
                skip = 1
            elif prev == ':' and j >= 1 and out[j - 1] == ':':
                del out[j - 1:]
                skip = 1
            else:
                stack.append(True)
                out.append(c)
        elif c == '>':
            if i > 0 and p[i - 1] == '-':
                if not skip:
                    out.append(c)
            elif skip:
                skip -= 1
            else:
                if stack:
                    stack.pop()
                out.append(c)
        else:
            if not skip:
                out.append(c)
        i += 1
    return ''.join(out)


def short_path(p):
    p = strip_generics(p)
    # drop lifetime/generic lists attached to type names: Foo<'a, T> -> Foo  (only outside of "<X as Y>")
    return p


def last_seg(p):
    p = strip_generics(p)
    return p.rsplit('::', 1)[-1]


def type_head(ty):
    """'cadence::builder::MetricFormatter<'a>' -> 'cadence::builder::MetricFormatter' ; strips refs."""
    t = ty.strip()
    while t.startswith('&'):
        t = t[1:].strip()
        if t.startswith("'"):
            t = t.split(' ', 1)[1] if ' ' in t else t
        if t.startswith('mut '):
            t = t[4:]
    i = t.find('<')
    return t if i < 0 else t[:i]


class Crate:
    def __init__(self, j):
        self.j = j
        self.name = j['crate']
        self.bodies = {}
        self.promoted = {}
        self.all_bodies = []
        for b in j['bodies']:
            body = Body(b, self)
            if 'promoted_of' in b:
                self.promoted[(b['promoted_of'], b['promoted_idx'])] = body
            else:
                if b['path'] in self.bodies:
                    # duplicates should not happen for non-promoted bodies
                    raise Broken('duplicate body path %s' % b['path'])
                self.bodies[b['path']] = body
                self.all_bodies.append(body)
        self.adts = {a['path']: a for a in j['adts']}
        self.impls = j['impls']
        self.traits = {t['path']: t for t in j['traits']}
        self.consts = {c['path']: c for c in j['consts']}

    def has_forbid_unsafe(self):
        for a in self.j['crate_attrs']:
            if '"forbid"' in a and 'unsafe_code' in a:
                return True
        return False

    def body(self, path):
        b = self.bodies.get(path)
        if b is None:
            raise KeyError(path)
        return b

    def find_bodies(self, pred):
        return [b for b in self.all_bodies if pred(b)]

    def method(self, self_head, name, trait=None):
        """Find the body of method `name` in an impl whose self type head is self_head
        (and, if given, implementing trait path `trait`). Returns list (generic impls may be several)."""
        out = []
        for b in self.all_bodies:
            if b.name != name or b.impl_self is None:
                continue
            if type_head(b.impl_self) != self_head:
                continue
            if trait is None:
                if b.impl_trait is not None:
                    continue
            elif trait == '*':
                pass
            elif b.impl_trait != trait:
                continue
            if b.def_kind != 'AssocFn':
                continue
            out.append(b)
        return out

    def impls_of(self, trait):
        return [i for i in self.impls if i.get('trait') == trait]

    def impls_for(self, adt_path):
        return [i for i in self.impls if i.get('self_adt') == adt_path]

    def closures_of(self, parent_path):
        return [b for b in self.all_bodies if b.def_kind == 'Closure' and b.j.get('closure_parent') == parent_path]


# Public items and the (private) module the rules expect them in.  The module names are private: when a maintainer renames
# or re-nests a private module and keeps the public re-exports, the definition paths change although nothing a user can see
# does.  The facts are then renamed back to these canonical module paths before any rule looks at them.
CANONICAL_MODULES = {
    'cadence': [
        ('cadence::sinks::queuing', ('QueuingMetricSink', 'QueuingMetricSinkBuilder')),
        ('cadence::sinks::udp', ('UdpMetricSink', 'BufferedUdpMetricSink')),
        ('cadence::sinks::unix', ('UnixMetricSink', 'BufferedUnixMetricSink')),
        ('cadence::sinks::spy', ('SpyMetricSink', 'BufferedSpyMetricSink')),
        ('cadence::sinks::core', ('SinkStats', 'NopMetricSink')),
        ('cadence::io', ('MultiLineWriter',)),
        ('cadence::builder', ('MetricBuilder',)),
        ('cadence::client', ('StatsdClient', 'StatsdClientBuilder')),
        ('cadence::types', ('MetricError', 'Counter', 'Timer')),
    ],
    'cadence_macros': [
        ('cadence_macros::state', ('SingletonHolder',)),
    ],
}


def _canonical_renames(j):
    out = []
    adts = [a['path'] for a in j.get('adts', []) if a.get('reachable', True)]
    for canon, names in CANONICAL_MODULES.get(j.get('crate'), []):
        for nm in names:
            if canon + '::' + nm in adts:
                break
        else:
            mods = set()
            for nm in names:
                hits = [a for a in adts if a.rsplit('::', 1)[-1] == nm]
                if len(hits) == 1:
                    mods.add(hits[0].rsplit('::', 1)[0])
            if len(mods) == 1:
                actual = mods.pop()
                if actual != canon:
                    out.append((actual, canon))
    return out


def load(dirpath, crate, extra_renames=()):
    """extra_renames: module renames found in the crates this one depends on (their paths occur in this crate's facts)"""
    p = os.path.join(dirpath, crate + '.json')
    if not os.path.exists(p):
        raise Broken('fact file missing: %s' % p)
    with open(p) as f:
        text = f.read()
    j = json.loads(text)
    own = _canonical_renames(j)
    ren = list(own) + [r for r in extra_renames if r not in own]
    if ren:
        # longest actual path first; only whole path segments are replaced
        import re as _re
        for actual, canon in sorted(ren, key=lambda x: -len(x[0])):
            text = _re.sub(r'(?<![A-Za-z0-9_])' + _re.escape(actual) + r'(?=::)', canon, text)
        j = json.loads(text)
    j['module_renames'] = ren
    return Crate(j)
