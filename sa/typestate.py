"""Forward typestate propagation over a body's CFG.

run(body, init, node_events, edge_events, delta, unwind) propagates *sets* of automaton states to a fixpoint.
  node_events(bb)        -> list of events happening in block bb (statements in order, then the terminator)
  edge_events(bb, succ)  -> list of events that hold on the edge bb->succ
  delta(state, event)    -> new state, or Reject(reason)
Returns Result(at_exit={bb: set(states)}, rejects=[(bb, event, state, reason, path)], visited=set((bb,state)))
"""
from . import cfg as C


class Reject:
    def __init__(self, reason):
        self.reason = reason


class Result:
    def __init__(self):
        self.at_exit = {}
        self.rejects = []
        self.visited = set()
        self.state_in = {}

    def ok(self):
        return not self.rejects

    def exit_states(self, kinds=('return',)):
        out = set()
        for (bb, k), ss in self.at_exit.items():
            if k in kinds:
                out |= ss
        return out


def run(body, init, node_events, edge_events, delta, unwind=False, entry=0, max_states=20000):
    res = Result()
    parent = {}
    work = [(entry, init)]
    res.visited.add((entry, init))
    while work:
        bb, st = work.pop()
        res.state_in.setdefault(bb, set()).add(st)
        cur = st
        rejected = False
        for ev in node_events(bb):
            nxt = delta(cur, ev)
            if nxt is None:
                rejected = True
                break
            if isinstance(nxt, Reject):
                res.rejects.append((bb, ev, cur, nxt.reason, _path(parent, (bb, st))))
                rejected = True
                break
            cur = nxt
        if rejected:
            continue
        tk = body.blocks[bb]['term']['k']
        if tk in ('return', 'resume', 'terminate', 'unreachable'):
            res.at_exit.setdefault((bb, tk), set()).add(cur)
            continue
        for s in body.succs(bb, unwind):
            c2 = cur
            bad = False
            for ev in edge_events(bb, s):
                nxt = delta(c2, ev)
                if nxt is None:
                    bad = True
                    break
                if isinstance(nxt, Reject):
                    res.rejects.append((bb, ev, c2, nxt.reason, _path(parent, (bb, st)) + [s]))
                    bad = True
                    break
                c2 = nxt
            if bad:
                continue
            key = (s, c2)
            if key not in res.visited:
                res.visited.add(key)
                if len(res.visited) > max_states:
                    raise RuntimeError('typestate: state explosion in %s' % body.path)
                parent[key] = (bb, st)
                work.append(key)
    return res


def _path(parent, key):
    out = []
    while key is not None:
        out.append(key[0])
        key = parent.get(key)
    return list(reversed(out))
