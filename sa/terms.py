"""Value provenance terms over a (possibly inlined) MIR body.

Terms are nested tuples:
  ('param', i)                       i-th argument of the analysed function (1-based MIR local)
  ('const', ty, val, path)           evaluated constant (val str/bool/None), path of named const or None
  ('fn', path_full)                  function item
  ('bytes', tuple)                   byte string constant ; ('str', s)
  ('call', callee, args, site)       result of a call; callee = generic-stripped full path; site = block index
  ('field', base, name_or_idx)       field of a value
  ('deref', base) / ('ref', loc, mut)
  ('load', loc, version)             value read from memory location `loc` (a term built from deref/field)
                                     version = 'entry' or frozenset of store sites
  ('bin', op, a, b) / ('un', op, a) / ('cast', kind, from, to, a)
  ('adt', path, variant, ((name, term), ...)) / ('tuple', (..)) / ('array', (..)) / ('closure', path, ((name, t),..))
  ('discr', base)                    discriminant read
  ('payload', base, variant)         the value viewed as `variant` (downcast)
  ('phi', (t1, t2, ...))             several reaching definitions
  ('rec', local)                     loop-carried
  ('undef', local)                   no reaching definition
  ('other', repr)
"""
from .facts import strip_generics
from . import cfg as C

STD_DISCR = {
    'core::option::Option': {'None': 0, 'Some': 1},
    'core::result::Result': {'Ok': 0, 'Err': 1},
    'core::ops::control_flow::ControlFlow': {'Continue': 0, 'Break': 1},
    'core::cmp::Ordering': {'Less': 255, 'Equal': 0, 'Greater': 1},      # i8 -1/0/1 as the switch sees them
}


def callee_key(t):
    """Generic-free key of a call terminator's callee: prefers the written callee (trait path), falls back."""
    return strip_generics(t.get('callee_full') or t.get('callee') or '?')


class Terms:
    def __init__(self, body, crate=None, unwind=False):
        self.body = body
        self.crate = crate if crate is not None else body.crate
        self.unwind = unwind
        self._defs = None
        self._rd_in = None
        self._memo = {}
        self._busy = set()
        self._stores = None
        self._st_in = None
        self._collecting = False
        # phase 1: find store sites (addresses only), then forget every term computed meanwhile
        self._collecting = True
        self._stores = []
        self._collect_stores()
        self._collecting = False
        self._memo = {}
        self._busy = set()

    # ------------------------------------------------------------------ definitions
    def _transparent_borrow_locals(self):
        """Reference locals r (defined once, by `r = &mut L`) that never leave our sight: r and its copies/reborrows are
        only dereferenced - never passed to a call, stored in a value or returned - and no store through them writes L's
        own storage (every such store goes through a *second* pointer found in L).  After inlining this is the shape of
        `view.helper(..)` where `view` is a local struct of references: the borrow then does not change L."""
        body = self.body
        ndefs = {}
        uses = {}       # local -> set of kinds

        def mark(l, kind):
            uses.setdefault(l, set()).add(kind)

        def op_use(o, ctx):
            if not isinstance(o, dict) or o.get('k') not in ('copy', 'move'):
                return
            pl = o['place']
            if not pl['p']:
                mark(pl['l'], ctx)
            elif pl['p'][0][0] == 'deref':
                mark(pl['l'], 'deref')
            else:
                mark(pl['l'], 'other')
            for e in pl['p']:
                if e[0] == 'index':
                    mark(e[1], 'other')
        alias = {}
        for bi, b in enumerate(body.blocks):
            for si, s in enumerate(b['stmts']):
                if s['k'] == 'setdiscr':
                    mark(s['place']['l'], 'other')
                    continue
                if s['k'] != 'assign':
                    continue
                pl, rv = s['place'], s['rv']
                if not pl['p']:
                    ndefs[pl['l']] = ndefs.get(pl['l'], 0) + 1
                elif pl['p'][0][0] == 'deref':
                    mark(pl['l'], 'deref' if any(e[0] == 'deref' for e in pl['p'][1:]) else 'write-own')
                else:
                    mark(pl['l'], 'other')
                k = rv['k']
                if k == 'use':
                    o = rv['op']
                    if isinstance(o, dict) and o.get('k') in ('copy', 'move') and not o['place']['p'] and not pl['p']:
                        alias.setdefault(o['place']['l'], set()).add(pl['l'])
                        mark(o['place']['l'], 'alias')
                    else:
                        op_use(o, 'escape')
                elif k in ('ref', 'rawptr'):
                    bp = rv['place']
                    if bp['p'] and bp['p'][0][0] == 'deref':
                        if len(bp['p']) == 1 and not pl['p']:
                            alias.setdefault(bp['l'], set()).add(pl['l'])
                            mark(bp['l'], 'alias')
                        elif any(e[0] == 'deref' for e in bp['p'][1:]):
                            mark(bp['l'], 'deref')
                        else:
                            mark(bp['l'], 'other' if (rv.get('bk') == 'mut' or k == 'rawptr') else 'deref')
                    elif bp['p']:
                        mark(bp['l'], 'other')
                elif k in ('discr', 'len', 'copy_for_deref'):
                    bp = rv.get('place')
                    if bp is not None:
                        mark(bp['l'], 'deref' if bp['p'] and bp['p'][0][0] == 'deref' else 'other')
                else:
                    for key in ('op', 'a', 'b'):
                        if key in rv:
                            op_use(rv[key], 'escape')
                    for o in rv.get('ops', []) or []:
                        op_use(o, 'escape')
            tm = b['term']
            if tm['k'] == 'call':
                op_use(tm.get('func'), 'escape')
                for a in tm['args']:
                    op_use(a, 'escape')
                if not tm['dest']['p']:
                    ndefs[tm['dest']['l']] = ndefs.get(tm['dest']['l'], 0) + 1
                else:
                    mark(tm['dest']['l'], 'other')
            elif tm['k'] == 'switch':
                op_use(tm['discr'], 'escape')
            elif tm['k'] == 'assert':
                op_use(tm['cond'], 'escape')
            elif tm['k'] == 'drop':
                pl = tm['place']
                mark(pl['l'], 'deref' if pl['p'] and pl['p'][0][0] == 'deref' else 'dropped')
        good = set()
        OK = {'deref', 'alias'}

        def fine(l, seen):
            if l in seen:
                return True
            seen.add(l)
            if l == 0 or l <= body.arg_count or ndefs.get(l, 0) != 1:
                return False
            if not (uses.get(l, set()) <= OK):
                return False
            return all(fine(a, seen) for a in alias.get(l, ()))
        for l in list(ndefs):
            if fine(l, set()):
                good.add(l)
        return good

    def _collect_defs(self):
        transparent = self._transparent_borrow_locals()
        defs = {}   # local -> list of sites ; site = ('s', bb, idx, full) | ('c', bb)
        for bi, b in enumerate(self.body.blocks):
            for si, s in enumerate(b['stmts']):
                if s['k'] == 'assign' or s['k'] == 'setdiscr':
                    p = s['place']
                    if any(e[0] == 'deref' for e in p['p']):
                        continue    # store through pointer: memory, not a local def
                    full = len(p['p']) == 0
                    defs.setdefault(p['l'], []).append(('s', bi, si, full))
                    if s['k'] == 'assign':
                        rv = s['rv']
                        if rv['k'] in ('ref', 'rawptr') and (rv.get('bk') == 'mut' or 'Mut' in str(rv.get('bk'))):
                            bp = rv['place']
                            if not any(e[0] == 'deref' for e in bp['p']) and bp['l'] != p['l']:
                                if not p['p'] and p['l'] in transparent:
                                    continue        # the borrow never escapes and never writes the borrowed local itself
                                defs.setdefault(bp['l'], []).append(('b', bi, si, False))
            t = b['term']
            if t['k'] == 'call':
                p = t['dest']
                if not any(e[0] == 'deref' for e in p['p']):
                    defs.setdefault(p['l'], []).append(('c', bi, None, len(p['p']) == 0))
        self._defs = defs

    def _reaching(self):
        """Reaching definitions of locals at block entry (kill on full defs; a call's destination is defined
        on the normal edge only)."""
        if self._defs is None:
            self._collect_defs()
        body = self.body
        n = len(body.blocks)
        sites_of = [[] for _ in range(n)]       # program order: statements, then the call
        for l, sites in self._defs.items():
            for site in sites:
                sites_of[site[1]].append((l, site))
        for lst in sites_of:
            lst.sort(key=lambda x: (1 if x[1][0] == 'c' else 0, x[1][2] if x[1][2] is not None else 0,
                                    0 if x[1][0] == 'b' else 1))
        self._sites_of = sites_of
        rd_in = [dict() for _ in range(n)]
        pr = C.preds(body, True)
        work = list(range(n))
        while work:
            bi = work.pop()
            newin = {}
            for p in pr[bi]:
                outp = self._edge_out(p, bi, rd_in[p])
                for l, ss in outp.items():
                    cur = newin.setdefault(l, [])
                    for x in ss:
                        if x not in cur:
                            cur.append(x)
            if newin != rd_in[bi]:
                rd_in[bi] = newin
                for s in body.succs(bi, True):
                    if s not in work:
                        work.append(s)
        self._rd_in = rd_in

    def _edge_out(self, p, succ, rin):
        cur = {l: list(ss) for l, ss in rin.items()}
        tp = self.body.blocks[p]['term']
        for l, site in self._sites_of[p]:
            if site[0] == 'c' and tp.get('target') != succ:
                continue
            if site[3]:
                cur[l] = [site]
            else:
                cur[l] = cur.get(l, []) + [site]
        return cur

    def reaching_defs(self, local, bb, idx):
        """Definition sites of `local` reaching the point just before statement idx of block bb
        (idx == len(stmts) means: before the terminator)."""
        if self._rd_in is None:
            self._reaching()
        cur = list(self._rd_in[bb].get(local, []))
        for site in self._defs.get(local, []):
            if site[0] in ('s', 'b') and site[1] == bb and site[2] < idx:
                if site[3]:
                    cur = [site]
                else:
                    cur = cur + [site]
        return cur

    def restrict(self, starts, within=None):
        """A Terms object whose reaching definitions only follow paths that pass through one of the blocks in
        `starts` (values 'given that control went through there')."""
        if self._rd_in is None:
            self._reaching()
        body = self.body
        R = Terms.__new__(Terms)
        R.__dict__.update(self.__dict__)
        R._memo = {}
        R._busy = set()
        starts = set(starts)
        seen = set()
        st = list(starts)
        while st:
            b = st.pop()
            if b in seen:
                continue
            seen.add(b)
            for s in body.succs(b, True):
                if within is None or s in within:
                    st.append(s)
        pr = C.preds(body, True)
        rd = [dict(x) for x in self._rd_in]
        for b in seen:
            if b not in starts:
                rd[b] = {}
        work = [b for b in seen]
        while work:
            bi = work.pop()
            if bi in starts:
                newin = {l: list(ss) for l, ss in self._rd_in[bi].items()}
            else:
                newin = {}
            for p_ in pr[bi]:
                if p_ not in seen:
                    continue
                if bi in starts:
                    continue
                outp = self._edge_out(p_, bi, rd[p_])
                for l, ss in outp.items():
                    cur = newin.setdefault(l, [])
                    for x in ss:
                        if x not in cur:
                            cur.append(x)
            if newin != rd[bi]:
                rd[bi] = newin
                for s in body.succs(bi, True):
                    if s in seen and s not in work:
                        work.append(s)
        R._rd_in = rd
        R._restricted = seen
        return R

    # ------------------------------------------------------------------ terms
    def local_term(self, local, bb, idx):
        body = self.body
        sites = self.reaching_defs(local, bb, idx)
        if not sites:
            if 1 <= local <= body.arg_count:
                return ('param', local)
            return ('undef', local)
        full = [s for s in sites if s[3]]
        partial = [s for s in sites if not s[3]]
        if partial and len(full) <= 1:
            # aggregate built field by field: base (possibly undef) + updates in order
            base = self.site_term(full[0]) if full else ('undef', local)
            if 1 <= local <= body.arg_count and not full:
                base = ('param', local)
            t = base
            for s in partial:
                t = self._apply_partial(t, s)
            return t
        ts = []
        for s in sites:
            t = self.site_term(s)
            if t not in ts:
                ts.append(t)
        if 1 <= local <= body.arg_count and not any(s[3] for s in sites):
            ts.insert(0, ('param', local))
        if len(ts) == 1:
            return ts[0]
        return ('phi', tuple(ts))

    def _apply_partial(self, base, site):
        _, bi, si, _ = site
        if site[0] == 'b':
            s = self.body.blocks[bi]['stmts'][si]
            path = tuple(self._proj_key(e) for e in s['rv']['place']['p'])
            if not path:
                return ('mutated', base, (bi, si))
            return ('update', base, path, ('mutref', (bi, si)))
        if site[0] == 'c':
            t = self.body.blocks[bi]['term']
            p = t['dest']
            v = self.call_term(bi)
        else:
            s = self.body.blocks[bi]['stmts'][si]
            p = s['place']
            if s['k'] == 'setdiscr':
                return ('setdiscr', base, s['vidx'])
            v = self.rvalue_term(s['rv'], bi, si)
        path = tuple(self._proj_key(e) for e in p['p'])
        return ('update', base, path, v)

    @staticmethod
    def _proj_key(e):
        if e[0] == 'field':
            return e[2] if e[2] is not None else e[1]
        if e[0] == 'downcast':
            return ('as', e[1])
        return e[0]

    def site_term(self, site):
        if site in self._memo:
            return self._memo[site]
        if site in self._busy:
            return ('rec', site[1], site[2])
        self._busy.add(site)
        try:
            if site[0] == 'c':
                t = self.call_term(site[1])
            else:
                s = self.body.blocks[site[1]]['stmts'][site[2]]
                if s['k'] == 'setdiscr':
                    t = ('setdiscr', s['vidx'])
                else:
                    t = self.rvalue_term(s['rv'], site[1], site[2])
        finally:
            self._busy.discard(site)
        self._memo[site] = t
        return t

    def call_term(self, bi):
        key = ('callterm', bi)
        if key in self._memo:
            return self._memo[key]
        if key in self._busy:
            return ('rec', bi, None)
        self._busy.add(key)
        try:
            t = self.body.blocks[bi]['term']
            n = len(self.body.blocks[bi]['stmts'])
            args = tuple(self.operand_term(a, bi, n) for a in t['args'])
            if 'callee_full' in t:
                res = ('call', callee_key(t), args, bi)
            else:
                res = ('call', ('indirect', self.operand_term(t['func'], bi, n)), args, bi)
        finally:
            self._busy.discard(key)
        self._memo[key] = res
        return res

    def const_term(self, o):
        if 'fn_full' in o:
            return ('fn', strip_generics(o['fn_full']))
        if 'str' in o:
            return ('str', o['str'])
        if 'bytes' in o:
            return ('bytes', tuple(o['bytes']))
        if 'static' in o:
            return ('static', o['static'])
        if 'promoted' in o and o.get('path') and self.crate is not None:
            # `&NAMED_CONST` promoted out of the function: say which constant it is
            pb = getattr(self.crate, 'promoted', {}).get((o['path'], o['promoted']))
            if pb is not None and len(pb.blocks) == 1:
                st = [s for s in pb.blocks[0]['stmts'] if s['k'] == 'assign']
                if len(st) == 2 and st[0]['rv']['k'] == 'use' and st[0]['rv']['op'].get('k') == 'const' and st[0]['rv']['op'].get('path') \
                        and 'promoted' not in st[0]['rv']['op'] and st[1]['rv']['k'] == 'ref' and st[1]['place'] == {'l': 0, 'p': []} \
                        and st[1]['rv']['place'] == {'l': st[0]['place']['l'], 'p': []}:
                    c0 = st[0]['rv']['op']
                    return ('ref', ('const', c0.get('ty'), c0.get('val'), c0.get('path')), False)
        return ('const', o.get('ty'), o.get('val'), o.get('path'))

    def operand_term(self, o, bb, idx):
        k = o['k']
        if k == 'const':
            return self.const_term(o)
        if k in ('copy', 'move'):
            return self.place_value(o['place'], bb, idx)
        return ('other', o.get('repr'))

    def place_loc(self, p, bb, idx):
        """Term of the *location* denoted by a place (for places with a deref) or the value term otherwise."""
        t = self.local_term(p['l'], bb, idx)
        for e in p['p']:
            t = self._project(t, e, bb, idx, as_loc=True)
        return t

    def place_value(self, p, bb, idx):
        t = self.local_term(p['l'], bb, idx)
        through_mem = False
        for e in p['p']:
            t = self._project(t, e, bb, idx, as_loc=True)
            if e[0] == 'deref':
                through_mem = True
        if through_mem and is_loc(t):
            ver = self.store_version(t, bb, idx)
            if ver != 'entry':
                return ('load', t, ver)
        return t

    def _project(self, t, e, bb, idx, as_loc=False):
        k = e[0]
        if k == 'deref':
            if t[0] == 'ref':
                return t[1]
            return ('deref', t)
        if k == 'field':
            name = e[2] if e[2] is not None else e[1]
            return field_of(t, name, e[1])
        if k == 'downcast':
            return payload_of(t, e[1])
        if k == 'index':
            return ('index', t, self.local_term(e[1], bb, idx))
        if k == 'constindex':
            return ('index', t, ('const', 'usize', str(e[1]), None))
        return (k, t)

    def rvalue_term(self, rv, bb, idx):
        k = rv['k']
        if k == 'use':
            return self.operand_term(rv['op'], bb, idx)
        if k == 'copy_for_deref':
            return self.place_value(rv['place'], bb, idx)
        if k == 'ref' or k == 'rawptr':
            loc = self.place_loc(rv['place'], bb, idx)
            return ('ref', loc, rv.get('bk') == 'mut' or 'Mut' in str(rv.get('bk')))
        if k == 'bin':
            return ('bin', rv['op'], self.operand_term(rv['a'], bb, idx), self.operand_term(rv['b'], bb, idx))
        if k == 'un':
            return ('un', rv['op'], self.operand_term(rv['a'], bb, idx))
        if k == 'cast':
            a = self.operand_term(rv['op'], bb, idx)
            ck = rv['ck']
            if ck.startswith('PointerCoercion(Unsize') or ck in ('Subtype',):
                return ('unsize', a, rv['to'])
            return ('cast', ck, rv['from'], rv['to'], a)
        if k == 'discr':
            return ('discr', self.place_value(rv['place'], bb, idx), rv.get('ty'))
        if k == 'agg':
            ops = tuple(self.operand_term(o, bb, idx) for o in rv['ops'])
            ak = rv['ak']
            if ak == 'tuple':
                return ('tuple', ops)
            if ak == 'array':
                return ('array', ops)
            if ak == 'adt':
                return ('adt', rv['path'], rv['variant'], tuple(zip(rv['fields'], ops)))
            if ak == 'closure':
                return ('closure', rv['path'], tuple(zip(rv['fields'], ops)))
            return ('agg', ak, ops)
        if k == 'repeat':
            return ('repeat', self.operand_term(rv['op'], bb, idx), rv['n'])
        return ('other', rv.get('repr', k))

    # ------------------------------------------------------------------ memory versions
    def _collect_stores(self):
        """Store sites: ('s', bb, idx, loc, must) for assignments through a deref,
        ('k', bb, None, loc, False) for calls receiving a &mut to loc (clobber)."""
        stores = []
        body = self.body
        for bi, b in enumerate(body.blocks):
            for si, s in enumerate(b['stmts']):
                if s['k'] == 'assign' and any(e[0] == 'deref' for e in s['place']['p']):
                    loc = self.place_loc(s['place'], bi, si)
                    stores.append(('s', bi, si, loc))
            t = b['term']
            if t['k'] == 'call':
                n = len(b['stmts'])
                for a in t['args']:
                    at = self.operand_term(a, bi, n)
                    for loc in mut_refs_in(at):
                        stores.append(('k', bi, None, loc))
                dp = t['dest']
                if any(e[0] == 'deref' for e in dp['p']):
                    stores.append(('s', bi, None, self.place_loc(dp, bi, n)))
        self._stores = stores

    def store_version(self, loc, bb, idx):
        """'entry' if no store that may alias `loc` reaches the point; else frozenset of store site ids."""
        if self._collecting:
            return 'entry'
        rel = [s for s in self._stores if may_alias(s[3], loc)]
        if not rel:
            return 'entry'
        body = self.body
        # forward "reaching stores" restricted to rel; a must-store to exactly loc kills the others
        key = ('rs', loc)
        if key not in self._memo:
            n = len(body.blocks)
            by_block = {}
            for s in rel:
                by_block.setdefault(s[1], []).append(s)
            rs_in = [frozenset() for _ in range(n)]
            rs_in[0] = frozenset([('e', 0, 0)])
            pr = C.preds(body, True)
            changed = True
            while changed:
                changed = False
                for bi in range(n):
                    ins = set([('e', 0, 0)]) if bi == 0 else set()
                    for p in pr[bi]:
                        ins |= self._rs_out(p, rs_in[p], by_block.get(p, []), loc, bi)
                    ins = frozenset(ins)
                    if ins != rs_in[bi]:
                        rs_in[bi] = ins
                        changed = True
            self._memo[key] = (rs_in, by_block)
        rs_in, by_block = self._memo[key]
        cur = set(rs_in[bb])
        for s in by_block.get(bb, []):
            if s[2] is not None and s[2] < idx:
                if s[0] == 's' and s[3] == loc:
                    cur = {(s[0], s[1], s[2])}
                else:
                    cur.add((s[0], s[1], s[2]))
        if not cur or cur == {('e', 0, 0)}:
            return 'entry'
        return frozenset(cur)

    def _rs_out(self, bi, rin, sts, loc, succ):
        cur = set(rin)
        t = self.body.blocks[bi]['term']
        for s in sts:
            if s[2] is None:
                # effect of the call itself: applies on both edges for clobbers; dest store only on normal edge
                if s[0] == 's' and t.get('target') != succ:
                    continue
                cur.add((s[0], s[1], s[2]))
            else:
                if s[0] == 's' and s[3] == loc:
                    cur = {(s[0], s[1], s[2])}
                else:
                    cur.add((s[0], s[1], s[2]))
        return cur

    def stores(self):
        return self._stores

    def store_value(self, site):
        """Value term written by store site ('s', bb, idx)."""
        _, bi, si = site[:3]
        if si is None:
            return self.call_term(bi)
        s = self.body.blocks[bi]['stmts'][si]
        return self.rvalue_term(s['rv'], bi, si)

    # ------------------------------------------------------------------ switch/edge facts
    def switch_facts(self, bb):
        """For a switch block: (discr_term, {succ: [labels]}) with labels decoded:
        ('variant', name) for enum discriminants, ('bool', True/False), ('int', v), 'otherwise'."""
        t = self.body.blocks[bb]['term']
        if t['k'] != 'switch':
            return None
        n = len(self.body.blocks[bb]['stmts'])
        dt = self.operand_term(t['discr'], bb, n)
        out = {}
        names = None
        if dt[0] == 'discr':
            names = self.variant_names(dt[2])
        all_vals = [v for v, _ in t['targets']]
        for v, tb in t['targets']:
            if names is not None and int(v) in names:
                lab = ('variant', names[int(v)])
            elif t['discr_ty'] == 'bool':
                lab = ('bool', v != '0')
            else:
                lab = ('int', int(v))
            out.setdefault(tb, []).append(lab)
        ob = t['otherwise']
        if self.body.blocks[ob]['term']['k'] != 'unreachable':
            if t['discr_ty'] == 'bool' and all_vals == ['0']:
                out.setdefault(ob, []).append(('bool', True))
            elif names is not None:
                rest = [nm for d, nm in names.items() if str(d) not in all_vals]
                if len(rest) == 1:
                    out.setdefault(ob, []).append(('variant', rest[0]))
                else:
                    out.setdefault(ob, []).append(('variants', tuple(sorted(rest))))
            else:
                out.setdefault(ob, []).append(('otherwise', tuple(all_vals)))
        return dt, out

    def variant_names(self, ty):
        if ty is None:
            return None
        head = ty.split('<', 1)[0].lstrip('&').strip()
        if head in STD_DISCR:
            return {d: n for n, d in STD_DISCR[head].items()}
        adt = self.crate.adts.get(head) if self.crate else None
        if adt is None and self.crate is not None:
            for other in getattr(self.crate, 'siblings', []):
                adt = other.adts.get(head)
                if adt:
                    break
        if adt and adt['kind'] == 'Enum':
            return {int(v['discr']): v['name'] for v in adt['variants']}
        return None


# ---------------------------------------------------------------------- helpers on terms
def is_loc(t):
    while True:
        if t[0] == 'deref':
            return True
        if t[0] in ('field', 'payload', 'index'):
            t = t[1]
            continue
        return False


def loc_path(t):
    """Access path of a location term as a tuple, root first."""
    out = []
    while t[0] in ('field', 'payload', 'deref', 'index'):
        if t[0] == 'field':
            out.append(('f', t[2]))
        elif t[0] == 'payload':
            out.append(('v', t[2]))
        elif t[0] == 'index':
            out.append(('i',))
        else:
            out.append(('*',))
        t = t[1]
    out.append(('root', t))
    return tuple(reversed(out))


def may_alias(a, b):
    pa, pb = loc_path(a), loc_path(b)
    if pa[0] != pb[0]:
        return False
    n = min(len(pa), len(pb))
    return pa[:n] == pb[:n]


def mut_refs_in(t):
    """Locations mutably referenced by a term passed to a call (shallow: the term itself or tuple members)."""
    out = []
    if t[0] == 'ref' and t[2]:
        out.append(t[1])
    elif t[0] == 'tuple':
        for x in t[1]:
            out += mut_refs_in(x)
    elif t[0] == 'param':
        pass
    return out


def field_of(t, name, idx=None):
    if t[0] == 'adt':
        for n, v in t[3]:
            if n == name or n == str(idx):
                return v
    if t[0] == 'closure':
        for n, v in t[2]:
            if n == name:
                return v
    if t[0] == 'tuple' and isinstance(idx, int) and idx < len(t[1]):
        return t[1][idx]
    if t[0] == 'update':
        path = t[2]
        if len(path) >= 1 and (path[0] == name or path[0] == idx):
            if len(path) == 1:
                return t[3]
            return ('update_part', t[3], path[1:])
        return field_of(t[1], name, idx)
    if t[0] == 'bin' and t[1].endswith('WithOverflow'):
        if idx == 0:
            return ('bin', t[1][:-len('WithOverflow')], t[2], t[3])
        return ('overflowed', t)
    if t[0] == 'payload' and t[1][0] == 'adt' and t[1][2] == t[2]:
        return field_of(t[1], name, idx)
    return ('field', t, name)


def payload_of(t, variant):
    if t[0] == 'adt' and t[2] == variant:
        return t
    return ('payload', t, variant)


KINDS = {'param', 'const', 'fn', 'str', 'bytes', 'static', 'call', 'field', 'deref', 'ref', 'load', 'bin', 'un', 'cast',
         'unsize', 'adt', 'tuple', 'array', 'closure', 'discr', 'payload', 'phi', 'rec', 'undef', 'other', 'update',
         'index', 'setdiscr', 'agg', 'repeat', 'overflowed', 'update_part', 'indirect'}


def walk(t):
    """Yield all sub-terms (pre-order)."""
    if not isinstance(t, tuple) or not t:
        return
    if isinstance(t[0], str) and t[0] in KINDS:
        yield t
        rest = t[1:]
    else:
        rest = t
    for x in rest:
        if isinstance(x, tuple):
            yield from walk(x)


def contains(t, pred):
    return any(pred(x) for x in walk(t))


def fmt(t, depth=0):
    """Readable rendering of a term (no site ids)."""
    if not isinstance(t, tuple) or not t:
        return str(t)
    k = t[0]
    if depth > 12:
        return '...'
    d = depth + 1
    if k == 'param':
        return 'arg%d' % t[1]
    if k == 'const':
        return '%s%s' % (t[2] if t[2] is not None else '?', ('{%s}' % t[3]) if t[3] else '')
    if k == 'fn':
        return 'fn ' + t[1]
    if k == 'str':
        return repr(t[1])
    if k == 'bytes':
        return 'b' + repr(bytes(t[1]))
    if k == 'call':
        c = t[1] if isinstance(t[1], str) else 'indirect(%s)' % fmt(t[1][1], d)
        return '%s(%s)' % (c, ', '.join(fmt(a, d) for a in t[2]))
    if k == 'field':
        return '%s.%s' % (fmt(t[1], d), t[2])
    if k == 'deref':
        return '*%s' % fmt(t[1], d)
    if k == 'ref':
        return '&%s%s' % ('mut ' if t[2] else '', fmt(t[1], d))
    if k == 'load':
        return '%s@%s' % (fmt(t[1], d), 'entry' if t[2] == 'entry' else 'st' + ','.join(
            '%s%d.%s' % (s[0], s[1], s[2]) for s in sorted(t[2], key=str)))
    if k == 'bin':
        return '(%s %s %s)' % (fmt(t[2], d), t[1], fmt(t[3], d))
    if k == 'un':
        return '%s(%s)' % (t[1], fmt(t[2], d))
    if k == 'cast':
        return '(%s as %s)' % (fmt(t[4], d), t[3])
    if k == 'unsize':
        return fmt(t[1], d)
    if k == 'adt':
        return '%s::%s{%s}' % (t[1].rsplit('::', 1)[-1], t[2], ', '.join('%s: %s' % (n, fmt(v, d)) for n, v in t[3]))
    if k == 'closure':
        return 'closure %s{%s}' % (t[1], ', '.join('%s: %s' % (n, fmt(v, d)) for n, v in t[2]))
    if k in ('tuple', 'array'):
        return '(%s)' % ', '.join(fmt(x, d) for x in t[1])
    if k == 'discr':
        return 'discr(%s)' % fmt(t[1], d)
    if k == 'payload':
        return '%s as %s' % (fmt(t[1], d), t[2])
    if k == 'phi':
        return 'phi(%s)' % ' | '.join(fmt(x, d) for x in t[1])
    if k == 'update':
        return '%s{%s := %s}' % (fmt(t[1], d), '.'.join(str(x) for x in t[2]), fmt(t[3], d))
    if k == 'index':
        return '%s[%s]' % (fmt(t[1], d), fmt(t[2], d))
    return '%s(%s)' % (k, ', '.join(fmt(x, d) if isinstance(x, tuple) else str(x) for x in t[1:]))


# ---------------------------------------------------------------------- normalisation
def _is_try_branch(t):
    return t[0] == 'call' and isinstance(t[1], str) and t[1].endswith('as core::ops::try_trait::Try>::branch')


def _try_kind(callee):
    if callee.startswith('<core::result::Result'):
        return 'Result'
    if callee.startswith('<core::option::Option'):
        return 'Option'
    return None


TRANSPARENT_SUFFIX = (
    ' as core::ops::deref::Deref>::deref',
    ' as core::ops::deref::DerefMut>::deref_mut',
    ' as core::borrow::Borrow>::borrow',
    ' as core::convert::AsRef>::as_ref',
)


def _renorm(t):
    """one more local simplification step for a term built from already normalised parts"""
    if t[0] == 'field' and t[1][0] == 'payload' and t[1][1][0] == 'phi':
        p = norm(('payload', t[1][1], t[1][2]))
        return norm(('field', p, t[2])) if p[0] != 'payload' else t
    return t


def norm(t):
    """Bottom-up normalisation: `?` desugaring is mapped onto plain Ok/Err payload terms; identity conversions
    and auto-deref calls become transparent."""
    if not isinstance(t, tuple) or not t:
        return t
    if not (isinstance(t[0], str) and t[0] in KINDS):
        return tuple(norm(x) if isinstance(x, tuple) else x for x in t)
    t = tuple(norm(x) if isinstance(x, tuple) else x for x in t)
    k = t[0]
    if k == 'field' and t[1][0] == 'payload':
        inner = t[1]
        if _is_try_branch(inner[1]):
            kind = _try_kind(inner[1][1])
            x = inner[1][2][0]
            if kind == 'Result':
                if inner[2] == 'Continue':
                    return _renorm(field_of(payload_of(x, 'Ok'), '0', 0))
                if inner[2] == 'Break':
                    return ('residual', x)
            if kind == 'Option':
                if inner[2] == 'Continue':
                    return _renorm(field_of(payload_of(x, 'Some'), '0', 0))
                if inner[2] == 'Break':
                    return ('residual', x)
    if k == 'call' and isinstance(t[1], str):
        c = t[1]
        if 'as core::ops::try_trait::FromResidual' in c and c.endswith('::from_residual') and len(t[2]) == 1:
            r = t[2][0]
            if r[0] == 'residual':
                if c.startswith('<core::result::Result'):
                    e = field_of(payload_of(r[1], 'Err'), '0', 0)
                    return ('adt', 'core::result::Result', 'Err', (('0', ('conv', e)),))
                if c.startswith('<core::option::Option'):
                    return ('adt', 'core::option::Option', 'None', ())
            # the residual written out (a `?` desugared at a merge point): Break(Err(e)) / Break(None)
            if r[0] == 'adt' and r[1] == 'core::result::Result' and r[2] == 'Err' and c.startswith('<core::result::Result'):
                return ('adt', 'core::result::Result', 'Err', (('0', ('conv', dict(r[3]).get('0'))),))
            if r[0] == 'adt' and r[1] == 'core::option::Option' and r[2] == 'None' and c.startswith('<core::option::Option'):
                return ('adt', 'core::option::Option', 'None', ())
        if any(c.endswith(sfx) for sfx in TRANSPARENT_SUFFIX) and len(t[2]) == 1:
            return ('autoderef', t[2][0])
    if k == 'payload' and t[1][0] == 'phi':
        alts = t[1][1]
        if all(a[0] == 'adt' and a[1] in STD_DISCR for a in alts):
            keep = [a for a in alts if a[2] == t[2]]
            if len(keep) == 1:
                return keep[0]
            if len(keep) > 1:
                return ('phi', tuple(keep))
    if k == 'field' and t[1][0] == 'adt':
        return field_of(t[1], t[2], t[2] if isinstance(t[2], int) else None)
    if k == 'field' and t[1][0] == 'phi' and all(a[0] == 'adt' for a in t[1][1]):
        vals = []
        for a in t[1][1]:
            v = field_of(a, t[2], t[2] if isinstance(t[2], int) else None)
            if v not in vals:
                vals.append(v)
        return vals[0] if len(vals) == 1 else ('phi', tuple(vals))
    if k == 'deref' and t[1][0] == 'ref':
        return t[1][1]
    if k == 'deref' and t[1][0] == 'autoderef':
        # *Deref::deref(&x)  ==  *x   (x is a smart pointer / Vec / String); keep a marker-free form
        a = t[1][1]
        if a[0] == 'ref':
            return ('deref', a[1])
        return ('deref', ('deref', a))
    return t


KINDS.update({'residual', 'conv', 'autoderef', 'mutated', 'mutref'})
