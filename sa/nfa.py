"""Tiny Thompson NFA over tokens ('c', char) / ('v', role), used as the oracle grammar for output-event sequences."""


class NFA:
    def __init__(self):
        self.trans = []      # state -> list of (token or None, target)
        self.start = None
        self.accept = None

    def new(self):
        self.trans.append([])
        return len(self.trans) - 1

    def add(self, a, tok, b):
        self.trans[a].append((tok, b))

    def closure(self, states):
        st = list(states)
        seen = set(states)
        while st:
            s = st.pop()
            for tok, t in self.trans[s]:
                if tok is None and t not in seen:
                    seen.add(t)
                    st.append(t)
        return frozenset(seen)

    def step(self, states, tok):
        nxt = set()
        for s in states:
            for tk, t in self.trans[s]:
                if tk is not None and tk == tok:
                    nxt.add(t)
        return self.closure(nxt)

    def initial(self):
        return self.closure({self.start})

    def accepting(self, states):
        return self.accept in states

    def expected(self, states):
        out = set()
        for s in states:
            for tk, t in self.trans[s]:
                if tk is not None:
                    out.add(tk)
        return sorted(out, key=str)


def compile_re(ast):
    """ast: ('seq', [..]) | ('opt', x) | ('star', x) | ('lit', 'text') | ('val', role) | ('alt', [..])"""
    n = NFA()

    def go(a):
        k = a[0]
        if k == 'lit':
            s = n.new()
            cur = s
            for ch in a[1]:
                nx = n.new()
                n.add(cur, ('c', ch), nx)
                cur = nx
            return s, cur
        if k == 'val':
            s, e = n.new(), n.new()
            n.add(s, ('v', a[1]), e)
            return s, e
        if k == 'seq':
            s = n.new()
            cur = s
            for x in a[1]:
                xs, xe = go(x)
                n.add(cur, None, xs)
                cur = xe
            return s, cur
        if k == 'opt':
            s, e = n.new(), n.new()
            xs, xe = go(a[1])
            n.add(s, None, xs)
            n.add(xe, None, e)
            n.add(s, None, e)
            return s, e
        if k == 'star':
            s, e = n.new(), n.new()
            xs, xe = go(a[1])
            n.add(s, None, xs)
            n.add(xe, None, xs)
            n.add(xe, None, e)
            n.add(s, None, e)
            return s, e
        if k == 'alt':
            s, e = n.new(), n.new()
            for x in a[1]:
                xs, xe = go(x)
                n.add(s, None, xs)
                n.add(xe, None, e)
            return s, e
        raise ValueError(k)

    n.start, n.accept = go(ast)
    return n
