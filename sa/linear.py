"""Linear normal forms for integer guards.  No solver: atoms are opaque terms; entailment is decided only between
forms with equal coefficient vectors (compare constants).  Anything else -> Unknown (fail closed)."""
from fractions import Fraction


class Unknown(Exception):
    pass


class Lin:
    """sum(coef[atom] * atom) + const"""

    def __init__(self, coef=None, const=0):
        self.coef = {k: v for k, v in (coef or {}).items() if v != 0}
        self.const = const

    def __add__(self, o):
        c = dict(self.coef)
        for k, v in o.coef.items():
            c[k] = c.get(k, 0) + v
        return Lin(c, self.const + o.const)

    def __neg__(self):
        return Lin({k: -v for k, v in self.coef.items()}, -self.const)

    def __sub__(self, o):
        return self + (-o)

    def scale(self, n):
        return Lin({k: v * n for k, v in self.coef.items()}, self.const * n)

    def key(self):
        return tuple(sorted((repr(k), v) for k, v in self.coef.items()))

    def __repr__(self):
        parts = ['%+d*%s' % (v, k if isinstance(k, str) else repr(k)) for k, v in sorted(self.coef.items(), key=repr)]
        return ' '.join(parts) + ' %+d' % self.const


def lin_of(term, atom_of):
    """term -> Lin.  atom_of(term) -> hashable atom name or None (None => not an atom => Unknown)."""
    k = term[0]
    if k == 'const':
        try:
            return Lin({}, int(term[2]))
        except (TypeError, ValueError):
            raise Unknown('non-integer constant %r' % (term,))
    if k == 'bin':
        op = term[1]
        if op.endswith('WithOverflow') or op.endswith('Unchecked'):
            op = op.replace('WithOverflow', '').replace('Unchecked', '')
        if op == 'Add':
            return lin_of(term[2], atom_of) + lin_of(term[3], atom_of)
        if op == 'Sub':
            return lin_of(term[2], atom_of) - lin_of(term[3], atom_of)
        if op == 'Mul':
            a, b = term[2], term[3]
            if a[0] == 'const':
                return lin_of(b, atom_of).scale(int(a[2]))
            if b[0] == 'const':
                return lin_of(a, atom_of).scale(int(b[2]))
            raise Unknown('non-linear product')
        raise Unknown('operator %s' % op)
    if k == 'cast' and term[1] == 'IntToInt':
        # widening casts only are value preserving; caller decides by atoms (treated opaque otherwise)
        a = atom_of(term)
        if a is not None:
            return Lin({a: 1}, 0)
        raise Unknown('cast')
    a = atom_of(term)
    if a is None:
        raise Unknown('opaque term %r' % (term[:2],))
    return Lin({a: 1}, 0)


def guard_ge0(term, truth, atom_of):
    """Boolean comparison term (on integers) taken with truth value `truth` -> Lin L such that the guard is
    equivalent to  L >= 0."""
    if term[0] == 'un' and term[1] == 'Not':
        return guard_ge0(term[2], not truth, atom_of)
    if term[0] != 'bin':
        raise Unknown('guard is not a comparison: %r' % (term[:2],))
    op = term[1]
    a = lin_of(term[2], atom_of)
    b = lin_of(term[3], atom_of)
    if not truth:
        op = {'Lt': 'Ge', 'Le': 'Gt', 'Gt': 'Le', 'Ge': 'Lt', 'Eq': 'Ne', 'Ne': 'Eq'}.get(op)
    one = Lin({}, 1)
    if op == 'Lt':      # a < b  <=> b - a - 1 >= 0
        return b - a - one
    if op == 'Le':
        return b - a
    if op == 'Gt':
        return a - b - one
    if op == 'Ge':
        return a - b
    raise Unknown('comparison %s' % op)


def entails(p, q):
    """(p >= 0) => (q >= 0) ?  Decided only when coefficient vectors are equal: then iff q.const >= p.const.
    Returns True/False, raises Unknown otherwise."""
    if p.key() != q.key():
        raise Unknown('different coefficient vectors: %r vs %r' % (p, q))
    return q.const >= p.const


def equivalent(p, q):
    return entails(p, q) and entails(q, p)
