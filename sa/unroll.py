"""Unrolling of `for x in [a, b, ..]` / `for (i, x) in [a, b, ..].into_iter().enumerate()`: a loop over an array literal of
known length N (<= 4) runs its body exactly N times, the k-th time with the k-th element (std: array::IntoIter yields the
elements front to back, Enumerate numbers them from 0).  The loop is replaced by N copies of its body followed by the
"iterator is exhausted" exit, so that the rules see N call sites with their own arguments where the source has one
(`self.inner.write(chunk)` for chunk in [buf, line_ending]).  After unrolling, switches whose scrutinee has become a
constant (`if i == 0`) are decided."""
import copy
import re

from .facts import Body, strip_generics
from . import cfg as C

MAXN = 4
_NEXT = re.compile(r'^<(core::iter::adapters::enumerate::Enumerate<)?core::array::iter::IntoIter<.*, (\d+)>>? as core::iter::traits::iterator::Iterator>::next$')
OPT = 'core::option::Option'


def _find(body):
    from .terms import Terms, norm
    T = None
    for bi, blk in enumerate(body.blocks):
        t = blk['term']
        if blk['cleanup'] or t['k'] != 'call' or t.get('target') is None:
            continue
        m = _NEXT.match(t.get('callee_full', ''))
        if not m:
            continue
        n = int(m.group(2))
        if not (1 <= n <= MAXN):
            continue
        enum = bool(m.group(1))
        T = T or Terms(body)
        r = norm(T.operand_term(t['args'][0], bi, len(blk['stmts'])))
        # &mut <iterator built by into_iter / enumerate / into_iter from an array aggregate>
        x = r
        seen_enum = False
        for _ in range(12):
            if x[0] in ('ref', 'deref', 'mutref', 'mutated', 'load'):
                x = x[1]
                continue
            if x[0] == 'call' and isinstance(x[1], str) and len(x[2]) == 1:
                k = strip_generics(x[1])
                if k.endswith('as core::iter::traits::collect::IntoIterator>::into_iter'):
                    x = x[2][0]
                    continue
                if k.endswith('as core::iter::traits::iterator::Iterator>::enumerate'):
                    seen_enum = True
                    x = x[2][0]
                    continue
            break
        if x[0] != 'array' or len(x[1]) != n or seen_enum != enum:
            continue
        # the aggregate statement itself (for its operands)
        aggs = [(b2, si, s) for b2, bl2 in enumerate(body.blocks) if not bl2['cleanup'] for si, s in enumerate(bl2['stmts'])
                if s['k'] == 'assign' and s['rv']['k'] == 'agg' and s['rv'].get('ak') == 'array' and len(s['rv']['ops']) == n and not s['place']['p']]
        aggs = [a for a in aggs if norm(T.rvalue_term(a[2]['rv'], a[0], a[1])) == x]
        if len(aggs) != 1:
            continue
        ops = aggs[0][2]['rv']['ops']
        if not all(o.get('k') == 'const' or (o.get('k') in ('copy', 'move') and not o['place']['p']) for o in ops):
            continue
        # element locals must be assigned exactly once in the body (so that reading them later reads the element)
        ok = True
        for o in ops:
            if o.get('k') == 'const':
                continue
            l = o['place']['l']
            defs = sum(1 for bl2 in body.blocks for s in bl2['stmts'] if s['k'] == 'assign' and s['place']['l'] == l and not s['place']['p'])
            defs += sum(1 for bl2 in body.blocks if bl2['term']['k'] == 'call' and bl2['term']['dest']['l'] == l)
            if defs != 1:
                ok = False
        if not ok:
            continue
        return bi, n, enum, ops
    return None


def unroll_array_loops(crate, body, rounds=3):
    """new Body with loops over array literals unrolled, or None when there is none"""
    changed = False
    for _ in range(rounds):
        nb = _unroll_one(crate, body)
        if nb is None:
            break
        body = nb
        changed = True
    return body if changed else None


def _unroll_one(crate, body):
    f = _find(body)
    if f is None:
        return None
    h, n, enum, ops = f
    # the natural loop of the header
    loop = None
    for e in C.back_edges(body, False):
        if e[1] == h:
            l = C.natural_loop(body, e, False)
            loop = set(l) if loop is None else loop | set(l)
    if not loop or any(body.blocks[b]['cleanup'] for b in loop):
        return None
    # the iterator must not be used by anything but this next() (no second next(), no size_hint ..): the header is the
    # only call in the loop that mentions it - approximated by: no other call of an array::IntoIter / Enumerate method
    for b in loop:
        t = body.blocks[b]['term']
        if b != h and t['k'] == 'call' and 'core::array::iter::IntoIter' in t.get('callee_full', ''):
            return None
    # copy the loop together with the code that is only reachable through it (the `?` exits of the body, the code after
    # the loop up to the next merge with a path around the loop): every copy keeps its own early exits, so that "the error
    # of the k-th call" stays one value instead of a merge of all of them
    dom = C.dominators(body, False)
    region = set(loop)
    st_ = [s for b in loop for s in body.succs(b, False)]
    while st_:
        b = st_.pop()
        if b in region or body.blocks[b]['cleanup'] or h not in dom.get(b, ()):
            continue
        region.add(b)
        st_.extend(body.succs(b, False))
    if len(region) * (n + 1) > 1500:
        return None
    loop_only = loop
    loop = region
    j = copy.deepcopy(body.j)
    blocks = j['blocks']
    locals_ = j['locals']
    order = sorted(loop)
    ht = blocks[h]['term']
    dest, target, at = ht['dest'], ht['target'], ht.get('at')
    unreach = len(blocks)
    blocks.append({'cleanup': False, 'stmts': [], 'term': {'k': 'unreachable'}, 'frame': blocks[h].get('frame', ())})
    maps = []
    for k in range(n + 1):
        mp = {}
        for b in order:
            mp[b] = len(blocks)
            blocks.append(copy.deepcopy(blocks[b]))
        maps.append(mp)
    for k, mp in enumerate(maps):
        nxt = maps[k + 1][h] if k < n else unreach
        for b in order:
            nbk = blocks[mp[b]]
            t = nbk['term']

            def rd(x):
                if x == h:
                    return nxt
                return mp.get(x, x)
            if b == h:
                st = nbk['stmts']
                if k < n:
                    o = ops[k]
                    el = o if o.get('k') == 'const' else {'k': 'copy', 'place': {'l': o['place']['l'], 'p': []}}
                    if enum:
                        tl = len(locals_)
                        locals_.append('(usize, ?)')
                        st.append({'k': 'assign', 'place': {'l': tl, 'p': []}, 'at': at, 'synthetic': 'unroll',
                                   'rv': {'k': 'agg', 'ak': 'tuple', 'ops': [{'k': 'const', 'ty': 'usize', 'val': str(k), 'bits': 64, 'repr': '%d_usize' % k}, el]}})
                        el = {'k': 'move', 'place': {'l': tl, 'p': []}}
                    st.append({'k': 'assign', 'place': dest, 'at': at, 'synthetic': 'unroll',
                               'rv': {'k': 'agg', 'ak': 'adt', 'path': OPT, 'args': [], 'variant': 'Some', 'vidx': 1, 'fields': ['0'], 'ops': [el]}})
                else:
                    st.append({'k': 'assign', 'place': dest, 'at': at, 'synthetic': 'unroll',
                               'rv': {'k': 'agg', 'ak': 'adt', 'path': OPT, 'args': [], 'variant': 'None', 'vidx': 0, 'fields': [], 'ops': []}})
                nbk['term'] = {'k': 'goto', 'target': rd(target), 'at': at, 'unrolled': k}
                continue
            if t['k'] == 'goto':
                t['target'] = rd(t['target'])
            elif t['k'] == 'switch':
                t['targets'] = [[v, rd(x)] for v, x in t['targets']]
                t['otherwise'] = rd(t['otherwise'])
            elif t['k'] in ('call', 'drop', 'assert'):
                if t.get('target') is not None:
                    t['target'] = rd(t['target'])
    # entries from outside the loop go to the first copy
    first = maps[0][h]
    for bi, blk in enumerate(blocks):
        if bi in loop or bi >= unreach:
            continue
        t = blk['term']
        if t['k'] == 'goto' and t['target'] == h:
            t['target'] = first
        elif t['k'] == 'switch':
            t['targets'] = [[v, (first if x == h else x)] for v, x in t['targets']]
            if t['otherwise'] == h:
                t['otherwise'] = first
        elif t['k'] in ('call', 'drop', 'assert') and t.get('target') == h:
            t['target'] = first
    # the original loop blocks are dead now
    for b in loop:
        blocks[b] = {'cleanup': True, 'dead': True, 'stmts': [], 'term': {'k': 'unreachable'}, 'frame': blocks[b].get('frame', ())}
    nb = Body(j, crate)
    nb.inlined = getattr(body, 'inlined', None)
    return nb


def prune_const_switches(body, rounds=4):
    """Decide switches whose scrutinee's term is a constant (after unrolling: `if i == 0` with i the loop index)."""
    from .terms import Terms, norm
    cur = body
    any_change = False
    for _ in range(rounds):
        T = Terms(cur)
        plan = {}
        for bi, blk in enumerate(cur.blocks):
            t = blk['term']
            if blk['cleanup'] or t['k'] != 'switch':
                continue
            d = norm(T.operand_term(t['discr'], bi, len(blk['stmts'])))
            v = _const_val(d)
            if v is None:
                continue
            tg = None
            for val, x in t['targets']:
                if str(val) == str(v):
                    tg = x
            if tg is None:
                tg = t['otherwise']
            plan[bi] = tg
        if not plan:
            break
        j = copy.deepcopy(cur.j)
        for bi, tg in plan.items():
            j['blocks'][bi]['term'] = {'k': 'goto', 'target': tg, 'at': j['blocks'][bi]['term'].get('at'), 'pruned': True}
        # unreachable blocks are emptied (rules enumerate call sites)
        nb = Body(j, cur.crate)
        seen = set()
        st = [0]
        while st:
            b = st.pop()
            if b in seen:
                continue
            seen.add(b)
            st.extend(nb.succs(b, True))
        for i, blk in enumerate(j['blocks']):
            if i not in seen and not blk.get('dead'):
                blk['stmts'] = []
                blk['term'] = {'k': 'unreachable'}
                blk['cleanup'] = True
                blk['dead'] = True
        nb = Body(j, cur.crate)
        nb.inlined = getattr(cur, 'inlined', None)
        cur = nb
        any_change = True
    return cur if any_change else body


def _const_val(d):
    """int value of a constant term / of a comparison of two constants (as the switch sees it), else None"""
    if d[0] == 'const':
        try:
            if d[1] == 'bool':
                return 1 if str(d[2]).lower() in ('true', '1') else 0
            return int(str(d[2]))
        except (TypeError, ValueError):
            return None
    if d[0] == 'bin' and d[1] in ('Eq', 'Ne', 'Lt', 'Le', 'Gt', 'Ge') and d[2][0] == 'const' and d[3][0] == 'const' and d[2][1] == d[3][1] and d[2][1] != 'bool':
        try:
            a, b = int(str(d[2][2])), int(str(d[3][2]))
        except (TypeError, ValueError):
            return None
        r = {'Eq': a == b, 'Ne': a != b, 'Lt': a < b, 'Le': a <= b, 'Gt': a > b, 'Ge': a >= b}[d[1]]
        return 1 if r else 0
    return None
