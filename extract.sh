#!/bin/bash
# usage: extract.sh <cargo-dir> <out-dir> [extra cargo args...]
# Runs the mirfacts driver over the workspace at <cargo-dir>; facts land in <out-dir>.
set -euo pipefail
SRC="$1"; OUT="$2"; shift 2
HERE="$(cd "$(dirname "$0")" && pwd)"
DRV="$HERE/mirfacts/target/release/mirfacts"
[ -x "$DRV" ] || { echo "BROKEN-CHECK: mirfacts driver not built (run setup)"; exit 2; }
SYSROOT="$(rustc +nightly --print sysroot)"
T="$(mktemp -d /tmp/mirfacts_t.XXXXXX)"
trap 'rm -rf "$T"' EXIT
mkdir -p "$OUT"
cd "$SRC"
LD_LIBRARY_PATH="$SYSROOT/lib" MIRFACTS_OUT="$OUT" \
  RUSTFLAGS="${MIRFACTS_RUSTFLAGS:--Zmir-opt-level=0 -Awarnings}" \
  RUSTC_WORKSPACE_WRAPPER="$DRV" CARGO_TARGET_DIR="$T" CARGO_NET_OFFLINE=true \
  cargo +nightly check --offline "$@" >"$OUT/cargo.log" 2>&1 || { cat "$OUT/cargo.log"; exit 3; }
