// Cadence - An extensible Statsd client for Rust!
//
// Copyright 2020-2021 Nick Pillitteri
//
// Licensed under the Apache License, Version 2.0 <LICENSE-APACHE or
// http://www.apache.org/licenses/LICENSE-2.0> or the MIT license
// <LICENSE-MIT or http://opensource.org/licenses/MIT>, at your
// option. This file may not be copied, modified, or distributed
// except according to those terms.

// NOTE: Comments here are mostly just copy/pasted. Make sure to update all of
//  them if you make changes!

/// Emit a counter using the default global client, optionally with tags
///
/// The counter will use the prefix from the default global client combined
/// with the provided key.
///
/// Any errors encountered sending metrics will be handled by the error handler
/// registered with the default global client. This error handler is a no-op
/// unless explicitly set. Callers should set the error handler for the default
/// client if you wish to handle these errors (by logging them or something similar).
///
/// # Panics
///
/// This macro will panic if the default global client has not been set when
/// it is invoked (via `cadence_macros::set_global_default`).
///
/// # Examples
///
/// ```
/// use cadence::{StatsdClient, NopMetricSink};
/// use cadence_macros::statsd_count;
///
/// let client = StatsdClient::builder("my.prefix", NopMetricSink)
///     .with_error_handler(|e| { eprintln!("metric error: {}", e) })
///     .build();
///
/// cadence_macros::set_global_default(client);
///
/// // "my.prefix.some.counter:123|c"
/// statsd_count!("some.counter", 123);
/// // "my.prefix.some.counter:123|c|#tag:val"
/// statsd_count!("some.counter", 123, "tag" => "val");
/// // "my.prefix.some.counter:123|c|#tag:val,another:thing"
/// statsd_count!("some.counter", 123, "tag" => "val", "another" => "thing");
/// ```
///
/// # Limitations
///
/// Only key-value style tags are supported. Value style tags are not
/// supported, e.g. `builder.with_tag_value("val")`.
#[macro_export]
macro_rules! statsd_count {
    ($key:expr, $val:expr) => {
        $crate::statsd_count!($key, $val,)
    };

    ($key:expr, $val:expr, $($tag_key:expr => $tag_val:expr),*) => {
        $crate::_generate_impl!(count_with_tags, $key, $val, $($tag_key => $tag_val),*)
    }
}

/// Emit a timer using the default global client, optionally with tags
///
/// The timer will use the prefix from the default global client combined
/// with the provided key.
///
/// Any errors encountered sending metrics will be handled by the error handler
/// registered with the default global client. This error handler is a no-op
/// unless explicitly set. Callers should set the error handler for the default
/// client if you wish to handle these errors (by logging them or something similar).
///
/// # Panics
///
/// This macro will panic if the default global client has not been set when
/// it is invoked (via `cadence_macros::set_global_default`).
///
/// # Examples
///
/// ```
/// use cadence::{StatsdClient, NopMetricSink};
/// use cadence_macros::statsd_time;
///
/// let client = StatsdClient::builder("my.prefix", NopMetricSink)
///     .with_error_handler(|e| { eprintln!("metric error: {}", e) })
///     .build();
///
/// cadence_macros::set_global_default(client);
///
/// // "my.prefix.some.timer:123|ms"
/// statsd_time!("some.timer", 123);
/// // "my.prefix.some.timer:123|ms|#tag:val"
/// statsd_time!("some.timer", 123, "tag" => "val");
/// // "my.prefix.some.timer:123|ms|#tag:val,another:thing"
/// statsd_time!("some.timer", 123, "tag" => "val", "another" => "thing");
/// ```
///
/// # Limitations
///
/// Only key-value style tags are supported. Value style tags are not
/// supported, e.g. `builder.with_tag_value("val")`.
#[macro_export]
macro_rules! statsd_time {
    ($key:expr, $val:expr) => {
        $crate::statsd_time!($key, $val,)
    };

    ($key:expr, $val:expr, $($tag_key:expr => $tag_val:expr),*) => {
        $crate::_generate_impl!(time_with_tags, $key, $val, $($tag_key => $tag_val),*)
    }
}

/// Emit a gauge using the default global client, optionally with tags
///
/// The gauge will use the prefix from the default global client combined
/// with the provided key.
///
/// Any errors encountered sending metrics will be handled by the error handler
/// registered with the default global client. This error handler is a no-op
/// unless explicitly set. Callers should set the error handler for the default
/// client if you wish to handle these errors (by logging them or something similar).
///
/// # Panics
///
/// This macro will panic if the default global client has not been set when
/// it is invoked (via `cadence_macros::set_global_default`).
///
/// # Examples
///
/// ```
/// use cadence::{StatsdClient, NopMetricSink};
/// use cadence_macros::statsd_gauge;
///
/// let client = StatsdClient::builder("my.prefix", NopMetricSink)
///     .with_error_handler(|e| { eprintln!("metric error: {}", e) })
///     .build();
///
/// cadence_macros::set_global_default(client);
///
/// // "my.prefix.some.gauge:123|g"
/// statsd_gauge!("some.gauge", 123);
/// // "my.prefix.some.gauge:123|g|#tag:val"
/// statsd_gauge!("some.gauge", 123, "tag" => "val");
/// // "my.prefix.some.gauge:123|g|#tag:val,another:thing"
/// statsd_gauge!("some.gauge", 123, "tag" => "val", "another" => "thing");
/// ```
///
/// # Limitations
///
/// Only key-value style tags are supported. Value style tags are not
/// supported, e.g. `builder.with_tag_value("val")`.
#[macro_export]
macro_rules! statsd_gauge {
    ($key:expr, $val:expr) => {
        $crate::statsd_gauge!($key, $val,)
    };

    ($key:expr, $val:expr, $($tag_key:expr => $tag_val:expr),*) => {
        $crate::_generate_impl!(gauge_with_tags, $key, $val, $($tag_key => $tag_val),*)
    }
}

/// Emit a meter using the default global client, optionally with tags
///
/// The meter will use the prefix from the default global client combined
/// with the provided key.
///
/// Any errors encountered sending metrics will be handled by the error handler
/// registered with the default global client. This error handler is a no-op
/// unless explicitly set. Callers should set the error handler for the default
/// client if you wish to handle these errors (by logging them or something similar).
///
/// # Panics
///
/// This macro will panic if the default global client has not been set when
/// it is invoked (via `cadence_macros::set_global_default`).
///
/// # Examples
///
/// ```
/// use cadence::{StatsdClient, NopMetricSink};
/// use cadence_macros::statsd_meter;
///
/// let client = StatsdClient::builder("my.prefix", NopMetricSink)
///     .with_error_handler(|e| { eprintln!("metric error: {}", e) })
///     .build();
///
/// cadence_macros::set_global_default(client);
///
/// // "my.prefix.some.meter:123|m"
/// statsd_meter!("some.meter", 123);
/// // "my.prefix.some.meter:123|m|#tag:val"
/// statsd_meter!("some.meter", 123, "tag" => "val");
/// // "my.prefix.some.meter:123|m|#tag:val,another:thing"
/// statsd_meter!("some.meter", 123, "tag" => "val", "another" => "thing");
/// ```
///
/// # Limitations
///
/// Only key-value style tags are supported. Value style tags are not
/// supported, e.g. `builder.with_tag_value("val")`.
#[macro_export]
macro_rules! statsd_meter {
    ($key:expr, $val:expr) => {
        $crate::statsd_meter!($key, $val,)
    };

    ($key:expr, $val:expr, $($tag_key:expr => $tag_val:expr),*) => {
        $crate::_generate_impl!(meter_with_tags, $key, $val, $($tag_key => $tag_val),*)
    }
}

/// Emit a histogram using the default global client, optionally with tags
///
/// The histogram will use the prefix from the default global client combined
/// with the provided key.
///
/// Any errors encountered sending metrics will be handled by the error handler
/// registered with the default global client. This error handler is a no-op
/// unless explicitly set. Callers should set the error handler for the default
/// client if you wish to handle these errors (by logging them or something similar).
///
/// # Panics
///
/// This macro will panic if the default global client has not been set when
/// it is invoked (via `cadence_macros::set_global_default`).
///
/// # Examples
///
/// ```
/// use cadence::{StatsdClient, NopMetricSink};
/// use cadence_macros::statsd_histogram;
///
/// let client = StatsdClient::builder("my.prefix", NopMetricSink)
///     .with_error_handler(|e| { eprintln!("metric error: {}", e) })
///     .build();
///
/// cadence_macros::set_global_default(client);
///
/// // "my.prefix.some.histogram:123|h"
/// statsd_histogram!("some.histogram", 123);
/// // "my.prefix.some.histogram:123|h|#tag:val"
/// statsd_histogram!("some.histogram", 123, "tag" => "val");
/// // "my.prefix.some.histogram:123|h|#tag:val,another:thing"
/// statsd_histogram!("some.histogram", 123, "tag" => "val", "another" => "thing");
/// ```
///
/// # Limitations
///
/// Only key-value style tags are supported. Value style tags are not
/// supported, e.g. `builder.with_tag_value("val")`.
#[macro_export]
macro_rules! statsd_histogram {
    ($key:expr, $val:expr) => {
        $crate::statsd_histogram!($key, $val,)
    };

    ($key:expr, $val:expr, $($tag_key:expr => $tag_val:expr),*) => {
        $crate::_generate_impl!(histogram_with_tags, $key, $val, $($tag_key => $tag_val),*)
    }
}

/// Emit a distribution using the default global client, optionally with tags
///
/// The distribution will use the prefix from the default global client combined
/// with the provided key.
///
/// Any errors encountered sending metrics will be handled by the error handler
/// registered with the default global client. This error handler is a no-op
/// unless explicitly set. Callers should set the error handler for the default
/// client if you wish to handle these errors (by logging them or something similar).
///
/// # Panics
///
/// This macro will panic if the default global client has not been set when
/// it is invoked (via `cadence_macros::set_global_default`).
///
/// # Examples
///
/// ```
/// use cadence::{StatsdClient, NopMetricSink};
/// use cadence_macros::statsd_distribution;
///
/// let client = StatsdClient::builder("my.prefix", NopMetricSink)
///     .with_error_handler(|e| { eprintln!("metric error: {}", e) })
///     .build();
///
/// cadence_macros::set_global_default(client);
///
/// // "my.prefix.some.distribution:123|d"
/// statsd_distribution!("some.distribution", 123);
/// // "my.prefix.some.distribution:123|d|#tag:val"
/// statsd_distribution!("some.distribution", 123, "tag" => "val");
/// // "my.prefix.some.distribution:123|d|#tag:val,another:thing"
/// statsd_distribution!("some.distribution", 123, "tag" => "val", "another" => "thing");
/// ```
///
/// # Limitations
///
/// Only key-value style tags are supported. Value style tags are not
/// supported, e.g. `builder.with_tag_value("val")`.
#[macro_export]
macro_rules! statsd_distribution {
    ($key:expr, $val:expr) => {
        $crate::statsd_distribution!($key, $val,)
    };

    ($key:expr, $val:expr, $($tag_key:expr => $tag_val:expr),*) => {
        $crate::_generate_impl!(distribution_with_tags, $key, $val, $($tag_key => $tag_val),*)
    }
}

/// Emit a set using the default global client, optionally with tags
///
/// The set will use the prefix from the default global client combined
/// with the provided key.
///
/// Any errors encountered sending metrics will be handled by the error handler
/// registered with the default global client. This error handler is a no-op
/// unless explicitly set. Callers should set the error handler for the default
/// client if you wish to handle these errors (by logging them or something similar).
///
/// # Panics
///
/// This macro will panic if the default global client has not been set when
/// it is invoked (via `cadence_macros::set_global_default`).
///
/// # Examples
///
/// ```
/// use cadence::{StatsdClient, NopMetricSink};
/// use cadence_macros::statsd_set;
///
/// let client = StatsdClient::builder("my.prefix", NopMetricSink)
///     .with_error_handler(|e| { eprintln!("metric error: {}", e) })
///     .build();
///
/// cadence_macros::set_global_default(client);
///
/// // "my.prefix.some.set:123|s"
/// statsd_set!("some.set", 123);
/// // "my.prefix.some.set:123|s|#tag:val"
/// statsd_set!("some.set", 123, "tag" => "val");
/// // "my.prefix.some.set:123|s|#tag:val,another:thing"
/// statsd_set!("some.set", 123, "tag" => "val", "another" => "thing");
/// ```
///
/// # Limitations
///
/// Only key-value style tags are supported. Value style tags are not
/// supported, e.g. `builder.with_tag_value("val")`.
#[macro_export]
macro_rules! statsd_set {
    ($key:expr, $val:expr) => {
        $crate::statsd_set!($key, $val,)
    };

    ($key:expr, $val:expr, $($tag_key:expr => $tag_val:expr),*) => {
        $crate::_generate_impl!(set_with_tags, $key, $val, $($tag_key => $tag_val),*)
    }
}

#[macro_export]
#[doc(hidden)]
macro_rules! _generate_impl {
    ($method:ident, $key:expr, $val:expr, $($tag_key:expr => $tag_val:expr),*) => {
        use cadence::prelude::*;
        let client = $crate::get_global_default().unwrap();
        let builder = client.$method($key, $val);
        $(let builder = builder.with_tag($tag_key, $tag_val);)*
        builder.send()
    }
}
