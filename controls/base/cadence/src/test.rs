// Cadence - An extensible Statsd client for Rust!
//
// Copyright 2019-2021 Nick Pillitteri
//
// Licensed under the Apache License, Version 2.0 <LICENSE-APACHE or
// http://www.apache.org/licenses/LICENSE-2.0> or the MIT license
// <LICENSE-MIT or http://opensource.org/licenses/MIT>, at your
// option. This file may not be copied, modified, or distributed
// except according to those terms.

//! Utilities for testing Cadence itself.
//!
//! Functionality exported to be used by integration tests. This module
//! is NOT part of the Cadence API and is subject to change at any time.

use crate::sinks::MetricSink;
use std::fs;
use std::io::{self, ErrorKind};
use std::os::unix::net::UnixDatagram;
use std::path::{Path, PathBuf};
use std::sync::atomic::{AtomicBool, AtomicU64, Ordering};
use std::sync::Arc;
use std::thread::JoinHandle;
use std::time::Duration;
use std::{env, thread};

/// Create a temporary directory and construct paths to files within it
///
/// When this object goes out of scope, any files under the temporary directory
/// it is responsible for ($TMP + $PREFIX) will be deleted.
#[derive(Debug)]
pub struct TempDir {
    base: PathBuf,
}

impl TempDir {
    pub fn new<P>(prefix: P) -> io::Result<Self>
    where
        P: AsRef<Path>,
    {
        let base = env::temp_dir().join(prefix);
        fs::create_dir_all(&base)?;
        Ok(TempDir { base })
    }

    pub fn new_path<P>(&self, name: P) -> PathBuf
    where
        P: AsRef<Path>,
    {
        self.base.join(name)
    }
}

impl Drop for TempDir {
    fn drop(&mut self) {
        let _ = fs::remove_dir_all(&self.base);
    }
}

pub trait DatagramConsumer {
    fn accept(&self, datagram: String);
}

impl<F> DatagramConsumer for F
where
    F: Fn(String),
{
    fn accept(&self, datagram: String) {
        (self)(datagram);
    }
}

/// Basic server for listening on a given Unix socket path.
///
/// This server reads messages from a Unix datagram socket in a loop, ensures
/// they are valid UTF-8 strings, and then discards them. Any errors are printed
/// to `stderr`.
///
/// This server is only meant for testing Unix socket related functionality in
/// Cadence itself.
pub struct UnixSocketServer {
    ready: AtomicBool,
    shutdown: AtomicBool,
    path: PathBuf,
    consumer: Arc<dyn DatagramConsumer + Send + Sync + 'static>,
    interval: Duration,
}

impl UnixSocketServer {
    /// Create a new server that will listen for datagrams on the given path, using
    /// the provided interval on the read timeout as part of its main loop.
    pub fn new<P, C>(path: P, interval: Duration, consumer: C) -> Self
    where
        P: AsRef<Path>,
        C: DatagramConsumer + Send + Sync + 'static,
    {
        UnixSocketServer {
            ready: AtomicBool::new(false),
            shutdown: AtomicBool::new(false),
            path: path.as_ref().to_path_buf(),
            consumer: Arc::new(consumer),
            interval,
        }
    }

    /// Has the server created the socket to listen on?
    pub fn is_ready(&self) -> bool {
        self.ready.load(Ordering::Acquire)
    }

    /// Run until the `.shutdown()` method is called, reading datagrams and discarding them.
    pub fn run(&self) -> io::Result<()> {
        // Make sure to remove any existing socket at the same path before we start
        // listening on it. Ignore any errors since it's entirely possible that the
        // socket file doesn't exist.
        let _ = fs::remove_file(&self.path);
        let socket = UnixDatagram::bind(&self.path)?;
        socket.set_read_timeout(Some(self.interval))?;

        let mut buf = [0u8; 1024];
        self.ready.store(true, Ordering::Release);

        loop {
            match socket.recv(&mut buf) {
                Ok(v) => match std::str::from_utf8(&buf[0..v]) {
                    Ok(s) => self.consumer.accept(s.to_owned()),
                    Err(e) => eprintln!("Error: Couldn't decode string to utf-8 {}", e),
                },
                Err(e) => {
                    // WouldBlock means we hit our receive timeout which is expected.
                    // If the "shutdown" flag has been set by the client they've sent
                    // all the metrics they are going to send and we can shutdown the
                    // server. Otherwise, just ignore the WouldBlock error.
                    if e.kind() == ErrorKind::WouldBlock {
                        if self.shutdown.load(Ordering::Acquire) {
                            break;
                        }
                    } else {
                        // Some other kind of error besides hitting our receive timeout
                        eprintln!("Error: {} - {:?}", e, e.kind());
                    }
                }
            }
        }

        Ok(())
    }

    /// Indicate that the server should stop its main run loop.
    pub fn shutdown(&self) {
        self.shutdown.store(true, Ordering::Release);
    }
}

/// Wrapper around a `UnixSocketServer` to start and stop it in the course
/// of running a single test.
///
/// The server is stopped and the thread it was running in is joined from
/// the destructor of this struct.
pub struct UnixServerHarness {
    base: PathBuf,
    server: Option<Arc<UnixSocketServer>>,
    thread: Option<JoinHandle<()>>,
}

impl UnixServerHarness {
    pub fn new<P>(prefix: P) -> Self
    where
        P: AsRef<Path>,
    {
        UnixServerHarness {
            base: prefix.as_ref().to_path_buf(),
            server: None,
            thread: None,
        }
    }

    pub fn run<C, F>(mut self, consumer: C, body: F)
    where
        C: DatagramConsumer + Send + Sync + 'static,
        F: FnOnce(&Path),
    {
        let temp = TempDir::new(&self.base).unwrap();
        let socket = temp.new_path("cadence.sock");

        let server = Arc::new(UnixSocketServer::new(&socket, Duration::from_millis(100), consumer));
        let server_local = server.clone();

        let t = thread::spawn(move || {
            server_local.run().unwrap();
        });

        while !server.is_ready() {
            thread::yield_now();
        }

        self.server = Some(server);
        self.thread = Some(t);

        body(&socket);
    }

    pub fn run_quiet<F>(self, body: F)
    where
        F: FnOnce(&Path),
    {
        self.run(|_| (), body)
    }
}

impl Drop for UnixServerHarness {
    fn drop(&mut self) {
        if let Some(s) = self.server.take() {
            s.shutdown();
        }

        if let Some(t) = self.thread.take() {
            let _ = t.join();
        }
    }
}

struct Every {
    modulo: u64,
    counter: AtomicU64,
}

impl Every {
    fn new(modulo: u64) -> Self {
        assert_ne!(modulo, 0, "modulo must be >= 1");

        Every {
            modulo,
            counter: AtomicU64::new(1),
        }
    }

    fn allow(&self) -> bool {
        self.counter.fetch_add(1, Ordering::SeqCst) % self.modulo == 0
    }
}

/// `MetricSink` implementation that can panic.
pub struct PanickingMetricSink {
    every: Every,
}

impl PanickingMetricSink {
    pub fn every(every: u64) -> Self {
        PanickingMetricSink {
            every: Every::new(every),
        }
    }

    pub fn always() -> Self {
        Self::every(1)
    }
}

impl MetricSink for PanickingMetricSink {
    fn emit(&self, m: &str) -> io::Result<usize> {
        if self.every.allow() {
            panic!("This sink is supposed to panic");
        } else {
            Ok(m.len())
        }
    }
}

/// `MetricSink` implementation that can return an error
pub struct ErrorMetricSink {
    every: Every,
}

impl ErrorMetricSink {
    pub fn every(every: u64) -> Self {
        ErrorMetricSink {
            every: Every::new(every),
        }
    }

    pub fn always() -> Self {
        Self::every(1)
    }
}

impl MetricSink for ErrorMetricSink {
    fn emit(&self, m: &str) -> io::Result<usize> {
        if self.every.allow() {
            io::Result::Err(io::Error::from(io::ErrorKind::TimedOut))
        } else {
            Ok(m.len())
        }
    }
}
