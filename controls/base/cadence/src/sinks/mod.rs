// Cadence - An extensible Statsd client for Rust!
//
// Copyright 2015-2021 Nick Pillitteri
//
// Licensed under the Apache License, Version 2.0 <LICENSE-APACHE or
// http://www.apache.org/licenses/LICENSE-2.0> or the MIT license
// <LICENSE-MIT or http://opensource.org/licenses/MIT>, at your
// option. This file may not be copied, modified, or distributed
// except according to those terms.

mod core;
mod queuing;
mod spy;
mod udp;

pub use crate::sinks::core::{MetricSink, NopMetricSink, SinkStats, SocketStats};
pub use crate::sinks::queuing::{QueuingMetricSink, QueuingMetricSinkBuilder};
pub use crate::sinks::spy::{BufferedSpyMetricSink, SpyMetricSink};
pub use crate::sinks::udp::{BufferedUdpMetricSink, UdpMetricSink};

#[cfg(unix)]
mod unix;

#[cfg(unix)]
pub use crate::sinks::unix::{BufferedUnixMetricSink, UnixMetricSink};
