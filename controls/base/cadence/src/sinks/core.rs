// Cadence - An extensible Statsd client for Rust!
//
// Copyright 2015-2021 Nick Pillitteri
//
// Licensed under the Apache License, Version 2.0 <LICENSE-APACHE or
// http://www.apache.org/licenses/LICENSE-2.0> or the MIT license
// <LICENSE-MIT or http://opensource.org/licenses/MIT>, at your
// option. This file may not be copied, modified, or distributed
// except according to those terms.

use std::io;
use std::sync::atomic::{AtomicU64, Ordering};
use std::sync::Arc;

/// I/O telemetry for a `MetricSink` implementation.
#[derive(Clone, Debug, Default)]
pub struct SinkStats {
    pub bytes_sent: u64,
    pub packets_sent: u64,
    pub bytes_dropped: u64,
    pub packets_dropped: u64,
}

/// Thread-safe collection of stats updated by network sinks.
///
/// This struct is meant to be updated internally by `MetricSink` implementations
/// and converted to an instance of `SinkStats` for consumption by external callers.
///
/// # Example
///
/// ```
/// use std::net::{SocketAddr, UdpSocket};
/// use cadence::ext::SocketStats;
/// use cadence::{MetricSink, SinkStats};
///
/// pub struct MyCustomSink {
///     addr: SocketAddr,
///     socket: UdpSocket,
///     stats: SocketStats,
/// }
///
/// impl MetricSink for MyCustomSink {
///     fn emit(&self, metric: &str) -> std::io::Result<usize> {
///         let res = self.socket.send_to(metric.as_bytes(), &self.addr);
///         self.stats.update(res, metric.len())
///     }
///
///     fn stats(&self) -> SinkStats {
///        (&self.stats).into()
///     }
/// }
///
/// ```
#[derive(Debug, Clone, Default)]
pub struct SocketStats {
    bytes_sent: Arc<AtomicU64>,
    packets_sent: Arc<AtomicU64>,
    bytes_dropped: Arc<AtomicU64>,
    packets_dropped: Arc<AtomicU64>,
}

impl SocketStats {
    pub fn incr_bytes_sent(&self, n: u64) {
        self.bytes_sent.fetch_add(n, Ordering::Relaxed);
    }

    pub fn incr_packets_sent(&self) {
        self.packets_sent.fetch_add(1, Ordering::Relaxed);
    }

    pub fn incr_bytes_dropped(&self, n: u64) {
        self.bytes_dropped.fetch_add(n, Ordering::Relaxed);
    }

    pub fn incr_packets_dropped(&self) {
        self.packets_dropped.fetch_add(1, Ordering::Relaxed);
    }

    pub fn update(&self, res: io::Result<usize>, len: usize) -> io::Result<usize> {
        match res {
            Ok(written) => {
                self.incr_bytes_sent(written as u64);
                self.incr_packets_sent();
                Ok(written)
            }
            Err(e) => {
                self.incr_bytes_dropped(len as u64);
                self.incr_packets_dropped();
                Err(e)
            }
        }
    }
}

impl From<&SocketStats> for SinkStats {
    fn from(stats: &SocketStats) -> Self {
        SinkStats {
            bytes_sent: stats.bytes_sent.load(Ordering::Relaxed),
            packets_sent: stats.packets_sent.load(Ordering::Relaxed),
            bytes_dropped: stats.bytes_dropped.load(Ordering::Relaxed),
            packets_dropped: stats.packets_dropped.load(Ordering::Relaxed),
        }
    }
}

/// Trait for various backends that send Statsd metrics somewhere.
///
/// The metric string will be in the canonical format to be sent to a
/// Statsd server. The metric string will not include a trailing newline.
/// Examples of each supported metric type are given below.
///
/// ## Counter
///
/// ``` text
/// some.counter:123|c
/// ```
///
/// ## Timer
///
/// ``` text
/// some.timer:456|ms
/// ```
///
/// ## Gauge
///
/// ``` text
/// some.gauge:5|g
/// ```
///
/// ## Meter
///
/// ``` text
/// some.meter:8|m
/// ```
///
/// ## Histogram
///
/// ``` text
/// some.histogram:4|h
/// ```
///
/// ## Set
///
/// ``` text
/// some.set:2|s
/// ```
///
/// ## Distribution
///
/// ``` text
/// some.distribution:2|d
/// ```
///
/// See the [Statsd spec](https://github.com/b/statsd_spec) for more
/// information.
pub trait MetricSink {
    /// Send the Statsd metric using this sink and return the number of bytes
    /// written or an I/O error.
    ///
    /// Note that implementations may return `0` bytes if the metric is not
    /// immediately written (such as when it is buffered).  Callers should *NOT*
    /// interpret this as an error.
    fn emit(&self, metric: &str) -> io::Result<usize>;

    /// Flush any currently buffered metrics to the underlying backend, returning
    /// an I/O error if they could not be written for some reason.
    ///
    /// Note that not all sinks buffer metrics and so the default implementation of
    /// this method does nothing.
    fn flush(&self) -> io::Result<()> {
        Ok(())
    }

    /// Return I/O telemetry like bytes / packets sent or dropped.
    ///
    /// Note that not all sinks implement this method and the default implementation
    /// returns zeros.
    fn stats(&self) -> SinkStats {
        SinkStats::default()
    }
}

/// Implementation of a `MetricSink` that discards all metrics.
///
/// Useful for disabling metric collection or unit tests.
#[derive(Debug, Clone)]
pub struct NopMetricSink;

impl MetricSink for NopMetricSink {
    fn emit(&self, _metric: &str) -> io::Result<usize> {
        Ok(0)
    }
}

#[cfg(test)]
mod tests {
    use super::{MetricSink, NopMetricSink};
    #[test]
    fn test_nop_metric_sink() {
        let sink = NopMetricSink;
        assert_eq!(0, sink.emit("baz:4|c").unwrap());
    }
}
