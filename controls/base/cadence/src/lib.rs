// Cadence - An extensible Statsd client for Rust!
//
// Copyright 2015-2021 Nick Pillitteri
//
// Licensed under the Apache License, Version 2.0 <LICENSE-APACHE or
// http://www.apache.org/licenses/LICENSE-2.0> or the MIT license
// <LICENSE-MIT or http://opensource.org/licenses/MIT>, at your
// option. This file may not be copied, modified, or distributed
// except according to those terms.

//! An extensible Statsd client for Rust!
//!
//! Cadence is a fast and flexible way to emit Statsd metrics from your application.
//!
//! ## Features
//!
//! * [Support](https://docs.rs/cadence/) for emitting counters, timers, histograms, distributions,
//!   gauges, meters, and sets to Statsd over UDP (or optionally Unix sockets).
//! * Support for alternate backends via the `MetricSink` trait.
//! * Support for [Datadog](https://docs.datadoghq.com/developers/dogstatsd/) style metrics tags.
//! * [Macros](https://docs.rs/cadence-macros/) to simplify common calls to emit metrics
//! * A simple yet flexible API for sending metrics.
//!
//! ## Install
//!
//! To make use of `cadence` in your project, add it as a dependency in your `Cargo.toml` file.
//!
//! ```toml
//! [dependencies]
//! cadence = "x.y.z"
//! ```
//!
//! That's all you need!
//!
//! ## Usage
//!
//! Some examples of how to use Cadence are shown below. The examples start
//! simple and work up to how you should be using Cadence in a production
//! application.
//!
//! ### Simple Use
//!
//! Simple usage of Cadence is shown below. In this example, we just import
//! the client, create an instance that will write to some imaginary metrics
//! server, and send a few metrics.
//!
//! ```rust,no_run
//! use std::net::UdpSocket;
//! use cadence::prelude::*;
//! use cadence::{StatsdClient, UdpMetricSink, DEFAULT_PORT};
//!
//! // Create client that will write to the given host over UDP.
//! //
//! // Note that you'll probably want to actually handle any errors creating
//! // the client when you use it for real in your application. We're just
//! // using .unwrap() here since this is an example!
//! let host = ("metrics.example.com", DEFAULT_PORT);
//! let socket = UdpSocket::bind("0.0.0.0:0").unwrap();
//! let sink = UdpMetricSink::from(host, socket).unwrap();
//! let client = StatsdClient::from_sink("my.metrics", sink);
//!
//! // Emit metrics!
//! client.count("some.counter", 1);
//! client.time("some.methodCall", 42);
//! client.gauge("some.thing", 7);
//! client.meter("some.value", 5);
//! ```
//!
//! ### Buffered UDP Sink
//!
//! While sending a metric over UDP is very fast, the overhead of frequent
//! network calls can start to add up. This is especially true if you are
//! writing a high performance application that emits a lot of metrics.
//!
//! To make sure that metrics aren't interfering with the performance of
//! your application, you may want to use a `MetricSink` implementation that
//! buffers multiple metrics before sending them in a single network
//! operation. For this, there's `BufferedUdpMetricSink`. An example of
//! using this sink is given below.
//!
//! ```rust,no_run
//! use std::net::UdpSocket;
//! use cadence::prelude::*;
//! use cadence::{StatsdClient, BufferedUdpMetricSink, DEFAULT_PORT};
//!
//! let socket = UdpSocket::bind("0.0.0.0:0").unwrap();
//! socket.set_nonblocking(true).unwrap();
//!
//! let host = ("metrics.example.com", DEFAULT_PORT);
//! let sink = BufferedUdpMetricSink::from(host, socket).unwrap();
//! let client = StatsdClient::from_sink("my.prefix", sink);
//!
//! client.count("my.counter.thing", 29);
//! client.time("my.service.call", 214);
//! ```
//!
//! As you can see, using this buffered UDP sink is no more complicated
//! than using the regular, non-buffered, UDP sink.
//!
//! The only downside to this sink is that metrics aren't written to the
//! Statsd server until the buffer is full. If you have a busy application
//! that is constantly emitting metrics, this shouldn't be a problem.
//! However, if your application only occasionally emits metrics, this sink
//! might result in the metrics being delayed for a little while until the
//! buffer fills. In this case, it may make sense to use the `UdpMetricSink`
//! since it does not do any buffering.
//!
//! ### Queuing Asynchronous Metric Sink
//!
//! To make sure emitting metrics doesn't interfere with the performance
//! of your application (even though emitting metrics is generally quite
//! fast), it's probably a good idea to make sure metrics are emitted in
//! in a different thread than your application thread.
//!
//! To allow you to do this, there is `QueuingMetricSink`. This sink allows
//! you to wrap any other metric sink and send metrics to it via a queue,
//! as it emits metrics in another thread, asynchronously from the flow of
//! your application.
//!
//! The requirements for the wrapped metric sink are that it is thread
//! safe, meaning that it implements the `Send` and `Sync` traits. If
//! you're using the `QueuingMetricSink` with another sink from Cadence,
//! you don't need to worry: they are all thread safe.
//!
//! An example of using the `QueuingMetricSink` to wrap a buffered UDP
//! metric sink is given below. This is the preferred way to use Cadence
//! in production.
//!
//! ```rust,no_run
//! use std::net::UdpSocket;
//! use cadence::prelude::*;
//! use cadence::{StatsdClient, QueuingMetricSink, BufferedUdpMetricSink, DEFAULT_PORT};
//!
//! let socket = UdpSocket::bind("0.0.0.0:0").unwrap();
//! socket.set_nonblocking(true).unwrap();
//!
//! let host = ("metrics.example.com", DEFAULT_PORT);
//! let udp_sink = BufferedUdpMetricSink::from(host, socket).unwrap();
//! let queuing_sink = QueuingMetricSink::from(udp_sink);
//! let client = StatsdClient::from_sink("my.prefix", queuing_sink);
//!
//! client.count("my.counter.thing", 29);
//! client.time("my.service.call", 214);
//! ```
//!
//! In the example above, we use the default constructor for the queuing
//! sink which creates an **unbounded** queue, with no maximum size, to connect
//! the main thread where the client sends metrics to the background thread
//! in which the wrapped sink is running. If instead, you want to create a
//! **bounded** queue with a maximum size, you can use the `with_capacity`
//! constructor. An example of this is given below.
//!
//! ```rust,no_run
//! use std::net::UdpSocket;
//! use cadence::prelude::*;
//! use cadence::{StatsdClient, QueuingMetricSink, BufferedUdpMetricSink,
//!               DEFAULT_PORT};
//!
//! // Queue with a maximum capacity of 128K elements
//! const QUEUE_SIZE: usize = 128 * 1024;
//!
//! let socket = UdpSocket::bind("0.0.0.0:0").unwrap();
//! socket.set_nonblocking(true).unwrap();
//!
//! let host = ("metrics.example.com", DEFAULT_PORT);
//! let udp_sink = BufferedUdpMetricSink::from(host, socket).unwrap();
//! let queuing_sink = QueuingMetricSink::with_capacity(udp_sink, QUEUE_SIZE);
//! let client = StatsdClient::from_sink("my.prefix", queuing_sink);
//!
//! client.count("my.counter.thing", 29);
//! client.time("my.service.call", 214);
//! ```
//!
//! Using a `QueuingMetricSink` with a capacity set means that when the queue
//! is full, attempts to emit metrics via the `StatsdClient` will fail. While
//! this is bad, the alternative (if you instead used an unbounded queue) is
//! for unsent metrics to slowly use up more and more memory until your
//! application exhausts all memory.
//!
//! Using an **unbounded** queue means that the sending of metrics can absorb
//! slowdowns of sending metrics until your application runs out of memory.
//! Using a **bounded** queue puts a cap on the amount of memory that sending
//! metrics will use in your application. This is a tradeoff that users of
//! Cadence must decide for themselves.
//!

//! It is also possible to supply an error handler for a `QueuingMetricSink` to
//! be called whenever the wrapped sink cannot send metrics for whatever reason.

//! ```rust,no_run
//! use std::net::UdpSocket;
//! use cadence::prelude::*;
//! use cadence::{StatsdClient, QueuingMetricSink, BufferedUdpMetricSink,
//!               DEFAULT_PORT};
//!
//! // Queue with a maximum capacity of 128K elements
//! const QUEUE_SIZE: usize = 128 * 1024;
//!
//! let socket = UdpSocket::bind("0.0.0.0:0").unwrap();
//! socket.set_nonblocking(true).unwrap();
//!
//! let host = ("metrics.example.com", DEFAULT_PORT);
//! let udp_sink = BufferedUdpMetricSink::from(host, socket).unwrap();
//! let queuing_sink = QueuingMetricSink::builder()
//!     .with_capacity(QUEUE_SIZE)
//!     .with_error_handler(|e| {
//!         eprintln!("Error while sending metrics: {:?}", e);
//!     })
//!     .build(udp_sink);
//! let client = StatsdClient::from_sink("my.prefix", queuing_sink);
//!
//! client.count("my.counter.thing", 29);
//! client.time("my.service.call", 214);
//! ```
//!
//! ### Use With Tags
//!
//! Adding tags to metrics is accomplished via the use of each of the `_with_tags`
//! methods that are part of the Cadence `StatsdClient` struct. An example of using
//! these methods is given below. Note that tags are an extension to the Statsd
//! protocol and so may not be supported by all servers.
//!
//! See the [Datadog docs](https://docs.datadoghq.com/developers/dogstatsd/) for
//! more information.
//!
//! ```rust,no_run
//! use cadence::prelude::*;
//! use cadence::{Metric, StatsdClient, NopMetricSink};
//!
//! let client = StatsdClient::from_sink("my.prefix", NopMetricSink);
//!
//! let res = client.count_with_tags("my.counter", 29)
//!     .with_tag("host", "web03.example.com")
//!     .with_tag_value("beta-test")
//!     .try_send();
//!
//! assert_eq!(
//!     concat!(
//!         "my.prefix.my.counter:29|c|#",
//!         "host:web03.example.com,",
//!         "beta-test"
//!     ),
//!     res.unwrap().as_metric_str()
//! );
//! ```
//!
//! ### Default Tags
//!
//! Default tags can be added to a `StatsdClient` when constructed using the builder.
//! Default tags are added to every metric emitted by the `StatsdClient` without any
//! extra work after building the client. Note that tags are an extension to the Statsd
//! protocol and so may not be supported by all servers.
//!
//! See the [Datadog docs](https://docs.datadoghq.com/developers/dogstatsd/) for
//! more information.
//!
//! ```rust,no_run
//! use cadence::prelude::*;
//! use cadence::{Metric, StatsdClient, NopMetricSink};
//!
//! let client = StatsdClient::builder("my.prefix", NopMetricSink)
//!     .with_tag("env", "prod")
//!     .with_tag("app", "auth")
//!     .build();
//!
//! let res = client.count_with_tags("my.counter", 29)
//!     .with_tag("host", "web03.example.com")
//!     .with_tag_value("beta-test")
//!     .try_send();
//!
//! assert_eq!(
//!     concat!(
//!         "my.prefix.my.counter:29|c|#",
//!         "env:prod,",
//!         "app:auth,",
//!         "host:web03.example.com,",
//!         "beta-test"
//!     ),
//!     res.unwrap().as_metric_str()
//! );
//! ```
//!
//! ### Value Packing
//!
//! Value packing allows multiple values to be sent as a single metric for histograms,
//! distributions, and timer types. The Cadence client accepts `Vec<T>` for histogram,
//! distribution, and timer methods and will format multiple values as described below.
//! Note that this feature is a Datadog extension and so may not be supported by your
//! server. It is supported by versions `>=v6.25.0 && <v7.0.0` or `>=v7.25.0` of the
//! Datadog agent.
//!
//! Packed metrics have the following format:
//! ```text
//! <METRIC_NAME>:<VALUE1>:<VALUE2>:<VALUE3>|<TYPE>|#<TAG_KEY_1>:<TAG_VALUE_1>,<TAG_2>`
//! ```
//!
//! See the [Datadog Docs](https://docs.datadoghq.com/developers/dogstatsd/datagram_shell/?tab=metrics#dogstatsd-protocol-v11)
//! for more information.
//!
//! ```rust,no_run
//! use cadence::prelude::*;
//! use cadence::{Metric, StatsdClient, NopMetricSink};
//!
//! let client = StatsdClient::from_sink("my.prefix", NopMetricSink);
//!
//! let res = client.distribution_with_tags("my.distribution", vec![29, 30, 31, 32])
//!     .with_tag("host", "web03.example.com")
//!     .with_tag_value("beta-test")
//!     .try_send();
//!
//! assert_eq!(
//!     concat!(
//!         "my.prefix.my.distribution:29:30:31:32|d|#",
//!         "host:web03.example.com,",
//!         "beta-test"
//!     ),
//!     res.unwrap().as_metric_str()
//! );
//! ```
//!
//! ### Implemented Traits
//!
//! Each of the methods that the Cadence `StatsdClient` struct uses to send
//! metrics are implemented as a trait. There is also a trait that combines
//! all of these other traits. If we want, we can just use one of the trait
//! types to refer to the client instance. This might be useful to you if
//! you'd like to swap out the actual Cadence client with a dummy version
//! when you are unit testing your code or want to abstract away all the
//! implementation details of the client being used behind a trait and
//! pointer.
//!
//! Each of these traits are exported in the prelude module. They are also
//! available in the main module but aren't typically used like that.
//!
//! ```rust,no_run
//! use std::net::UdpSocket;
//! use cadence::prelude::*;
//! use cadence::{StatsdClient, UdpMetricSink, DEFAULT_PORT};
//!
//! pub struct User {
//!     id: u64,
//!     username: String,
//!     email: String
//! }
//!
//!
//! // Here's a simple DAO (Data Access Object) that doesn't do anything but
//! // uses a metric client to keep track of the number of times the
//! // 'getUserById' method gets called.
//! pub struct MyUserDao {
//!     metrics: Box<dyn MetricClient>
//! }
//!
//!
//! impl MyUserDao {
//!     // Create a new instance that will use the StatsdClient
//!     pub fn new<T: MetricClient + 'static>(metrics: T) -> MyUserDao {
//!         MyUserDao { metrics: Box::new(metrics) }
//!     }
//!
//!     /// Get a new user by their ID
//!     pub fn get_user_by_id(&self, id: u64) -> Option<User> {
//!         self.metrics.count("getUserById", 1);
//!         None
//!     }
//! }
//!
//!
//! // Create a new Statsd client that writes to "metrics.example.com"
//! let host = ("metrics.example.com", DEFAULT_PORT);
//! let socket = UdpSocket::bind("0.0.0.0:0").unwrap();
//! let sink = UdpMetricSink::from(host, socket).unwrap();
//! let metrics = StatsdClient::from_sink("counter.example", sink);
//!
//! // Create a new instance of the DAO that will use the client
//! let dao = MyUserDao::new(metrics);
//!
//! // Try to lookup a user by ID!
//! match dao.get_user_by_id(123) {
//!     Some(u) => println!("Found a user!"),
//!     None => println!("No user!")
//! };
//! ```
//!
//! ### Quiet Metric Sending and Error Handling
//!
//! When sending metrics sometimes you don't really care about the `Result` of
//! trying to send it or maybe you just don't want to deal with it inline with
//! the rest of your code. In order to handle this, Cadence allows you to set a
//! default error handler. This handler is invoked when there are errors sending
//! metrics so that the calling code doesn't have to deal with them.
//!
//! An example of configuring an error handler and an example of when it might
//! be invoked is given below.
//!
//! ```rust,no_run
//! use cadence::prelude::*;
//! use cadence::{MetricError, StatsdClient, NopMetricSink};
//!
//! fn my_error_handler(err: MetricError) {
//!     println!("Metric error! {}", err);
//! }
//!
//! let client = StatsdClient::builder("prefix", NopMetricSink)
//!     .with_error_handler(my_error_handler)
//!     .build();
//!
//! // When sending metrics via the `MetricBuilder` used for assembling tags,
//! // callers may opt into sending metrics quietly via the `.send()` method
//! // as opposed to the `.try_send()` method
//! client.count_with_tags("some.counter", 42)
//!     .with_tag("region", "us-east-2")
//!     .send();
//! ```
//!
//! ### Custom Metric Sinks
//!
//! The Cadence `StatsdClient` uses implementations of the `MetricSink`
//! trait to send metrics to a metric server. Most users of the Cadence
//! library probably want to use the `QueuingMetricSink` wrapping an instance
//! of the `BufferedMetricSink`.
//!
//! However, maybe you want to do something not covered by an existing sink.
//! An example of creating a custom sink is below.
//!
//! ```rust,no_run
//! use std::io;
//! use cadence::prelude::*;
//! use cadence::{StatsdClient, MetricSink, DEFAULT_PORT};
//!
//! pub struct MyMetricSink;
//!
//!
//! impl MetricSink for MyMetricSink {
//!     fn emit(&self, metric: &str) -> io::Result<usize> {
//!         // Your custom metric sink implementation goes here!
//!         Ok(0)
//!     }
//! }
//!
//!
//! let sink = MyMetricSink;
//! let client = StatsdClient::from_sink("my.prefix", sink);
//!
//! client.count("my.counter.thing", 42);
//! client.time("my.method.time", 25);
//! client.count("some.other.counter", 1);
//! ```
//!
//! ### Custom UDP Socket
//!
//! Most users of the Cadence `StatsdClient` will be using it to send metrics
//! over a UDP socket. If you need to customize the socket, for example you
//! want to use the socket in blocking mode but set a write timeout, you can
//! do that as demonstrated below.
//!
//! ```rust,no_run
//! use std::net::UdpSocket;
//! use std::time::Duration;
//! use cadence::prelude::*;
//! use cadence::{StatsdClient, UdpMetricSink, DEFAULT_PORT};
//!
//! let socket = UdpSocket::bind("0.0.0.0:0").unwrap();
//! socket.set_write_timeout(Some(Duration::from_millis(1))).unwrap();
//!
//! let host = ("metrics.example.com", DEFAULT_PORT);
//! let sink = UdpMetricSink::from(host, socket).unwrap();
//! let client = StatsdClient::from_sink("my.prefix", sink);
//!
//! client.count("my.counter.thing", 29);
//! client.time("my.service.call", 214);
//! client.count("some.event", 33);
//! client.set("users.uniques", 42);
//! ```
//!
//! ### Unix Sockets
//!
//! Cadence also supports using Unix datagram sockets with the `UnixMetricSink`  or
//! `BufferedUnixMetricSink`. Unix sockets can be used for sending metrics to a server
//! or agent running on the same machine (physical machine, VM, containers in a pod)
//! as your application. Unix sockets are somewhat similar to UDP sockets with a few
//! important differences:
//!
//! * Sending metrics on a socket that doesn't exist or is not being listened to will
//!   result in an error.
//! * Metrics sent on a connected socket are guaranteed to be delievered (i.e. they are
//!   reliable as opposed to UDP sockets). However, it's still possible that the metrics
//!   won't be read by the server due to a variety of environment and server specific
//!   reasons.
//!
//! An example of using the sinks is given below.
//!
//! ```rust,no_run
//! use std::os::unix::net::UnixDatagram;
//! use cadence::prelude::*;
//! use cadence::{StatsdClient, BufferedUnixMetricSink};
//!
//! let socket = UnixDatagram::unbound().unwrap();
//! socket.set_nonblocking(true).unwrap();
//! let sink = BufferedUnixMetricSink::from("/run/statsd.sock", socket);
//! let client = StatsdClient::from_sink("my.prefix", sink);
//!
//! client.count("my.counter.thing", 29);
//! client.time("my.service.call", 214);
//! client.count("some.event", 33);
//! client.set("users.uniques", 42);
//! ```
//!
//! NOTE: This feature is only available on Unix platforms (Linux, BSD, MacOS).
//!

#![forbid(unsafe_code)]

pub const DEFAULT_PORT: u16 = 8125;

pub use self::builder::MetricBuilder;

pub use self::client::{
    Counted, CountedExt, Distributed, Gauged, Histogrammed, Metered, MetricClient, Setted, StatsdClient,
    StatsdClientBuilder, Timed,
};

pub use self::sinks::{
    BufferedSpyMetricSink, BufferedUdpMetricSink, MetricSink, NopMetricSink, QueuingMetricSink,
    QueuingMetricSinkBuilder, SinkStats, SpyMetricSink, UdpMetricSink,
};

pub use self::types::{
    Counter, Distribution, ErrorKind, Gauge, Histogram, Meter, Metric, MetricError, MetricResult, Set, Timer,
};

mod builder;
mod client;
pub mod ext;
mod io;
pub mod prelude;
mod sinks;
mod types;

// Utilities for running integration tests with Unix datagram sockets.
#[cfg(unix)]
#[doc(hidden)]
pub mod test;

// Sinks for sending metrics over Unix datagram sockets
#[cfg(unix)]
pub use crate::sinks::{BufferedUnixMetricSink, UnixMetricSink};

mod sealed {
    pub trait Sealed {}
}
